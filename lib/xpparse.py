"""Reference XPath 1.0 parser over a TOKEN LIST (used only for the rejection family of C02: the generator enumerates
token strings, this says which are in the language and gives the AST of those that are). Implements the lexical
disambiguation rules of XPath 1.0 section 3.7 and the grammar of sections 2 and 3."""
import refxpath as X

NODE_TYPES = {'node', 'text', 'comment', 'processing-instruction'}
OPERATOR_NAMES = {'and', 'or', 'mod', 'div'}
FUNCTIONS = {  # name -> (min arity, max arity or -1)
    'last': (0, 0), 'position': (0, 0), 'count': (1, 1), 'id': (1, 1), 'local-name': (0, 1), 'namespace-uri': (0, 1),
    'name': (0, 1), 'string': (0, 1), 'concat': (2, -1), 'starts-with': (2, 2), 'contains': (2, 2),
    'substring-before': (2, 2), 'substring-after': (2, 2), 'substring': (2, 3), 'string-length': (0, 1),
    'normalize-space': (0, 1), 'translate': (3, 3), 'boolean': (1, 1), 'not': (1, 1), 'true': (0, 0), 'false': (0, 0),
    'lang': (1, 1), 'number': (0, 1), 'sum': (1, 1), 'floor': (1, 1), 'ceiling': (1, 1), 'round': (1, 1),
}
SYMBOL_OPS = {'/', '//', '|', '+', '-', '=', '!=', '<', '<=', '>', '>='}


class Reject(Exception):
    pass


def is_ncname(t):
    return t[0].isalpha() or t[0] == '_'


def classify(tokens):
    """Returns list of (kind, text). kinds: op, name(=name test), nodetype, func, axis, num, str, var, sym"""
    out = []
    for i, t in enumerate(tokens):
        prev = out[-1] if out else None
        nxt = tokens[i + 1] if i + 1 < len(tokens) else None
        # "preceding token is not one of @, ::, (, [, ',' or an Operator"
        after_operand = prev is not None and not (prev[0] == 'op' or prev[1] in ('@', '::', '(', '[', ','))
        if t == '*':
            out.append(('op', '*') if after_operand else ('name', '*'))
        elif t[0].isdigit() or (t[0] == '.' and len(t) > 1 and t[1].isdigit()):
            out.append(('num', t))
        elif t[0] in '\'"':
            out.append(('str', t[1:-1]))
        elif t[0] == '$':
            out.append(('var', t[1:]))
        elif is_ncname(t):
            if after_operand:
                if t in OPERATOR_NAMES:
                    out.append(('op', t))
                else:
                    raise Reject('name where operator expected: ' + t)
            elif nxt == '(':
                out.append(('nodetype', t) if t in NODE_TYPES else ('func', t))
            elif nxt == '::':
                out.append(('axis', t))
            else:
                out.append(('name', t))
        elif t in SYMBOL_OPS:
            out.append(('op', t))
        else:
            out.append(('sym', t))
    return out


class Parser:
    def __init__(self, tokens):
        self.t = classify(tokens)
        self.i = 0

    def peek(self, k=0):
        return self.t[self.i + k] if self.i + k < len(self.t) else (None, None)

    def eat(self, text=None, kind=None):
        k, t = self.peek()
        if k is None or (text is not None and t != text) or (kind is not None and k != kind):
            raise Reject('expected %s got %s' % (text or kind, t))
        self.i += 1
        return t

    def is_op(self, *texts):
        k, t = self.peek()
        return k == 'op' and t in texts

    def parse(self):
        e = self.expr()
        if self.i != len(self.t):
            raise Reject('trailing tokens')
        return e

    def expr(self):
        return self.binary(0)

    LEVELS = [('or',), ('and',), ('=', '!='), ('<', '<=', '>', '>='), ('+', '-'), ('*', 'div', 'mod')]

    def binary(self, lvl):
        if lvl == len(self.LEVELS):
            return self.unary()
        l = self.binary(lvl + 1)
        while self.is_op(*self.LEVELS[lvl]):
            op = self.eat()
            r = self.binary(lvl + 1)
            l = ('bin', op, l, r)
        return l

    def unary(self):
        if self.is_op('-'):
            self.eat()
            return ('neg', self.unary())
        return self.union()

    def union(self):
        l = self.pathexpr()
        while self.is_op('|'):
            self.eat()
            r = self.pathexpr()
            l = ('bin', '|', l, r)
        return l

    def starts_primary(self):
        k, t = self.peek()
        return k in ('var', 'str', 'num', 'func') or (k == 'sym' and t == '(')

    def pathexpr(self):
        if self.starts_primary():
            f = self.filterexpr()
            if self.is_op('/', '//'):
                op = self.eat()
                steps = ([X.DOS] if op == '//' else []) + self.relpath()
                return ('path', f, steps)
            return f
        return self.locpath()

    def filterexpr(self):
        k, t = self.peek()
        if k == 'var':
            self.eat()
            e = ('var', t)
        elif k == 'str':
            self.eat()
            e = ('str', t)
        elif k == 'num':
            self.eat()
            e = ('num', float(t), t)
        elif k == 'func':
            self.eat()
            if t not in FUNCTIONS:
                raise Reject('unknown function ' + t)
            self.eat('(')
            args = []
            if self.peek() != ('sym', ')'):
                args.append(self.expr())
                while self.peek() == ('sym', ','):
                    self.eat()
                    args.append(self.expr())
            self.eat(')')
            lo, hi = FUNCTIONS[t]
            if len(args) < lo or (hi >= 0 and len(args) > hi):
                raise Reject('arity')
            e = ('fn', t, args)
        else:
            self.eat('(')
            e = ('group', self.expr())
            self.eat(')')
        preds = self.preds()
        return ('filter', e, preds) if preds else e

    def preds(self):
        out = []
        while self.peek() == ('sym', '['):
            self.eat()
            out.append(self.expr())
            self.eat(']')
        return out

    def locpath(self):
        if self.is_op('/'):
            self.eat()
            if self.starts_step():
                return ('path', 'root', self.relpath())
            return ('path', 'root', [])
        if self.is_op('//'):
            self.eat()
            return ('path', 'root', [X.DOS] + self.relpath())
        return ('path', None, self.relpath())

    def starts_step(self):
        k, t = self.peek()
        return k in ('name', 'nodetype', 'axis') or (k == 'sym' and t in ('@', '.', '..'))

    def relpath(self):
        steps = [self.step()]
        while self.is_op('/', '//'):
            op = self.eat()
            if op == '//':
                steps.append(X.DOS)
            steps.append(self.step())
        return steps

    def step(self):
        k, t = self.peek()
        if k == 'sym' and t == '.':
            self.eat()
            return X.step('self', X.NODE)
        if k == 'sym' and t == '..':
            self.eat()
            return X.step('parent', X.NODE)
        axis = 'child'
        if k == 'sym' and t == '@':
            self.eat()
            axis = 'attribute'
        elif k == 'axis':
            self.eat()
            if t not in X.AXES:
                raise Reject('unknown axis ' + t)
            axis = t
            self.eat('::')
        k, t = self.peek()
        if k == 'name':
            self.eat()
            test = X.WILD if t == '*' else X.name(t)
        elif k == 'nodetype':
            self.eat()
            self.eat('(')
            if t == 'processing-instruction' and self.peek()[0] == 'str':
                test = ('pi', self.eat())
            else:
                test = ('type', {'node': 'node', 'text': 'text', 'comment': 'comment', 'processing-instruction': 'pi'}[t])
            self.eat(')')
        else:
            raise Reject('node test expected')
        return ('step', axis, test, self.preds())


def parse_tokens(tokens):
    """Returns the AST, or raises Reject."""
    if not tokens:
        raise Reject('empty')
    return Parser(tokens).parse()


def parse_text(text):
    """AST of an expression written as text (names without prefixes): a plain tokenizer in front of parse_tokens."""
    import re as _re
    tok = _re.compile(r"'[^']*'|\"[^\"]*\"|\$[A-Za-z_][\w.-]*|::|//|\.\.|!=|<=|>=|[A-Za-z_][\w.-]*|\d+(?:\.\d+)?|\S")
    return parse_tokens(tok.findall(text))
