"""RefXSLT: a small reference interpreter for the XSLT 1.0 core instruction set over RefDoc/RefXPath, working on
stylesheet ASTs (the generator owns the AST; the XSLT text handed to Xalan is rendered from it).

Stylesheet: {'templates': [Template], 'keys': [(name, match_ast, match_text, use_ast, use_text)], 'strip': bool,
             'globals': [(name, ('select', expr) | ('body', [instr]))]}
Template: dict(match=(ast, text, alternatives[(ast, default priority)]) or None, name=None|str, mode='', priority=None|float,
               params=[(name, default expr ast/text or None)], body=[instr])
Expressions are pairs (ast, text) so that the renderer never prints an AST the generator did not print itself.
Instructions (tuples):
  ('text', s)  ('valueof', E)  ('lre', qname, [(attr qname, AVT parts)], [body])  ('element', AVT, [body])  ('attribute', AVT, [body])
  ('comment', [body])  ('pi', AVT, [body])  ('if', E, [body])  ('choose', [(E, [body])...], [otherwise] | None)
  ('foreach', E, [sortkeys], [body])  ('apply', E | None, mode, [sortkeys], [(pname, E)])  ('call', name, [(pname, E)])
  ('variable', name, ('select', E) | ('body', [body]))  ('copy', [body])  ('copyof', E)  ('number', level, countE|None)
  ('message', [body])
AVT parts: list of str | E.    sort key: (E, datatype 'text'|'number', descending bool)
"""
import math
import refdoc as R
import refxpath as X


class XSLTError(Exception):
    pass


class RTF:
    """a result tree fragment: a root node with children"""
    def __init__(self, doc):
        self.doc = doc


class Interp:
    def __init__(self, sheet, doc):
        self.sheet = sheet
        self.doc = doc
        self.match_cache = {}
        self.key_cache = {}
        self.globals = {}
        self.rtf_docs = []
        # import tree -> modules in increasing import precedence (post-order: the imports of a module, in order, then the module)
        self.modules = []

        def walk(m):
            for i in m.get('imports', []):
                walk(i)
            self.modules.append(m)
        walk(sheet)
        self.templates = [(prec, t) for prec, m in enumerate(self.modules) for t in m.get('templates', [])]
        self.eval_global_vars()

    # ---------- xpath glue
    def ctx(self, node, pos, size, vars_):
        return X.Ctx(node, pos, size, vars_, {}, self.key_fn, node)

    def key_fn(self, kname, val, ctx):
        doc = ctx.node.doc
        if isinstance(val, X.NodeSet):
            vals = set(n.string_value() for n in val)
        else:
            vals = {X.to_str(val)}
        out = []
        for (name, m_ast, mt, u_ast, ut) in self.sheet.get('keys', []):
            if name != kname:
                continue
            for n in doc.nodes:
                if n.kind == R.NS or not self.matches(n, m_ast):
                    continue
                u = X.evaluate(u_ast, self.ctx(n, 1, 1, dict(self.globals)))
                uv = set(x.string_value() for x in u) if isinstance(u, X.NodeSet) else {X.to_str(u)}
                if uv & vals:
                    out.append(n)
        return X.doc_sorted(out)

    def matches(self, node, ast):
        k = (id(ast), node.doc.seq)
        if k not in self.match_cache:
            s = set()
            for A in node.doc.nodes:
                if A.kind == R.NS:
                    continue
                for n in X.evaluate(ast, self.ctx(A, 1, 1, dict(self.globals))):
                    s.add(id(n))
            self.match_cache[k] = s
        return id(node) in self.match_cache[k]

    def ev(self, E, c):
        v = X.evaluate(E[0], c)
        return v

    # ---------- globals
    def eval_global_vars(self):
        # a binding in a module of higher import precedence replaces one of lower precedence (modules are in increasing order)
        eff = {}
        order = []
        for m in self.modules:
            for g in m.get('globals', []):
                name, val = g[0], g[1]
                if name not in eff:
                    order.append(name)
                eff[name] = val
        for name in order:
            c = self.ctx(self.doc.root, 1, 1, dict(self.globals))
            self.globals[name] = self.var_value(eff[name], c)

    def var_value(self, val, c):
        if val[0] == 'select':
            return self.ev(val[1], c)
        # body: a result tree fragment; as a value it behaves like a node-set containing its root
        root = R.Node(R.ROOT)
        self.run_body(val[1], c, root)
        d = R.Doc(root, (), 'rtf')
        self.rtf_docs.append(d)
        return X.NodeSet([d.root])

    # ---------- template selection
    def find_template(self, node, mode):
        best = None
        for ti, (prec, t) in enumerate(self.templates):
            if t.get('match') is None or (t.get('mode') or '') != (mode or ''):
                continue
            for ast, dflt in t['match'][2]:
                if self.matches(node, ast):
                    pr = t['priority'] if t.get('priority') is not None else dflt
                    k = (prec, pr, ti)
                    if best is None or k > best[0]:
                        best = (k, t)
        return best[1] if best else None

    def apply_to(self, node, mode, pos, size, vars_, params, out):
        t = self.find_template(node, mode)
        c = self.ctx(node, pos, size, vars_)
        if t is None:
            # built-in rules
            if node.kind in (R.ROOT, R.ELEM):
                kids = list(node.children)
                for i, k in enumerate(kids):
                    self.apply_to(k, mode, i + 1, len(kids), dict(self.globals), {}, out)
            elif node.kind in (R.TEXT, R.ATTR):
                self.add_text(out, node.value)
            return
        self.instantiate(t, c, params, out)

    def instantiate(self, t, c, params, out):
        self.depth = getattr(self, 'depth', 0) + 1
        try:
            if self.depth > 40:
                raise XSLTError('template recursion deeper than 40: the generated program does not terminate')
            self._instantiate(t, c, params, out)
        finally:
            self.depth -= 1

    def _instantiate(self, t, c, params, out):
        vars_ = dict(self.globals)
        c2 = X.Ctx(c.node, c.pos, c.size, vars_, {}, self.key_fn, c.node)
        for pname, default in t.get('params', []):
            if pname in params:
                vars_[pname] = params[pname]
            elif default is None:
                vars_[pname] = ''
            else:
                vars_[pname] = self.var_value(default, c2)
        self.run_body(t['body'], c2, out)

    # ---------- result tree helpers
    def add_text(self, out, s):
        if s == '':
            return
        if out.children and out.children[-1].kind == R.TEXT:
            out.children[-1].value += s
        else:
            out.add(R.Node(R.TEXT, value=s))

    def avt(self, parts, c):
        if isinstance(parts, str):
            return parts
        o = []
        for p in parts:
            o.append(p if isinstance(p, str) else X.to_str(self.ev(p, c)))
        return ''.join(o)

    def copy_node(self, n, out):
        if n.kind == R.ROOT:
            for k in n.children:
                self.copy_node(k, out)
        elif n.kind == R.ELEM:
            e = R.Node(R.ELEM, prefix=n.prefix, local=n.local, uri=n.uri)
            for a in n.attrs:
                e.add_attr(R.Node(R.ATTR, prefix=a.prefix, local=a.local, uri=a.uri, value=a.value))
            out.add(e)
            for k in n.children:
                self.copy_node(k, e)
        elif n.kind == R.TEXT:
            self.add_text(out, n.value)
        elif n.kind == R.ATTR:
            self.set_attr(out, n.prefix, n.local, n.uri, n.value)
        elif n.kind == R.COMMENT:
            out.add(R.Node(R.COMMENT, value=n.value))
        elif n.kind == R.PI:
            out.add(R.Node(R.PI, local=n.local, value=n.value))

    def set_attr(self, out, prefix, local, uri, value):
        if out.kind != R.ELEM or out.children:
            return          # adding an attribute after children / to a non-element is an error the generator avoids
        for a in out.attrs:
            if a.local == local and (a.uri or '') == (uri or ''):
                a.value = value
                return
        out.add_attr(R.Node(R.ATTR, prefix=prefix, local=local, uri=uri or '', value=value))

    def sorted_nodes(self, nodes, sortkeys, c):
        if not sortkeys:
            return list(nodes)
        import functools
        size = len(nodes)
        keyed = []
        for i, n in enumerate(nodes):
            ks = []
            for (E, dt, desc) in sortkeys:
                v = self.ev(E, X.Ctx(n, i + 1, size, c.vars, {}, self.key_fn, n))
                if dt == 'number':
                    ks.append(X.to_num(v))
                else:
                    ks.append(X.to_str(v))
            keyed.append((ks, n))

        def cmp(a, b):
            for k, (E, dt, desc) in enumerate(sortkeys):
                x, y = a[0][k], b[0][k]
                if dt == 'number':
                    if x != x and y != y:
                        r = 0
                    elif x != x:
                        r = -1
                    elif y != y:
                        r = 1
                    else:
                        r = -1 if x < y else (1 if x > y else 0)
                else:
                    r = -1 if x < y else (1 if x > y else 0)
                if desc:
                    r = -r
                if r:
                    return r
            return 0
        return [n for _, n in sorted(keyed, key=functools.cmp_to_key(cmp))]

    # ---------- instructions
    def run_body(self, body, c, out):
        vars_ = dict(c.vars)
        c = X.Ctx(c.node, c.pos, c.size, vars_, {}, self.key_fn, c.current)
        for ins in body:
            self.run(ins, c, out)

    def run(self, ins, c, out):
        k = ins[0]
        if k == 'text':
            self.add_text(out, ins[1])
        elif k == 'valueof':
            self.add_text(out, X.to_str(self.ev(ins[1], c)))
        elif k == 'lre':
            e = R.Node(R.ELEM, prefix=None, local=ins[1], uri='')
            out.add(e)
            for an, parts in ins[2]:
                self.set_attr(e, None, an, '', self.avt(parts, c))
            self.run_body(ins[3], c, e)
        elif k == 'element':
            nm = self.avt(ins[1], c)
            e = R.Node(R.ELEM, prefix=None, local=nm, uri='')
            out.add(e)
            self.run_body(ins[2], c, e)
        elif k == 'attribute':
            nm = self.avt(ins[1], c)
            tmp = R.Node(R.ROOT)
            self.run_body(ins[2], c, tmp)
            self.set_attr(out, None, nm, '', tmp.string_value())
        elif k == 'comment':
            tmp = R.Node(R.ROOT)
            self.run_body(ins[1], c, tmp)
            out.add(R.Node(R.COMMENT, value=tmp.string_value()))
        elif k == 'pi':
            tmp = R.Node(R.ROOT)
            self.run_body(ins[2], c, tmp)
            out.add(R.Node(R.PI, local=self.avt(ins[1], c), value=tmp.string_value()))
        elif k == 'if':
            if X.to_bool(self.ev(ins[1], c)):
                self.run_body(ins[2], c, out)
        elif k == 'choose':
            for test, b in ins[1]:
                if X.to_bool(self.ev(test, c)):
                    self.run_body(b, c, out)
                    return
            if ins[2] is not None:
                self.run_body(ins[2], c, out)
        elif k == 'foreach':
            v = self.ev(ins[1], c)
            if not isinstance(v, X.NodeSet):
                raise XSLTError('for-each over non-node-set')
            nodes = self.sorted_nodes(list(v), ins[2], c)
            for i, n in enumerate(nodes):
                self.run_body(ins[3], X.Ctx(n, i + 1, len(nodes), c.vars, {}, self.key_fn, n), out)
        elif k == 'apply':
            if ins[1] is None:
                nodes = list(c.node.children) if c.node.kind in (R.ROOT, R.ELEM) else []
            else:
                v = self.ev(ins[1], c)
                if not isinstance(v, X.NodeSet):
                    raise XSLTError('apply-templates over non-node-set')
                nodes = list(v)
            nodes = self.sorted_nodes(nodes, ins[3], c)
            params = {pn: self.ev(E, c) for pn, E in ins[4]}
            for i, n in enumerate(nodes):
                self.apply_to(n, ins[2], i + 1, len(nodes), c.vars, params, out)
        elif k == 'call':
            t = [t for prec, t in self.templates if t.get('name') == ins[1]][-1]      # highest import precedence
            params = {pn: self.ev(E, c) for pn, E in ins[2]}
            self.instantiate(t, c, params, out)
        elif k == 'variable':
            c.vars[ins[1]] = self.var_value(ins[2], c)
        elif k == 'copy':
            n = c.node
            if n.kind == R.ELEM:
                e = R.Node(R.ELEM, prefix=n.prefix, local=n.local, uri=n.uri)
                out.add(e)
                self.run_body(ins[1], c, e)
            elif n.kind == R.ROOT:
                self.run_body(ins[1], c, out)
            else:
                self.copy_node(n, out)
        elif k == 'copyof':
            v = self.ev(ins[1], c)
            if isinstance(v, X.NodeSet):
                for n in v:
                    self.copy_node(n, out)
            else:
                self.add_text(out, X.to_str(v))
        elif k == 'number':
            self.add_text(out, self.number(c.node, ins[1], ins[2]))
        elif k == 'message':
            tmp = R.Node(R.ROOT)
            self.run_body(ins[1], c, tmp)
        else:
            raise XSLTError('unknown instruction %r' % (k,))

    def number(self, node, level, count):
        def cm(x):
            if count is not None:
                return self.matches(x, count[0])
            if x.kind != node.kind:
                return False
            if node.kind in (R.ELEM, R.ATTR, R.PI):
                return x.local == node.local and (x.uri or '') == (node.uri or '')
            return True

        def presibs(x):
            if x.kind in (R.ATTR, R.NS) or x.parent is None:
                return []
            sib = x.parent.children
            i = next(j for j, cc in enumerate(sib) if cc is x)
            return sib[:i]
        chain = [node] + list(node.ancestors())
        if level == 'single':
            for a in chain:
                if cm(a):
                    return str(1 + sum(1 for p in presibs(a) if cm(p)))
            return ''
        if level == 'multiple':
            nums = [1 + sum(1 for p in presibs(a) if cm(p)) for a in reversed(chain) if cm(a)]
            return '.'.join(map(str, nums))
        cand = [n for n in node.doc.nodes if n.kind not in (R.ATTR, R.NS) and n.order < node.order] + [node]
        c = sum(1 for n in cand if cm(n))
        return str(c) if c else ''

    def transform(self):
        out = R.Node(R.ROOT)
        self.apply_to(self.doc.root, '', 1, 1, dict(self.globals), {}, out)
        return out


# ---------------------------------------------------------------------------------------------------------
# rendering to XSLT text

XSLNS = 'http://www.w3.org/1999/XSL/Transform'


def xa(s):
    return s.replace('&', '&amp;').replace('<', '&lt;').replace('"', '&quot;')


def xt(s):
    return s.replace('&', '&amp;').replace('<', '&lt;').replace('>', '&gt;')


def avt_text(parts):
    if isinstance(parts, str):
        return xa(parts.replace('{', '{{').replace('}', '}}'))
    o = []
    for p in parts:
        if isinstance(p, str):
            o.append(xa(p.replace('{', '{{').replace('}', '}}')))
        else:
            o.append('{' + xa(p[1]) + '}')
    return ''.join(o)


def sort_text(keys):
    o = []
    for (E, dt, desc) in keys:
        o.append('<xsl:sort select="%s"%s%s/>' % (xa(E[1]), ' data-type="number"' if dt == 'number' else '', ' order="descending"' if desc else ''))
    return ''.join(o)


def var_text(tag, name, val):
    if val is None:
        return '<xsl:%s name="%s"/>' % (tag, name)
    if val[0] == 'select':
        return '<xsl:%s name="%s" select="%s"/>' % (tag, name, xa(val[1][1]))
    return '<xsl:%s name="%s">%s</xsl:%s>' % (tag, name, body_text(val[1]), tag)


def body_text(body):
    return ''.join(ins_text(i) for i in body)


def ins_text(ins):
    k = ins[0]
    if k == 'text':
        return '<xsl:text>%s</xsl:text>' % xt(ins[1])
    if k == 'valueof':
        return '<xsl:value-of select="%s"/>' % xa(ins[1][1])
    if k == 'lre':
        return '<%s%s>%s</%s>' % (ins[1], ''.join(' %s="%s"' % (an, avt_text(p)) for an, p in ins[2]), body_text(ins[3]), ins[1])
    if k == 'element':
        return '<xsl:element name="%s">%s</xsl:element>' % (avt_text(ins[1]), body_text(ins[2]))
    if k == 'attribute':
        return '<xsl:attribute name="%s">%s</xsl:attribute>' % (avt_text(ins[1]), body_text(ins[2]))
    if k == 'comment':
        return '<xsl:comment>%s</xsl:comment>' % body_text(ins[1])
    if k == 'pi':
        return '<xsl:processing-instruction name="%s">%s</xsl:processing-instruction>' % (avt_text(ins[1]), body_text(ins[2]))
    if k == 'if':
        return '<xsl:if test="%s">%s</xsl:if>' % (xa(ins[1][1]), body_text(ins[2]))
    if k == 'choose':
        o = ['<xsl:choose>']
        for t, b in ins[1]:
            o.append('<xsl:when test="%s">%s</xsl:when>' % (xa(t[1]), body_text(b)))
        if ins[2] is not None:
            o.append('<xsl:otherwise>%s</xsl:otherwise>' % body_text(ins[2]))
        o.append('</xsl:choose>')
        return ''.join(o)
    if k == 'foreach':
        return '<xsl:for-each select="%s">%s%s</xsl:for-each>' % (xa(ins[1][1]), sort_text(ins[2]), body_text(ins[3]))
    if k == 'apply':
        sel = ' select="%s"' % xa(ins[1][1]) if ins[1] is not None else ''
        mode = ' mode="%s"' % ins[2] if ins[2] else ''
        inner = sort_text(ins[3]) + ''.join('<xsl:with-param name="%s" select="%s"/>' % (pn, xa(E[1])) for pn, E in ins[4])
        return '<xsl:apply-templates%s%s>%s</xsl:apply-templates>' % (sel, mode, inner) if inner else '<xsl:apply-templates%s%s/>' % (sel, mode)
    if k == 'call':
        inner = ''.join('<xsl:with-param name="%s" select="%s"/>' % (pn, xa(E[1])) for pn, E in ins[2])
        return '<xsl:call-template name="%s">%s</xsl:call-template>' % (ins[1], inner)
    if k == 'variable':
        return var_text('variable', ins[1], ins[2])
    if k == 'copy':
        return '<xsl:copy>%s</xsl:copy>' % body_text(ins[1])
    if k == 'copyof':
        return '<xsl:copy-of select="%s"/>' % xa(ins[1][1])
    if k == 'number':
        return '<xsl:number level="%s"%s/>' % (ins[1], ' count="%s"' % xa(ins[2][1]) if ins[2] is not None else '')
    if k == 'message':
        return '<xsl:message>%s</xsl:message>' % body_text(ins[1])
    raise ValueError(k)


def sheet_resources(sheet):
    """href -> text of every imported module (recursively)"""
    out = {}
    for m in sheet.get('imports', []):
        out[m['href']] = sheet_text(m)
        out.update(sheet_resources(m))
    return out


def sheet_text(sheet):
    o = ['<xsl:stylesheet version="1.0" xmlns:xsl="%s" xmlns:xalan="http://xml.apache.org/xalan" exclude-result-prefixes="xalan">' % XSLNS]
    for m in sheet.get('imports', []):
        o.append('<xsl:import href="%s"/>' % m['href'])
    if sheet.get('strip'):
        o.append('<xsl:strip-space elements="*"/>')
    for (name, m_ast, mt, u_ast, ut) in sheet.get('keys', []):
        o.append('<xsl:key name="%s" match="%s" use="%s"/>' % (name, xa(mt), xa(ut)))
    for g in sheet.get('globals', []):
        o.append(var_text(g[2] if len(g) > 2 else 'variable', g[0], g[1]))
    for t in sheet.get('templates', []):
        a = ''
        if t.get('match') is not None:
            a += ' match="%s"' % xa(t['match'][1])
        if t.get('name'):
            a += ' name="%s"' % t['name']
        if t.get('mode'):
            a += ' mode="%s"' % t['mode']
        if t.get('priority') is not None:
            a += ' priority="%s"' % X.num_to_str(t['priority'])
        params = ''.join(var_text('param', pn, d) for pn, d in t.get('params', []))
        o.append('<xsl:template%s>%s%s</xsl:template>' % (a, params, body_text(t['body'])))
    o.append('</xsl:stylesheet>')
    return ''.join(o)
