"""RefXPath: a textbook XPath 1.0 evaluator over RefDoc, working on ASTs (the generator owns the AST; the text
handed to Xalan is printed from it, so the reference never parses XPath).

AST nodes (tuples):
  ('num', float, text)   ('str', s)   ('var', name)   ('fn', name, [args])
  ('bin', op, l, r)      op in or and = != < <= > >= + - * div mod |
  ('neg', e)             ('group', e)
  ('path', start, steps) start: None (relative) | 'root' | expr ; steps: [('step', axis, test, [preds])]
  ('filter', e, [preds])
node tests: ('name', prefix, local) ('wild',) ('nswild', prefix) ('type', 'node'|'text'|'comment'|'pi') ('pi', target)
"""
import math, re
from decimal import Decimal
import refdoc as R

AXES = ['child', 'descendant', 'parent', 'ancestor', 'following-sibling', 'preceding-sibling', 'following',
        'preceding', 'attribute', 'namespace', 'self', 'descendant-or-self', 'ancestor-or-self']
REVERSE = {'ancestor', 'ancestor-or-self', 'preceding', 'preceding-sibling'}


class XPathError(Exception):
    pass


class NodeSet(list):
    pass


class Ctx:
    __slots__ = ('node', 'pos', 'size', 'vars', 'ns', 'keys', 'current')

    def __init__(self, node, pos=1, size=1, vars=None, ns=None, keys=None, current=None):
        self.node, self.pos, self.size = node, pos, size
        self.vars = vars if vars is not None else {}
        self.ns = ns if ns is not None else {}
        self.keys = keys
        self.current = current if current is not None else node

    def at(self, node, pos, size):
        return Ctx(node, pos, size, self.vars, self.ns, self.keys, self.current)


# ---------------------------------------------------------------------------------------------
# printing

PREC = {'or': 1, 'and': 2, '=': 3, '!=': 3, '<': 4, '<=': 4, '>': 4, '>=': 4, '+': 5, '-': 5,
        '*': 6, 'div': 6, 'mod': 6, '|': 8}


def prec_of(e):
    k = e[0]
    if k == 'bin':
        return PREC[e[1]]
    if k == 'neg':
        return 7
    if k == 'path':
        return 9
    return 10


def print_test(t):
    k = t[0]
    if k == 'name':
        return (t[1] + ':' + t[2]) if t[1] else t[2]
    if k == 'wild':
        return '*'
    if k == 'nswild':
        return t[1] + ':*'
    if k == 'type':
        return {'node': 'node()', 'text': 'text()', 'comment': 'comment()', 'pi': 'processing-instruction()'}[t[1]]
    if k == 'pi':
        return "processing-instruction('%s')" % t[1]
    raise ValueError(t)


def print_step(s, abbrev):
    _, axis, test, preds = s
    if abbrev and axis == 'child':
        base = print_test(test)
    elif abbrev and axis == 'attribute':
        base = '@' + print_test(test)
    elif abbrev and axis == 'self' and test == ('type', 'node') and not preds:
        base = '.'
    elif abbrev and axis == 'parent' and test == ('type', 'node') and not preds:
        base = '..'
    else:
        base = axis + '::' + print_test(test)
    return base + ''.join('[' + to_text(p, abbrev) + ']' for p in preds)


def is_dos(s):
    return s[1] == 'descendant-or-self' and s[2] == ('type', 'node') and not s[3]


def print_steps(steps, abbrev):
    out = []
    i = 0
    first = True
    while i < len(steps):
        s = steps[i]
        if abbrev and is_dos(s) and i + 1 < len(steps) and not first:
            out.append('/')          # '//' == '/descendant-or-self::node()/'
            out.append('/')
            out.append(print_step(steps[i + 1], abbrev))
            i += 2
            continue
        if not first:
            out.append('/')
        out.append(print_step(s, abbrev))
        first = False
        i += 1
    return ''.join(out)


def str_lit(s):
    if "'" not in s:
        return "'" + s + "'"
    if '"' not in s:
        return '"' + s + '"'
    raise ValueError('string with both quote kinds')


def to_text(e, abbrev=True, tight=False):
    k = e[0]
    if k == 'num':
        return e[2]
    if k == 'str':
        return str_lit(e[1])
    if k == 'var':
        return '$' + e[1]
    if k == 'fn':
        return e[1] + '(' + (',' if tight else ', ').join(to_text(a, abbrev, tight) for a in e[2]) + ')'
    if k == 'group':
        return '(' + to_text(e[1], abbrev, tight) + ')'
    if k == 'neg':
        inner = to_text(e[1], abbrev, tight)
        if prec_of(e[1]) < 7:
            inner = '(' + inner + ')'
        return '-' + inner if not inner.startswith('-') else '- ' + inner
    if k == 'bin':
        op = e[1]
        l = to_text(e[2], abbrev, tight)
        r = to_text(e[3], abbrev, tight)
        if prec_of(e[2]) < PREC[op]:
            l = '(' + l + ')'
        if prec_of(e[3]) <= PREC[op]:
            r = '(' + r + ')'
        if tight and op in ('=', '!=', '<', '<=', '>', '>=', '+', '|', '*'):
            return l + op + r
        if tight and op == '-':
            return l + ' -' + r     # the space before '-' is needed after a name
        return l + ' ' + op + ' ' + r
    if k == 'filter':
        inner = to_text(e[1], abbrev, tight)
        if e[1][0] not in ('var', 'group', 'str', 'num', 'fn'):
            inner = '(' + inner + ')'
        return inner + ''.join('[' + to_text(p, abbrev, tight) + ']' for p in e[2])
    if k == 'path':
        start, steps = e[1], e[2]
        if start is None:
            return print_steps(steps, abbrev)
        if start == 'root':
            if not steps:
                return '/'
            if abbrev and len(steps) >= 2 and is_dos(steps[0]):
                return '//' + print_steps(steps[1:], abbrev)
            return '/' + print_steps(steps, abbrev)
        inner = to_text(start, abbrev, tight)
        if start[0] not in ('var', 'group', 'str', 'num', 'fn', 'filter'):
            inner = '(' + inner + ')'
        if abbrev and len(steps) >= 2 and is_dos(steps[0]):
            return inner + '//' + print_steps(steps[1:], abbrev)
        return inner + '/' + print_steps(steps, abbrev)
    raise ValueError(e)


# ---------------------------------------------------------------------------------------------
# conversions

def num_to_str(x):
    if x != x:
        return 'NaN'
    if x == math.inf:
        return 'Infinity'
    if x == -math.inf:
        return '-Infinity'
    if x == 0:
        return '0'
    if x == int(x) and abs(x) < 1e18:
        return str(int(x))
    s = format(Decimal(repr(x)), 'f')
    if '.' in s:
        s = s.rstrip('0').rstrip('.')
    return s


_NUM_RE = re.compile(r'^[ \t\r\n]*-?([0-9]+(\.[0-9]*)?|\.[0-9]+)[ \t\r\n]*$')


def str_to_num(s):
    if _NUM_RE.match(s):
        v = float(s.strip(' \t\r\n'))
        return v if v != 0 else 0.0      # "-0": the sign of a zero result is not specified (nearest to the mathematical value)
    return math.nan


def to_str(v):
    if isinstance(v, str):
        return v
    if isinstance(v, bool):
        return 'true' if v else 'false'
    if isinstance(v, float):
        return num_to_str(v)
    if isinstance(v, NodeSet):
        return v[0].string_value() if v else ''
    raise XPathError('to_str of %r' % (v,))


def to_num(v):
    if isinstance(v, bool):
        return 1.0 if v else 0.0
    if isinstance(v, float):
        return v
    if isinstance(v, str):
        return str_to_num(v)
    if isinstance(v, NodeSet):
        return str_to_num(to_str(v))
    raise XPathError('to_num of %r' % (v,))


def to_bool(v):
    if isinstance(v, bool):
        return v
    if isinstance(v, float):
        return not (v == 0 or v != v)
    if isinstance(v, str):
        return len(v) > 0
    if isinstance(v, NodeSet):
        return len(v) > 0
    raise XPathError('to_bool of %r' % (v,))


def type_of(v):
    if isinstance(v, bool):
        return 'b'
    if isinstance(v, float):
        return 'n'
    if isinstance(v, str):
        return 's'
    if isinstance(v, NodeSet):
        return 'ns'
    return '?'


# ---------------------------------------------------------------------------------------------
# axes

def doc_sorted(nodes):
    seen = set()
    out = []
    for n in nodes:
        if id(n) not in seen:
            seen.add(id(n))
            out.append(n)
    out.sort(key=lambda n: (n.doc.seq, n.order))
    return NodeSet(out)


def axis_nodes(node, axis):
    """Nodes on the axis in AXIS order (reverse axes: nearest first)."""
    k = node.kind
    if axis == 'child':
        return list(node.children) if k in (R.ROOT, R.ELEM) else []
    if axis == 'descendant':
        return list(node.descendants()) if k in (R.ROOT, R.ELEM) else []
    if axis == 'descendant-or-self':
        return [node] + (list(node.descendants()) if k in (R.ROOT, R.ELEM) else [])
    if axis == 'parent':
        return [node.parent] if node.parent is not None else []
    if axis == 'ancestor':
        return list(node.ancestors())
    if axis == 'ancestor-or-self':
        return [node] + list(node.ancestors())
    if axis == 'self':
        return [node]
    if axis == 'attribute':
        return list(node.attrs) if k == R.ELEM else []
    if axis == 'namespace':
        return node.doc.ns_nodes_for(node) if k == R.ELEM else []
    if axis == 'following-sibling':
        if k in (R.ATTR, R.NS) or node.parent is None:
            return []
        sib = node.parent.children
        i = next(j for j, c in enumerate(sib) if c is node)
        return sib[i + 1:]
    if axis == 'preceding-sibling':
        if k in (R.ATTR, R.NS) or node.parent is None:
            return []
        sib = node.parent.children
        i = next(j for j, c in enumerate(sib) if c is node)
        return sib[:i][::-1]
    if axis == 'following':
        out = []
        if k in (R.ATTR, R.NS):
            # everything after the owner's start tag attributes: the owner's descendants, then what follows the owner
            out.extend(node.parent.descendants())
            n = node.parent
        else:
            n = node
        while n is not None and n.parent is not None:
            sib = n.parent.children
            i = next(j for j, c in enumerate(sib) if c is n)
            for s in sib[i + 1:]:
                out.append(s)
                out.extend(s.descendants())
            n = n.parent
        out.sort(key=lambda x: x.order)
        return out
    if axis == 'preceding':
        anc = set(id(a) for a in node.ancestors())
        start = node.order
        out = [n for n in node.doc.nodes if n.order < start and n.kind not in (R.ATTR, R.NS) and id(n) not in anc]
        out.sort(key=lambda x: -x.order)
        return out
    raise XPathError('axis ' + axis)


def test_node(n, axis, test, ctx):
    principal = R.ATTR if axis == 'attribute' else (R.NS if axis == 'namespace' else R.ELEM)
    k = test[0]
    if k == 'type':
        t = test[1]
        if t == 'node':
            return True
        return n.kind == {'text': R.TEXT, 'comment': R.COMMENT, 'pi': R.PI}[t]
    if k == 'pi':
        return n.kind == R.PI and n.local == test[1]
    if n.kind != principal:
        return False
    if k == 'wild':
        return True
    if k == 'nswild':
        uri = ctx.ns.get(test[1])
        if uri is None:
            raise XPathError('unbound prefix ' + test[1])
        return n.kind != R.NS and (n.uri or '') == uri
    if k == 'name':
        if n.kind == R.NS:
            return test[1] is None and n.prefix == test[2]
        uri = ''
        if test[1]:
            uri = ctx.ns.get(test[1])
            if uri is None:
                raise XPathError('unbound prefix ' + test[1])
        return n.local == test[2] and (n.uri or '') == uri
    raise XPathError('test')


def apply_preds(nodes, preds, ctx):
    """nodes are in axis order (position 1 first)."""
    for p in preds:
        size = len(nodes)
        keep = []
        for i, n in enumerate(nodes):
            v = evaluate(p, ctx.at(n, i + 1, size))
            if isinstance(v, float):
                ok = (v == i + 1)
            else:
                ok = to_bool(v)
            if ok:
                keep.append(n)
        nodes = keep
    return nodes


def eval_steps(start_nodes, steps, ctx):
    cur = start_nodes
    for s in steps:
        _, axis, test, preds = s
        nxt = []
        for n in cur:
            cand = [c for c in axis_nodes(n, axis) if test_node(c, axis, test, ctx)]
            nxt.extend(apply_preds(cand, preds, ctx))
        cur = doc_sorted(nxt)
    return doc_sorted(cur)


# ---------------------------------------------------------------------------------------------
# comparison (XPath 3.4)

def _cmp_atoms(op, a, b):
    if op == '=':
        return a == b
    if op == '!=':
        return a != b
    if op == '<':
        return a < b
    if op == '<=':
        return a <= b
    if op == '>':
        return a > b
    return a >= b


def compare(op, l, r):
    ln, rn = isinstance(l, NodeSet), isinstance(r, NodeSet)
    eq = op in ('=', '!=')
    if ln and rn:
        if eq:
            ls = [x.string_value() for x in l]
            rs = [x.string_value() for x in r]
            return any(_cmp_atoms(op, a, b) for a in ls for b in rs)
        lv = [str_to_num(x.string_value()) for x in l]
        rv = [str_to_num(x.string_value()) for x in r]
        return any(_cmp_atoms(op, a, b) for a in lv for b in rv)
    if ln or rn:
        ns, other = (l, r) if ln else (r, l)
        if isinstance(other, bool):
            a, b = (to_bool(ns), other) if ln else (other, to_bool(ns))
            if eq:
                return _cmp_atoms(op, a, b)
            return _cmp_atoms(op, to_num(a), to_num(b))
        if isinstance(other, float) or not eq:
            o = to_num(other)
            for x in ns:
                v = str_to_num(x.string_value())
                if _cmp_atoms(op, v, o) if ln else _cmp_atoms(op, o, v):
                    return True
            return False
        # string with = / !=
        for x in ns:
            v = x.string_value()
            if _cmp_atoms(op, v, other) if ln else _cmp_atoms(op, other, v):
                return True
        return False
    if eq:
        if isinstance(l, bool) or isinstance(r, bool):
            return _cmp_atoms(op, to_bool(l), to_bool(r))
        if isinstance(l, float) or isinstance(r, float):
            return _cmp_atoms(op, to_num(l), to_num(r))
        return _cmp_atoms(op, to_str(l), to_str(r))
    return _cmp_atoms(op, to_num(l), to_num(r))


def arith(op, a, b):
    if op == '+':
        return a + b
    if op == '-':
        return a - b
    if op == '*':
        return a * b
    if op == 'div':
        if b == 0:
            if a != a or a == 0:
                return math.nan
            neg = (math.copysign(1, a) < 0) != (math.copysign(1, b) < 0)
            return -math.inf if neg else math.inf
        return a / b
    if op == 'mod':
        if a != a or b != b or b == 0 or math.isinf(a):
            return math.nan
        return math.fmod(a, b)
    raise XPathError(op)


def xround(x):
    if x != x or math.isinf(x) or x == 0:
        return x
    if abs(x) >= 4503599627370496.0:
        return x
    f = math.floor(x)
    r = f + 1 if x - f >= 0.5 else f
    r = float(r)
    if r == 0 and x < 0:
        return -0.0
    return r


WS = ' \t\r\n'


def substring(s, start, length=None):
    # positions are 1-based; characters p with round(start) <= p < round(start) + round(length)
    a = xround(start)
    if a != a:
        return ''
    if length is None:
        return ''.join(c for i, c in enumerate(s, 1) if i >= a)
    l = xround(length)
    if l != l:
        return ''
    end = a + l      # may be inf / nan (inf + -inf)
    if end != end:
        return ''
    return ''.join(c for i, c in enumerate(s, 1) if i >= a and i < end)


def first_node(args, ctx, fname):
    if not args:
        return ctx.node
    v = evaluate(args[0], ctx)
    if not isinstance(v, NodeSet):
        raise XPathError(fname + ' needs a node-set')
    return v[0] if v else None


def call(name, args, ctx):
    ev = lambda i: evaluate(args[i], ctx)
    n = len(args)

    def need(lo, hi=None):
        hi = lo if hi is None else hi
        if n < lo or (hi >= 0 and n > hi):
            raise XPathError('arity of ' + name)

    if name == 'last':
        need(0)
        return float(ctx.size)
    if name == 'position':
        need(0)
        return float(ctx.pos)
    if name == 'count':
        need(1)
        v = ev(0)
        if not isinstance(v, NodeSet):
            raise XPathError('count needs node-set')
        return float(len(v))
    if name == 'id':
        need(1)
        v = ev(0)
        toks = []
        if isinstance(v, NodeSet):
            for x in v:
                toks.extend(x.string_value().split())
        else:
            toks = to_str(v).split()
        doc = ctx.node.doc
        out = []
        taken = {}
        for e in doc.nodes:
            if e.kind == R.ELEM:
                for a in e.attrs:
                    if (e.qname, a.qname) in doc.id_attrs and a.value not in taken:
                        taken[a.value] = e       # first element with that ID wins
        for t in toks:
            if t in taken:
                out.append(taken[t])
        return doc_sorted(out)
    if name in ('local-name', 'namespace-uri', 'name'):
        need(0, 1)
        x = first_node(args, ctx, name)
        if x is None:
            return ''
        if name == 'local-name':
            return x.local if x.kind in (R.ELEM, R.ATTR, R.PI, R.NS) else ''
        if name == 'namespace-uri':
            return (x.uri or '') if x.kind in (R.ELEM, R.ATTR) else ''
        return x.qname if x.kind in (R.ELEM, R.ATTR, R.PI, R.NS) else ''
    if name == 'string':
        need(0, 1)
        return to_str(ev(0)) if n else ctx.node.string_value()
    if name == 'concat':
        need(2, -1)
        return ''.join(to_str(ev(i)) for i in range(n))
    if name == 'starts-with':
        need(2)
        return to_str(ev(0)).startswith(to_str(ev(1)))
    if name == 'contains':
        need(2)
        return to_str(ev(1)) in to_str(ev(0))
    if name == 'substring-before':
        need(2)
        a, b = to_str(ev(0)), to_str(ev(1))
        i = a.find(b)
        return a[:i] if i >= 0 else ''
    if name == 'substring-after':
        need(2)
        a, b = to_str(ev(0)), to_str(ev(1))
        i = a.find(b)
        return a[i + len(b):] if i >= 0 else ''
    if name == 'substring':
        need(2, 3)
        return substring(to_str(ev(0)), to_num(ev(1)), to_num(ev(2)) if n == 3 else None)
    if name == 'string-length':
        need(0, 1)
        return float(len(to_str(ev(0)) if n else ctx.node.string_value()))
    if name == 'normalize-space':
        need(0, 1)
        s = to_str(ev(0)) if n else ctx.node.string_value()
        return ' '.join(x for x in re.split('[ \t\r\n]+', s) if x)
    if name == 'translate':
        need(3)
        s, a, b = to_str(ev(0)), to_str(ev(1)), to_str(ev(2))
        m = {}
        for i, c in enumerate(a):
            if c not in m:
                m[c] = b[i] if i < len(b) else None
        return ''.join((m[c] if m[c] is not None else '') if c in m else c for c in s)
    if name == 'boolean':
        need(1)
        return to_bool(ev(0))
    if name == 'not':
        need(1)
        return not to_bool(ev(0))
    if name == 'true':
        need(0)
        return True
    if name == 'false':
        need(0)
        return False
    if name == 'lang':
        need(1)
        want = to_str(ev(0)).lower()
        x = ctx.node
        if x.kind != R.ELEM:
            x = x.parent
        while x is not None and x.kind == R.ELEM:
            for a in x.attrs:
                if a.prefix == 'xml' and a.local == 'lang':
                    have = a.value.lower()
                    return have == want or have.startswith(want + '-')
            x = x.parent
        return False
    if name == 'number':
        need(0, 1)
        return to_num(ev(0)) if n else str_to_num(ctx.node.string_value())
    if name == 'sum':
        need(1)
        v = ev(0)
        if not isinstance(v, NodeSet):
            raise XPathError('sum needs node-set')
        t = 0.0
        for x in v:
            t += str_to_num(x.string_value())
        return t
    if name == 'floor':
        need(1)
        x = to_num(ev(0))
        return x if (x != x or math.isinf(x)) else (float(math.floor(x)) if x != 0 else x)
    if name == 'ceiling':
        need(1)
        x = to_num(ev(0))
        if x != x or math.isinf(x) or x == 0:
            return x
        c = float(math.ceil(x))
        return -0.0 if (c == 0 and x < 0) else c
    if name == 'round':
        need(1)
        return xround(to_num(ev(0)))
    if name == 'current':
        need(0)
        return NodeSet([ctx.current])
    if name == 'key':
        need(2)
        if ctx.keys is None:
            raise XPathError('no keys')
        return ctx.keys(to_str(ev(0)), ev(1), ctx)
    if ':' in name and name.split(':')[0] in ('set', 'math', 'str', 'exsl', 'dyn', 'xalan'):
        r = call_extension(name, args, ctx, ev, need)
        if r is not NotImplemented:
            return r
    if name == 'xalan:nodeset':
        need(1)
        v = ev(0)
        if not isinstance(v, NodeSet):
            raise XPathError('nodeset() of a non-node-set')
        return v
    if name == 'generate-id' or name == 'document':
        raise XPathError('unsupported in reference: ' + name)
    raise XPathError('unknown function ' + name)


def _ns_arg(v, fname):
    if not isinstance(v, NodeSet):
        raise XPathError(fname + ' needs a node-set')
    return v


def call_extension(name, args, ctx, ev, need):
    """EXSLT (sets, math, strings, common, dynamic) and xalan: set functions, per their published definitions"""
    import xpparse
    if name in ('set:difference', 'xalan:difference'):
        need(2)
        a, b_ = _ns_arg(ev(0), name), _ns_arg(ev(1), name)
        ids = set(id(x) for x in b_)
        return NodeSet([x for x in a if id(x) not in ids])
    if name in ('set:intersection', 'xalan:intersection'):
        need(2)
        a, b_ = _ns_arg(ev(0), name), _ns_arg(ev(1), name)
        ids = set(id(x) for x in b_)
        return NodeSet([x for x in a if id(x) in ids])
    if name in ('set:distinct', 'xalan:distinct'):
        need(1)
        seen = set()
        out = []
        for x in _ns_arg(ev(0), name):
            sv = x.string_value()
            if sv not in seen:
                seen.add(sv)
                out.append(x)
        return NodeSet(out)
    if name == 'set:has-same-node':
        need(2)
        a, b_ = _ns_arg(ev(0), name), _ns_arg(ev(1), name)
        ids = set(id(x) for x in b_)
        return any(id(x) in ids for x in a)
    if name == 'xalan:hasSameNodes':
        need(2)
        a, b_ = _ns_arg(ev(0), name), _ns_arg(ev(1), name)
        return set(id(x) for x in a) == set(id(x) for x in b_)
    if name in ('set:leading', 'set:trailing'):
        need(2)
        a, b_ = _ns_arg(ev(0), name), _ns_arg(ev(1), name)
        if not b_:
            return NodeSet(list(a))
        first = b_[0]
        if not any(x is first for x in a):
            return NodeSet([])
        if name == 'set:leading':
            return NodeSet([x for x in a if (x.doc.seq, x.order) < (first.doc.seq, first.order)])
        return NodeSet([x for x in a if (x.doc.seq, x.order) > (first.doc.seq, first.order)])
    if name in ('math:min', 'math:max', 'math:highest', 'math:lowest'):
        need(1)
        a = _ns_arg(ev(0), name)
        vals = [str_to_num(x.string_value()) for x in a]
        bad = (not vals) or any(v != v for v in vals)
        if name in ('math:min', 'math:max'):
            if bad:
                return math.nan
            return min(vals) if name == 'math:min' else max(vals)
        if bad:
            return NodeSet([])
        m = max(vals) if name == 'math:highest' else min(vals)
        return NodeSet([x for x, v in zip(a, vals) if v == m])
    if name == 'math:abs':
        need(1)
        return abs(to_num(ev(0)))
    if name == 'math:sqrt':
        need(1)
        v = to_num(ev(0))
        return math.sqrt(v) if v >= 0 else math.nan
    if name == 'str:concat':
        need(1)
        return ''.join(x.string_value() for x in _ns_arg(ev(0), name))
    if name == 'str:padding':
        need(1, 2)
        n = xround(to_num(ev(0)))        # EXSLT does not say how a fractional length is made integral; rounding is accepted
        pad = to_str(ev(1)) if len(args) > 1 else ' '
        if n != n or n < 1 or pad == '':
            return ''
        if math.isinf(n) or n > 100000:
            raise XPathError('str:padding length that cannot be a string length')
        n = int(n)
        return (pad * (n // len(pad) + 1))[:n]
    if name == 'exsl:object-type':
        need(1)
        v = ev(0)
        return {'b': 'boolean', 'n': 'number', 's': 'string', 'ns': 'node-set'}[type_of(v)]
    if name in ('dyn:evaluate', 'xalan:evaluate'):
        need(1)
        text = to_str(ev(0))
        try:
            ast = xpparse.parse_tokens(text.split())
        except xpparse.Reject:
            if name == 'dyn:evaluate':
                return NodeSet([])         # EXSLT: an invalid expression gives an empty node-set
            raise XPathError('invalid expression in xalan:evaluate')
        return evaluate(ast, ctx)
    return NotImplemented


def evaluate(e, ctx):
    k = e[0]
    if k == 'num':
        return e[1]
    if k == 'str':
        return e[1]
    if k == 'var':
        if e[1] not in ctx.vars:
            raise XPathError('unbound variable ' + e[1])
        return ctx.vars[e[1]]
    if k == 'group':
        return evaluate(e[1], ctx)
    if k == 'neg':
        return -to_num(evaluate(e[1], ctx))
    if k == 'fn':
        return call(e[1], e[2], ctx)
    if k == 'bin':
        op = e[1]
        if op == 'or':
            return to_bool(evaluate(e[2], ctx)) or to_bool(evaluate(e[3], ctx))
        if op == 'and':
            return to_bool(evaluate(e[2], ctx)) and to_bool(evaluate(e[3], ctx))
        l = evaluate(e[2], ctx)
        r = evaluate(e[3], ctx)
        if op == '|':
            if not isinstance(l, NodeSet) or not isinstance(r, NodeSet):
                raise XPathError('union of non-node-sets')
            return doc_sorted(list(l) + list(r))
        if op in ('=', '!=', '<', '<=', '>', '>='):
            return compare(op, l, r)
        return arith(op, to_num(l), to_num(r))
    if k == 'filter':
        v = evaluate(e[1], ctx)
        if not isinstance(v, NodeSet):
            raise XPathError('predicate on non-node-set')
        return doc_sorted(apply_preds(list(v), e[2], ctx))
    if k == 'path':
        start, steps = e[1], e[2]
        if start is None:
            s = [ctx.node]
        elif start == 'root':
            s = [ctx.node.root()]
        else:
            v = evaluate(start, ctx)
            if not isinstance(v, NodeSet):
                raise XPathError('path from non-node-set')
            s = list(v)
        return eval_steps(s, steps, ctx)
    raise XPathError('bad ast %r' % (e,))


# ---------------------------------------------------------------------------------------------
# convenience constructors

def num(x, text=None):
    x = float(x)
    if text is None:
        text = num_to_str(x)
    return ('num', x, text)


def s(v):
    return ('str', v)


def fn(name, *args):
    return ('fn', name, list(args))


def b(op, l, r):
    return ('bin', op, l, r)


def step(axis, test, *preds):
    return ('step', axis, test, list(preds))


def path(*steps, **kw):
    return ('path', kw.get('start'), list(steps))


def name(local, prefix=None):
    return ('name', prefix, local)


NODE = ('type', 'node')
TEXTT = ('type', 'text')
COMMENTT = ('type', 'comment')
PIT = ('type', 'pi')
WILD = ('wild',)
DOS = ('step', 'descendant-or-self', NODE, [])
