"""Shared machinery for /verif checks: driver workers, sharding, evidence, known findings, verdicts."""
import os, sys, json, re, time, subprocess, hashlib, signal, multiprocessing, traceback

ROOT = os.path.dirname(os.path.dirname(os.path.abspath(__file__)))
BUILD = os.path.join(ROOT, 'build')
HBIN = os.path.join(BUILD, 'harness')
NPROC = int(os.environ.get('VERIF_JOBS', '16'))

ASAN_ENV = {
    'ASAN_OPTIONS': 'detect_leaks=0:abort_on_error=1:allocator_may_return_null=1:detect_stack_use_after_return=0',
    'UBSAN_OPTIONS': 'print_stacktrace=0:halt_on_error=0',
}


def esc(s):
    if isinstance(s, bytes):
        s = s.decode('utf-8', 'surrogateescape')
    return (s.replace('\\', '\\\\').replace('\t', '\\t').replace('\n', '\\n')
             .replace('\r', '\\r').replace('\0', '\\0'))


def unesc(s):
    if '\\' not in s:
        return s
    out = []
    i = 0
    n = len(s)
    while i < n:
        c = s[i]
        if c == '\\' and i + 1 < n:
            d = s[i + 1]
            i += 2
            out.append({'t': '\t', 'n': '\n', 'r': '\r', '0': '\0'}.get(d, d))
        else:
            out.append(c)
            i += 1
    return ''.join(out)


def _fixed_stack():
    """the same native stack for every driver wherever the check runs (recursion depth findings must not depend on the caller's ulimit)"""
    try:
        import resource
        soft, hard = resource.getrlimit(resource.RLIMIT_STACK)
        want = 8 << 20
        if hard != resource.RLIM_INFINITY and hard < want:
            want = hard
        resource.setrlimit(resource.RLIMIT_STACK, (want, hard))
    except Exception:
        pass


class WorkerDied(Exception):
    def __init__(self, rc, stderr_tail):
        Exception.__init__(self, 'driver died rc=%s' % rc)
        self.rc = rc
        self.stderr_tail = stderr_tail


class Worker:
    """A persistent driver process speaking the line protocol. On death raises WorkerDied; caller restarts."""

    def __init__(self, exe, args=(), env=None, stderr_path=None, timeout=60):
        self.exe = exe if os.path.isabs(exe) else os.path.join(HBIN, exe)
        self.args = list(args)
        self.env = dict(os.environ)
        self.env.update(ASAN_ENV)
        if env:
            self.env.update(env)
        self.timeout = timeout
        self.stderr_path = stderr_path or os.path.join(BUILD, 'tmp', 'stderr.%d' % os.getpid())
        os.makedirs(os.path.dirname(self.stderr_path), exist_ok=True)
        self.p = None
        self.on_restart = None      # callback(worker) to reload state (documents) after a restart before a retry
        self.start()

    def start(self):
        self.close()
        self.errf = open(self.stderr_path, 'wb')
        self.p = subprocess.Popen([self.exe] + self.args, stdin=subprocess.PIPE, stdout=subprocess.PIPE,
                                  stderr=self.errf, env=self.env, bufsize=0, preexec_fn=_fixed_stack)
        self.rbuf = b''

    def close(self):
        if self.p is not None:
            try:
                self.p.stdin.close()
            except Exception:
                pass
            try:
                self.p.kill()
            except Exception:
                pass
            try:
                self.p.wait(timeout=5)
            except Exception:
                pass
            try:
                self.p.stdout.close()
            except Exception:
                pass
            self.p = None
            try:
                self.errf.close()
            except Exception:
                pass

    def stderr_tail(self, n=4000):
        try:
            self.errf.flush()
            with open(self.stderr_path, 'rb') as f:
                f.seek(0, 2)
                sz = f.tell()
                f.seek(max(0, sz - n))
                return f.read().decode('utf-8', 'replace')
        except Exception:
            return ''

    def _readline(self):
        import select
        deadline = time.time() + self.timeout
        while b'\n' not in self.rbuf:
            left = deadline - time.time()
            if left <= 0:
                return None
            r, _, _ = select.select([self.p.stdout], [], [], left)
            if not r:
                return None
            chunk = os.read(self.p.stdout.fileno(), 1 << 16)
            if not chunk:
                return b''
            self.rbuf += chunk
        line, self.rbuf = self.rbuf.split(b'\n', 1)
        return line + b'\n'

    def request(self, *fields):
        """Send one request; returns list of unescaped response fields. A request that times out is re-run alone
        in a fresh driver with a 10x limit before it is reported as a hang (a loaded machine is not a verdict)."""
        try:
            return self._request(fields)
        except WorkerDied as wd:
            if wd.rc != 'timeout':
                raise
            saved = self.timeout
            self.timeout = saved * 10
            try:
                if self.on_restart:
                    self.on_restart(self)
                return self._request(fields)
            finally:
                self.timeout = saved

    def _request(self, fields):
        line = '\t'.join(esc(f) for f in fields) + '\n'
        try:
            self.p.stdin.write(line.encode('utf-8', 'surrogateescape'))
            self.p.stdin.flush()
        except (BrokenPipeError, OSError):
            rc = self.p.wait()
            tail = self.stderr_tail()
            self.start()
            raise WorkerDied(rc, tail)
        resp = self._readline()
        if resp is None:
            tail = self.stderr_tail()
            self.start()
            raise WorkerDied('timeout', tail)
        if resp == b'':
            rc = self.p.wait()
            tail = self.stderr_tail()
            self.start()
            raise WorkerDied(rc, tail)
        s = resp[:-1].decode('utf-8', 'surrogateescape')
        return [unesc(x) for x in s.split('\t')]

    def ubsan_reports(self):
        """UBSan runtime errors printed so far by this driver instance (recover mode keeps it alive)."""
        t = self.stderr_tail(1 << 20)
        return [l for l in t.splitlines() if 'runtime error:' in l]


# ---------------------------------------------------------------------------------------------
# sharded execution

def _shard_entry(args):
    fn, shard, nshards, extra = args
    try:
        return fn(shard, nshards, *extra)
    except Exception:
        return {'_exception': traceback.format_exc(), 'shard': shard}


def run_sharded(fn, extra=(), nshards=None):
    """Run fn(shard, nshards, *extra) in nshards processes; returns list of results (dicts)."""
    nshards = nshards or NPROC
    ctx = multiprocessing.get_context('fork')
    with ctx.Pool(nshards) as pool:
        res = pool.map(_shard_entry, [(fn, i, nshards, extra) for i in range(nshards)], chunksize=1)
    for r in res:
        if isinstance(r, dict) and '_exception' in r:
            sys.stderr.write(r['_exception'])
            raise RuntimeError('shard %s failed' % r['shard'])
    return res


def merge_counts(dicts):
    out = {}
    for d in dicts:
        for k, v in d.items():
            out[k] = out.get(k, 0) + v
    return out


# ---------------------------------------------------------------------------------------------
# violations, known findings, evidence

class Violation:
    def __init__(self, signature, detail):
        self.signature = signature      # stable text identifying the (shrunk) failing case
        self.detail = detail            # JSON-able dict: enough to replay


def load_known(prop):
    p = os.path.join(ROOT, 'KNOWN_FINDINGS.json')
    if not os.path.exists(p):
        return []
    with open(p) as f:
        data = json.load(f)
    out = [e for e in data.get('findings', []) if e.get('property') == prop and e.get('status') == 'open']
    for e in out:
        # an entry may list the exact failing inputs (one signature per line) in a committed file
        if 'signature_file' in e and '_signature_set' not in e:
            try:
                with open(os.path.join(ROOT, e['signature_file'])) as f:
                    e['_signature_set'] = set(l.rstrip('\n') for l in f if l.strip())
            except Exception:
                e['_signature_set'] = set()
    return out


def sample3(seq):
    seq = list(seq)
    if len(seq) <= 3:
        return seq
    return [seq[0], seq[len(seq) // 2], seq[-1]]


def finish(prop, tier, level, coverage, violations, t0, assumptions=(), max_report=25):
    """Classify violations against KNOWN_FINDINGS.json, write evidence + replay files, print verdict lines, exit."""
    known = load_known(prop)
    matched = {}
    new = {}
    known_examples = {}
    dump = os.environ.get('VERIF_DUMP_SIGNATURES')      # maintenance aid: every violation signature of this run, one per line
    if dump:
        with open(dump, 'w') as f:
            f.write(''.join(v.signature.replace('\n', ' ') + '\n' for v in violations))
    for v in violations:
        hit = None
        for e in known:
            if 'signature' in e and e['signature'] == v.signature:
                hit = e
                break
            if 'signature_regex' in e and re.search(e['signature_regex'], v.signature, re.S):
                if '_signature_set' in e and v.signature not in e['_signature_set']:
                    continue
                hit = e
                break
            if 'signature_regex' not in e and '_signature_set' in e and v.signature in e['_signature_set']:
                hit = e
                break
        if hit is not None:
            matched.setdefault(hit['id'], [hit, 0, v.signature])
            matched[hit['id']][1] += 1
            known_examples.setdefault(hit['id'], []).append({'signature': v.signature, 'detail': v.detail})
        else:
            new.setdefault(v.signature, v)
    for kid, (e, n, sig) in sorted(matched.items()):
        print('KNOWN-FINDING: property=%s %s [%s, %d case(s) this run, e.g. %s]' % (prop, e['what_fails'], kid, n, sig[:160]))
    try:
        os.makedirs(os.path.join(BUILD, 'tmp'), exist_ok=True)
        with open(os.path.join(BUILD, 'tmp', prop + '.violations.json'), 'w') as f:
            json.dump([{'signature': v.signature, 'detail': v.detail} for v in new.values()], f, indent=1, default=str)
        with open(os.path.join(BUILD, 'tmp', prop + '.known.json'), 'w') as f:
            json.dump({k: x[:5] for k, x in known_examples.items()}, f, indent=1, default=str)
    except Exception:
        pass
    rdir = os.path.join(ROOT, 'replay', prop)
    nrep = 0
    for sig, v in new.items():
        if nrep >= max_report:
            break
        os.makedirs(rdir, exist_ok=True)
        h = hashlib.sha1(sig.encode('utf-8', 'replace')).hexdigest()[:12]
        path = os.path.join(rdir, h + '.json')
        with open(path, 'w') as f:
            json.dump({'property': prop, 'signature': sig, 'detail': v.detail}, f, indent=1, default=str)
        print('VIOLATION property=%s replay=%s' % (prop, path))
        sys.stderr.write('  signature: %s\n' % sig[:400])
        nrep += 1
    coverage = dict(coverage)
    coverage['known_findings'] = {k: n for k, (e, n, s) in matched.items()}
    coverage['new_violation_signatures'] = len(new)
    ev = {
        'property_id': prop, 'tier': tier, 'seed': int(os.environ.get('VERIF_SEED', '0') or 0),
        'level': level, 'coverage': coverage, 'assumptions': list(assumptions),
        'wall_s': round(time.time() - t0, 2), 'violations': len(new),
    }
    check_evidence(ev)
    os.makedirs(os.path.join(ROOT, 'evidence'), exist_ok=True)
    with open(os.path.join(ROOT, 'evidence', prop + '.json'), 'w') as f:
        json.dump(ev, f, indent=1, default=str)
    print('%s %s: %s, wall %.1fs, new violations %d, known findings %d' % (
        prop, tier, {k: v for k, v in coverage.items() if isinstance(v, (int, float, bool))},
        ev['wall_s'], len(new), len(matched)))
    sys.stdout.flush()
    sys.exit(1 if new else 0)


def check_evidence(ev):
    """Minimal self-check mirroring EVIDENCE.schema.json's per-level requirements."""
    c = ev['coverage']
    lvl = ev['level']
    if lvl in ('exploration', 'fault_enumeration'):
        assert c['evaluations'] >= 1 and c['distinct_nontrivial'] >= 2 and c['rule'] and len(c['samples']) >= 1, c
    elif lvl == 'model_checking':
        assert c['states'] >= 1 and c['transitions'] >= 1 and c['traces_validated_against_impl'] >= 0 and len(c['samples']) >= 1, c
    else:
        raise AssertionError('unexpected level ' + lvl)


def tier_from_argv():
    tier = os.environ.get('VERIF_TIER', 'quick')
    a = sys.argv[1:]
    replay = None
    i = 0
    while i < len(a):
        if a[i] == '--tier':
            tier = a[i + 1]
            i += 2
        elif a[i] == '--replay':
            replay = a[i + 1]
            i += 2
        else:
            i += 1
    return tier, replay


# ---------------------------------------------------------------------------------------------
# C++ harnesses that enumerate by themselves (harness/isolate.hpp protocol)

def _cpp_shard(shard, nshards, exe, args, env, timeout):
    e = dict(os.environ)
    e.update(ASAN_ENV)
    e['ASAN_OPTIONS'] += ':symbolize=0'
    if env:
        e.update(env)
    path = exe if os.path.isabs(exe) else os.path.join(HBIN, exe)
    errp = os.path.join(BUILD, 'tmp', '%s.%d.err' % (os.path.basename(exe), shard))
    os.makedirs(os.path.dirname(errp), exist_ok=True)
    with open(errp, 'wb') as ef:
        try:
            p = subprocess.run([path] + [str(a) for a in args] + [str(shard), str(nshards)], stdout=subprocess.PIPE,
                               stderr=ef, env=e, timeout=timeout)
            rc, out = p.returncode, p.stdout
        except subprocess.TimeoutExpired as te:
            rc, out = 'timeout', te.stdout or b''
    counts, viols, samples = {}, [], []
    for line in out.decode('utf-8', 'replace').splitlines():
        f = line.split('\t')
        if f[0] == 'count' and len(f) >= 3:
            counts[f[1]] = counts.get(f[1], 0) + int(f[2])
        elif f[0] == 'viol' and len(f) >= 3:
            viols.append((unesc(f[1]), unesc(f[2])))
        elif f[0] == 'sample' and len(f) >= 2:
            samples.append(unesc(f[1]))
    return {'rc': rc, 'counts': counts, 'viols': viols, 'samples': samples, 'stderr': errp}


def run_cpp_sharded(exe, args=(), env=None, timeout=3600, nshards=None):
    """Runs `exe args... <shard> <nshards>` for every shard; merges the isolate.hpp protocol output."""
    res = run_sharded(_cpp_shard, (exe, list(args), env, timeout), nshards)
    counts = merge_counts([r['counts'] for r in res])
    viols, samples, bad = [], [], []
    for r in res:
        viols += [Violation(s, {'case': d}) for s, d in r['viols']]
        samples += r['samples']
        if r['rc'] != 0:
            bad.append(r)
    for r in bad:
        # the harness process itself (not an isolated child) ended abnormally: that is a verdict too
        tail = ''
        try:
            tail = open(r['stderr'], 'rb').read()[-1500:].decode('utf-8', 'replace')
        except Exception:
            pass
        viols.append(Violation('harness|abnormal-exit|%s' % r['rc'], {'stderr_tail': tail}))
    return counts, viols, samples
