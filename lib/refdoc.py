"""RefDoc: the plain reference tree shared by all reference models, its XML rendering, enumerators and
an expat-based parser (used to read Xalan's output back into a RefDoc)."""
import itertools
import xml.parsers.expat

XML_NS = 'http://www.w3.org/XML/1998/namespace'

ROOT, ELEM, ATTR, NS, TEXT, COMMENT, PI = 'root', 'elem', 'attr', 'ns', 'text', 'comment', 'pi'


class Node:
    __slots__ = ('kind', 'parent', 'children', 'attrs', 'nsdecls', 'prefix', 'local', 'uri', 'value',
                 'order', 'doc', '_ns', '_sv', 'nsnodes')

    def __init__(self, kind, prefix=None, local=None, uri=None, value=None):
        self.kind = kind
        self.parent = None
        self.children = []
        self.attrs = []          # ATTR nodes (elements only)
        self.nsdecls = []        # list of (prefix or '', uri) declared on this element, in source order
        self.prefix = prefix     # elements/attributes: prefix or None; NS nodes: the prefix ('' default); PI: None
        self.local = local       # local name / PI target
        self.uri = uri           # namespace URI ('' = none)
        self.value = value       # attr value, text, comment, PI data, NS node: the URI
        self.order = -1
        self.doc = None
        self._ns = None
        self._sv = None
        self.nsnodes = None

    # ---- construction helpers
    def add(self, child):
        child.parent = self
        self.children.append(child)
        return child

    def add_attr(self, a):
        a.parent = self
        self.attrs.append(a)
        return a

    @property
    def qname(self):
        if self.kind in (ELEM, ATTR):
            return (self.prefix + ':' + self.local) if self.prefix else self.local
        if self.kind == PI:
            return self.local
        if self.kind == NS:
            return self.prefix
        return ''

    def in_scope(self):
        """dict prefix('' = default) -> uri of namespaces in scope on this element (xml prefix included)."""
        if self._ns is not None:
            return self._ns
        if self.kind != ELEM:
            return {}
        base = dict(self.parent.in_scope()) if self.parent is not None and self.parent.kind == ELEM else {'xml': XML_NS}
        for p, u in self.nsdecls:
            if u == '' and p == '':
                base.pop('', None)
            else:
                base[p] = u
        self._ns = base
        return base

    def string_value(self):
        if self.kind in (ATTR, TEXT, COMMENT, PI, NS):
            return self.value
        if self._sv is None:
            out = []
            stack = [self]
            while stack:
                n = stack.pop()
                if n.kind == TEXT:
                    out.append(n.value)
                elif n.kind in (ELEM, ROOT):
                    stack.extend(reversed(n.children))
            self._sv = ''.join(out)
        return self._sv

    def ancestors(self):
        n = self.parent
        while n is not None:
            yield n
            n = n.parent

    def descendants(self):
        for c in self.children:
            yield c
            if c.children:
                for d in c.descendants():
                    yield d

    def root(self):
        n = self
        while n.parent is not None:
            n = n.parent
        return n


class Doc:
    """A document: .root (ROOT node), id_attrs: set of (element qname, attribute qname) declared ID in the DTD."""

    _seq = [0]

    def __init__(self, root, id_attrs=(), name=''):
        Doc._seq[0] += 1
        self.seq = Doc._seq[0]
        self.root = root
        self.id_attrs = set(id_attrs)
        self.name = name
        self.finalize()

    def finalize(self):
        """Assign document order and paths. Order: element, its namespace nodes, its attributes, its children.
        Namespace nodes are identified with their declarations (Xalan's model): the NS node for prefix p on element E
        is the declaration node on the nearest ancestor-or-self declaring p; 'xml' is declared on the document element."""
        self.nodes = []
        self.by_path = {}
        counter = [0]
        docel = [c for c in self.root.children if c.kind == ELEM]
        self.docel = docel[0] if docel else None

        def visit(n, path):
            n.order = counter[0]
            counter[0] += 1
            n.doc = self
            n._ns = None
            n._sv = None
            self.nodes.append(n)
            self.by_path[path or '/'] = n
            n_path = path
            if n.kind == ELEM:
                n.nsnodes = []
                decls = list(n.nsdecls)
                if n is self.docel:
                    decls = [('xml', XML_NS)] + decls     # Xalan's source tree puts xmlns:xml first on the document element
                for p, u in decls:
                    ns = Node(NS, prefix=p, local=p, uri='', value=u)
                    ns.parent = n
                    ns.order = counter[0]
                    counter[0] += 1
                    ns.doc = self
                    n.nsnodes.append(ns)
                    self.nodes.append(ns)
                    self.by_path[n_path + '/@xmlns' + (':' + p if p else '')] = ns
                for a in n.attrs:
                    a.order = counter[0]
                    counter[0] += 1
                    a.doc = self
                    self.nodes.append(a)
                    self.by_path[n_path + '/@' + a.qname] = a
            for i, c in enumerate(n.children):
                visit(c, path + '/' + str(i))

        visit(self.root, '')
        self.path_of = {id(n): p for p, n in self.by_path.items()}

    def path(self, n):
        return self.path_of[id(n)]

    def ns_nodes_for(self, elem):
        """Namespace nodes in scope for elem, as declaration-identified NS nodes (see finalize)."""
        out = {}
        chain = [elem] + [a for a in elem.ancestors() if a.kind == ELEM]
        for e in reversed(chain):
            for ns in e.nsnodes:
                if ns.prefix == '' and ns.value == '':
                    out.pop('', None)
                else:
                    out[ns.prefix] = ns
        return sorted(out.values(), key=lambda x: x.order)

    # ---- rendering
    def to_xml(self, decl=False):
        out = []
        if decl:
            out.append('<?xml version="1.0"?>')
        if self.id_attrs and self.docel is not None:
            out.append('<!DOCTYPE %s [' % self.docel.qname)
            for en, an in sorted(self.id_attrs):
                out.append('<!ATTLIST %s %s ID #IMPLIED>' % (en, an))
            out.append(']>')
        for c in self.root.children:
            render(c, out)
        return ''.join(out)


def esc_text(s):
    return s.replace('&', '&amp;').replace('<', '&lt;').replace('>', '&gt;').replace('\r', '&#13;')


def esc_attr(s):
    return (s.replace('&', '&amp;').replace('<', '&lt;').replace('"', '&quot;').replace('\t', '&#9;')
             .replace('\n', '&#10;').replace('\r', '&#13;'))


def render(n, out):
    if n.kind == ELEM:
        out.append('<' + n.qname)
        for p, u in n.nsdecls:
            out.append(' xmlns%s="%s"' % ((':' + p) if p else '', esc_attr(u)))
        for a in n.attrs:
            out.append(' %s="%s"' % (a.qname, esc_attr(a.value)))
        if not n.children:
            out.append('/>')
        else:
            out.append('>')
            for c in n.children:
                render(c, out)
            out.append('</' + n.qname + '>')
    elif n.kind == TEXT:
        out.append(esc_text(n.value))
    elif n.kind == COMMENT:
        out.append('<!--' + n.value + '-->')
    elif n.kind == PI:
        out.append('<?' + n.local + (' ' + n.value if n.value else '') + '?>')


# -------------------------------------------------------------------------------------------------
# small builder DSL:  E('a', {'x':'1'}, [children], ns=[('p','u1')])

def E(qname, attrs=None, children=(), ns=()):
    prefix, local = (qname.split(':', 1) + [None])[:2] if ':' in qname else (None, qname)
    n = Node(ELEM, prefix=prefix, local=local, uri=None)
    n.nsdecls = list(ns)
    for k, v in (attrs or {}).items() if isinstance(attrs, dict) else (attrs or []):
        ap, al = k.split(':', 1) if ':' in k else (None, k)
        n.add_attr(Node(ATTR, prefix=ap, local=al, uri=None, value=v))
    for c in children:
        if isinstance(c, str):
            c = T(c)
        n.add(c)
    return n


def T(s):
    return Node(TEXT, value=s)


def C(s):
    return Node(COMMENT, value=s)


def P(target, data=''):
    return Node(PI, local=target, value=data)


def make_doc(top, id_attrs=(), name=''):
    """top: list of top-level nodes (one element, optional comments/PIs)."""
    r = Node(ROOT)
    for c in (top if isinstance(top, (list, tuple)) else [top]):
        r.add(c)
    d = Doc(r, id_attrs, name)
    resolve_uris(d)
    return d


def resolve_uris(d):
    for n in d.nodes:
        if n.kind == ELEM:
            sc = n.in_scope()
            n.uri = sc.get(n.prefix or '', '') if n.prefix else sc.get('', '')
            for a in n.attrs:
                a.uri = sc.get(a.prefix, '') if a.prefix else ''


# -------------------------------------------------------------------------------------------------
# parsing XML text (e.g. Xalan output) into a RefDoc with expat

def parse_xml(data, name='parsed'):
    """Namespace-aware parse into a Doc. Raises xml.parsers.expat.ExpatError when not well formed."""
    if isinstance(data, str):
        data = data.encode('utf-8', 'surrogatepass')
    p = xml.parsers.expat.ParserCreate(namespace_separator='\x1f')
    p.namespace_prefixes = True
    p.ordered_attributes = True
    p.buffer_text = True
    root = Node(ROOT)
    stack = [root]
    pending_ns = []

    def split(name):
        parts = name.split('\x1f')
        if len(parts) == 1:
            return None, parts[0], ''
        if len(parts) == 2:
            return None, parts[1], parts[0]
        return (parts[2] or None), parts[1], parts[0]

    def start_ns(prefix, uri):
        pending_ns.append((prefix or '', uri or ''))

    def start(name, attrs):
        pr, lo, ur = split(name)
        n = Node(ELEM, prefix=pr, local=lo, uri=ur)
        n.nsdecls = list(pending_ns)
        del pending_ns[:]
        for i in range(0, len(attrs), 2):
            ap, al, au = split(attrs[i])
            n.add_attr(Node(ATTR, prefix=ap, local=al, uri=au, value=attrs[i + 1]))
        stack[-1].add(n)
        stack.append(n)

    def end(name):
        stack.pop()

    def chars(s):
        top = stack[-1]
        if top.children and top.children[-1].kind == TEXT:
            top.children[-1].value += s
        else:
            top.add(Node(TEXT, value=s))

    def comment(s):
        stack[-1].add(Node(COMMENT, value=s))

    def pi(target, data):
        stack[-1].add(Node(PI, local=target, value=data))

    p.StartNamespaceDeclHandler = start_ns
    p.StartElementHandler = start
    p.EndElementHandler = end
    p.CharacterDataHandler = chars
    p.CommentHandler = comment
    p.ProcessingInstructionHandler = pi
    p.Parse(data, True)
    # top-level character data (whitespace) is not part of the tree
    root.children = [c for c in root.children if c.kind != TEXT]
    return Doc(root, (), name)


# -------------------------------------------------------------------------------------------------
# canonical structural form for comparing result trees

def canon(n, with_ns=False):
    """Nested tuples; attributes as a sorted set of (uri, local, value); adjacent text already merged."""
    if n.kind == ROOT:
        return ('root', tuple(canon(c, with_ns) for c in n.children))
    if n.kind == ELEM:
        attrs = tuple(sorted((a.uri or '', a.local, a.value) for a in n.attrs))
        kids = []
        for c in n.children:
            cc = canon(c, with_ns)
            if cc[0] == 'text' and kids and kids[-1][0] == 'text':
                kids[-1] = ('text', kids[-1][1] + cc[1])
            elif cc[0] == 'text' and cc[1] == '':
                continue
            else:
                kids.append(cc)
        if with_ns:
            ns = tuple(sorted((p, u) for p, u in n.in_scope().items() if p != 'xml'))
            return ('elem', n.uri or '', n.local, attrs, ns, tuple(kids))
        return ('elem', n.uri or '', n.local, attrs, tuple(kids))
    if n.kind == TEXT:
        return ('text', n.value)
    if n.kind == COMMENT:
        return ('comment', n.value)
    if n.kind == PI:
        return ('pi', n.local, n.value)
    raise ValueError(n.kind)


# -------------------------------------------------------------------------------------------------
# enumerators

def tree_shapes(n):
    """All ordered forests with exactly n nodes, as nested tuples."""
    if n == 0:
        yield ()
        return
    for k in range(1, n + 1):            # size of first tree
        for sub in tree_shapes(k - 1):   # its children forest
            for rest in tree_shapes(n - k):
                yield (sub,) + rest


def element_trees(max_elems, names=('a', 'b')):
    """Every ordered tree with 1..max_elems elements below a fixed root 'r', names from `names` (all labelings)."""
    for n in range(0, max_elems + 1):
        for forest in tree_shapes(n):
            slots = count_nodes(forest)
            for labels in itertools.product(names, repeat=slots):
                it = iter(labels)
                yield E('r', None, [build_forest_node(t, it) for t in forest])


def count_nodes(forest):
    return sum(1 + count_nodes(t) for t in forest)


def build_forest_node(t, it):
    name = next(it)
    return E(name, None, [build_forest_node(c, it) for c in t])
