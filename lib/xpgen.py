"""Documents and XPath AST enumerators shared by C02, C09, C11, C12."""
import math
import refdoc as R
import refxpath as X
from refxpath import num, s, fn, b, step, path, name, NODE, TEXTT, COMMENTT, PIT, WILD, DOS

NSMAP = {'p': 'u1', 'q': 'u2', 'set': 'http://exslt.org/sets', 'math': 'http://exslt.org/math', 'str': 'http://exslt.org/strings',
         'exsl': 'http://exslt.org/common', 'dyn': 'http://exslt.org/dynamic', 'xalan': 'http://xml.apache.org/xalan'}


def docs():
    """The fixed document set. Every node kind, same local name in two namespaces, nested same-name elements,
    siblings with equal names, attributes, xml:lang, an ID-typed DTD document."""
    out = []
    E, T, C, P = R.E, R.T, R.C, R.P
    out.append(R.make_doc([
        C('c0'), P('p0', 'd'),
        E('r', [('x', '1')], [
            E('a', [('x', '2'), ('y', 't')], ['t', E('b', None, ['1']), C('c1'), P('t', 'd'), 'u']),
            E('p:a', [('p:x', '3')], [E('b'), E('a', None, ['2'])]),
            E('b', [('xml:lang', 'en-US')], ['3', E('a')]),
            ' ',
        ], ns=[('p', 'u1')]),
    ], name='D1'))
    out.append(R.make_doc([
        E('a', [('id', 'i1')], [
            E('a', [('id', 'i2'), ('x', 'i1 i3')], [E('a', [('id', 'i3')]), E('b', [('id', 'i3')], ['i2'])]),
            E('b', [('x', '10')], ['i1']),
            E('a', None, ['2']),
            E('b', None, [' 2 ']),
        ]),
    ], id_attrs=[('a', 'id')], name='D2'))
    out.append(R.make_doc([
        E('r', None, [
            E('a', None, [E('p:b', None, ['x']), E('q:b', None, [], ns=[('q', 'u2')])], ns=[('', 'u1')]),
            E('a', [('q:x', 'v')], [E('b', None, [], ns=[('', '')])], ns=[('q', 'u2'), ('', 'u2')]),
        ], ns=[('p', 'u1')]),
    ], name='D3'))
    out.append(R.make_doc([E('r')], name='D4'))
    out.append(R.make_doc([
        E('r', None, [
            E('a', [('x', '1')], ['1']), E('a', [('x', '3')], ['3']), E('b', None, ['2']), E('a', None, ['x']),
            E('b', [('x', '1')], ['-1']), E('a', [('x', '2')], ['10']),
        ]),
    ], name='D5'))
    return out


# ---------------------------------------------------------------------------------------------
# atoms

def number_atoms():
    inf = b('div', num(1), num(0))
    return [num(0), num(1), num(2), num(3), num(0.5, '0.5'), ('neg', num(1)), inf, ('neg', inf),
            b('div', num(0), num(0)), ('neg', num(0)), num(10), num(1.5, '1.5')]


def string_atoms():
    return [s(''), s('a'), s('b'), s('1'), s(' 2 '), s('1.0'), s('x1'), s('t'), s('true')]


def bool_atoms():
    return [fn('true'), fn('false')]


def nodeset_atoms():
    return [
        path(step('child', name('a'))),                    # a
        path(step('child', name('b'))),                    # b
        path(step('attribute', name('x'))),                # @x
        path(step('child', name('nosuch'))),               # empty
        path(DOS, step('child', name('a')), start='root'),  # //a
        path(step('self', NODE)),                          # .
        path(step('child', WILD)),                         # *
        path(step('child', TEXTT)),                        # text()
        path(DOS, step('attribute', name('x')), start='root'),  # //@x
    ]


def node_tests(full=True):
    t = [WILD, name('a'), name('b'), NODE, TEXTT]
    if full:
        t += [name('a', 'p'), ('nswild', 'p'), COMMENTT, PIT, ('pi', 't')]
    return t


def predicates(full=True):
    pos = fn('position')
    last = fn('last')
    p = [[], [num(1)], [last], [path(step('attribute', name('x')))]]
    if full:
        p += [[num(2)], [b('>', pos, num(1))], [b('=', pos, last)], [path(step('child', name('a')))],
              [b('=', path(step('self', NODE)), s('t'))], [num(2), num(1)], [path(step('attribute', name('x'))), num(1)],
              [b('<', pos, last)], [fn('not', path(step('child', WILD)))], [b('-', last, num(1))],
              # chained predicates whose second one asks position()/last() again for a node the first one asked about
              [b('=', pos, last), b('=', pos, num(1))], [b('>', pos, num(1)), b('=', pos, num(1))], [last, b('=', pos, last)],
              [b('>', pos, num(1)), last], [b('=', pos, last), num(1), b('=', pos, num(1))],
              # number-valued predicates that are neither literals nor mention position()/last(): still compared with the position
              [b('+', num(1), num(1))], [fn('count', path(step('child', WILD)))], [fn('number', path(step('attribute', name('x'))))],
              [fn('string-length', path(step('self', NODE)))], [b('-', fn('count', path(step('parent', NODE), step('child', WILD))), num(1))],
              # a nested path with its own positional predicate (another context node list, in which the same node has another position),
              # then position()/last() of the outer list again
              [path(step('parent', NODE), step('child', NODE, b('>', pos, num(0)))), b('=', pos, num(2))],
              [b('and', path(step('preceding-sibling', NODE, b('=', pos, num(1)))), b('=', pos, last))],
              [b('=', fn('count', path(step('parent', NODE), step('child', WILD, b('<=', pos, num(2))))), pos)]]
    return p


def steps(axes=None, tests=None, preds=None):
    axes = axes or X.AXES
    tests = tests if tests is not None else node_tests()
    preds = preds if preds is not None else predicates()
    for ax in axes:
        for t in tests:
            for p in preds:
                yield step(ax, t, *p)


BIN_OPS = ['or', 'and', '=', '!=', '<', '<=', '>', '>=', '+', '-', '*', 'div', 'mod']


def flat_to_ast(operands, ops):
    """Precedence climbing over a flat operand/operator sequence (XPath 3.7: all binary operators left associative)."""
    pos = [0]

    def parse_rhs(min_prec):
        # operand index equals number of operators consumed so far
        lhs = operands[pos[0]]
        while pos[0] < len(ops) and X.PREC[ops[pos[0]]] >= min_prec:
            op = ops[pos[0]]
            pos[0] += 1
            rhs = parse_rhs(X.PREC[op] + 1)
            lhs = b(op, lhs, rhs)
        return lhs

    return parse_rhs(1)


def flat_text(operand_texts, ops):
    out = [operand_texts[0]]
    for o, t in zip(ops, operand_texts[1:]):
        out.append(' ' + o + ' ')
        out.append(t)
    return ''.join(out)
