// icucoll: independent collation oracle for C16. Reads "lang<TAB>caseFirst<TAB>a<TAB>b" lines, prints -1/0/1 from a direct
// ucol_strcoll call (no Xalan code involved). lang "" = default locale; caseFirst in "", "upper", "lower".
// LDLIBS: -licui18n -licuuc
#include "common.hpp"
#include <unicode/ucol.h>
#include <unicode/ustring.h>
int main()
{
    std::string line;
    while (std::getline(std::cin, line))
    {
        std::vector<std::string> f = vh::splitTabs(line);
        if (f.size() < 4) { std::cout << "?" << std::endl; continue; }
        UErrorCode st = U_ZERO_ERROR;
        UCollator* c = ucol_open(f[0].empty() ? 0 : f[0].c_str(), &st);
        if (U_FAILURE(st) || c == 0) { std::cout << "?" << std::endl; continue; }
        if (f[1] == "upper") ucol_setAttribute(c, UCOL_CASE_FIRST, UCOL_UPPER_FIRST, &st);
        else if (f[1] == "lower") ucol_setAttribute(c, UCOL_CASE_FIRST, UCOL_LOWER_FIRST, &st);
        UChar a[256], b[256];
        int32_t la = 0, lb = 0;
        u_strFromUTF8(a, 256, &la, f[2].data(), (int32_t)f[2].size(), &st);
        u_strFromUTF8(b, 256, &lb, f[3].data(), (int32_t)f[3].size(), &st);
        UCollationResult r = ucol_strcoll(c, a, la, b, lb);
        std::cout << (r == UCOL_LESS ? -1 : (r == UCOL_GREATER ? 1 : 0)) << std::endl;
        ucol_close(c);
    }
    return 0;
}
