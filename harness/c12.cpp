// C12: (a) isNodeAfter over all ordered node pairs of every document representation vs pre-order numbering;
//      (b) explicit-state BFS over insertion histories into MutableNodeRefList over two documents.
// usage: c12 <tier> <shard> <nshards>      (shard 0 does the BFS; pairs are sharded by document)
// CXXFLAGS: -fno-access-control
#include "common.hpp"
#include "isolate.hpp"

#include <set>
#include <deque>
#include <algorithm>

#include <xalanc/XPath/MutableNodeRefList.hpp>
#include <xalanc/XPath/XPathEnvSupportDefault.hpp>
#include <xalanc/XPath/XPathExecutionContextDefault.hpp>
#include <xalanc/XPath/XObjectFactoryDefault.hpp>
#include <xalanc/XalanSourceTree/XalanSourceTreeDOMSupport.hpp>
#include <xalanc/XalanSourceTree/XalanSourceTreeInit.hpp>
#include <xalanc/XalanSourceTree/XalanSourceTreeParserLiaison.hpp>
#include <xalanc/XercesParserLiaison/XercesParserLiaison.hpp>
#include <xalanc/XercesParserLiaison/XercesDOMSupport.hpp>
#include <xalanc/XalanTransformer/XalanTransformer.hpp>

using namespace xalanc;
using namespace vh;

struct Doc
{
    virtual ~Doc() {}
    XalanDocument* doc = 0;
    virtual DOMSupport& support() = 0;
};
struct STDoc : Doc
{
    XalanSourceTreeDOMSupport sup; XalanSourceTreeParserLiaison liaison;
    STDoc() : sup(), liaison(sup) { sup.setParserLiaison(&liaison); }
    DOMSupport& support() { return sup; }
};
struct XWDoc : Doc
{
    XercesParserLiaison liaison; XercesDOMSupport sup;
    XWDoc() : liaison(), sup(liaison) {}
    DOMSupport& support() { return sup; }
};

static Doc* parse(const std::string& kind, const std::string& xml)
{
    xercesc::MemBufInputSource src((const XMLByte*)xml.data(), xml.size(), "file:///vmem/doc.xml", false);
    if (kind == "st") { STDoc* d = new STDoc; d->doc = d->liaison.parseXMLStream(src); return d; }
    XWDoc* d = new XWDoc;
    if (kind == "xm") { d->liaison.setBuildWrapperNodes(false); d->liaison.setBuildMaps(true); }
    else { d->liaison.setBuildWrapperNodes(true); d->liaison.setBuildMaps(true); }
    d->doc = d->liaison.parseXMLStream(src);
    return d;
}

static const char* DOCS[] = {
    "<r x='1'><a y='2'><b/></a><c/></r>",
    "<!--c--><r xmlns:p='u' p:x='1' y='2'>t<a><b z='3'>u</b><!--d--></a><?pi d?><a/></r>",
    "<r><a><a><a/></a></a><b x='1' y='2' z='3'/></r>",
    "<r>a<b/>c<d/>e</r>",
};
static const char* KINDS[] = { "st", "xw", "xm" };

// ---------------- (a) all ordered pairs ----------------
static void pairsCase(uint64_t i, Out& out)
{
    const size_t nd = sizeof(DOCS) / sizeof(DOCS[0]);
    const std::string kind = KINDS[i / nd];
    const std::string xml = DOCS[i % nd];
    Doc* d = parse(kind, xml);
    std::vector<std::pair<std::string, const XalanNode*> > all;
    walkPaths(d->doc, "", all);
    // in mapping mode attribute order inside one element is whatever the DOM gives; pre-order rank treats all
    // attributes of one element as one rank class only for the "element < its attributes < its children" rule
    const size_t n = all.size();
    // document node is not a legal argument of isNodeAfter in some implementations; skip index 0 (the document)
    size_t wrong = 0;
    std::string firstWrong;
    for (size_t a = 1; a < n; ++a)
        for (size_t b = 1; b < n; ++b)
        {
            if (a == b) continue;
            out.count("evaluations");
            out.count("pairs");
            bool got;
            try { got = d->support().isNodeAfter(*all[a].second, *all[b].second); }
            catch (...) { out.viol("pairs|exception|" + kind, xml + " " + all[a].first + " vs " + all[b].first); continue; }
            const bool expect = a > b;
            if (got != expect)
            {
                ++wrong;
                if (firstWrong.empty()) firstWrong = all[a].first + " after " + all[b].first + " expected " + (expect ? "true" : "false");
                // classify the pair
                const std::string& pa = all[a].first; const std::string& pb = all[b].first;
                std::string cls = "other";
                const bool aAttr = pa.find("/@") != std::string::npos, bAttr = pb.find("/@") != std::string::npos;
                const std::string ea = aAttr ? pa.substr(0, pa.find("/@")) : pa, eb = bAttr ? pb.substr(0, pb.find("/@")) : pb;
                if (ea == eb && (aAttr != bAttr)) cls = "element-vs-own-attribute";
                else if (ea == eb && aAttr && bAttr) cls = "attributes-of-one-element";
                else if (ea.compare(0, eb.size(), eb) == 0 && ea.size() > eb.size() && ea[eb.size()] == '/') cls = "ancestor-descendant";
                else if (eb.compare(0, ea.size(), ea) == 0 && eb.size() > ea.size() && eb[ea.size()] == '/') cls = "ancestor-descendant";
                out.viol("pairs|wrong-order|" + kind + "|" + cls, xml + ": isNodeAfter(" + firstWrong + ")");
            }
        }
    if (n > 3) out.count("nontrivial", (long long)((n - 1) * (n - 2)));
    if (i % 5 == 0) out.sample("pairs " + kind + " " + xml + " nodes=" + std::to_string(n) + " wrong=" + std::to_string(wrong));
    delete d;
}

// ---------------- (b) BFS over insertion histories ----------------
static std::vector<const XalanNode*> g_nodes;
static std::vector<std::string> g_names;
static std::vector<int> g_docOf, g_rank;
static STDoc* g_A = 0; static STDoc* g_B = 0;
static XPathExecutionContextDefault* g_ec = 0;

struct Op { std::string name; int kind; std::vector<int> nodes; int flag; };   // kind 0 addNodeInDocOrder, 1 bulk, 2 clear, 3 bulk via reverse()
static std::vector<Op> g_ops;

static void buildAlphabet()
{
    g_A = (STDoc*)parse("st", "<r x='1'><a>t</a></r>");
    g_B = (STDoc*)parse("st", "<s><b/></s>");
    int docIdx = 0;
    for (STDoc* d : { g_A, g_B })
    {
        std::vector<std::pair<std::string, const XalanNode*> > all;
        walkPaths(d->doc, "", all);
        int r = 0;
        for (auto& p : all)
        {
            if (p.first.find("@xmlns") != std::string::npos) { ++r; continue; }
            g_nodes.push_back(p.second);
            g_names.push_back(std::string(docIdx == 0 ? "A" : "B") + (p.first.empty() ? "/" : p.first));
            g_docOf.push_back(docIdx);
            g_rank.push_back(r++);
        }
        ++docIdx;
    }
    for (size_t i = 0; i < g_nodes.size(); ++i) g_ops.push_back({ "add(" + g_names[i] + ")", 0, { (int)i }, 0 });
    auto idx = [](const std::string& n) { for (size_t i = 0; i < g_names.size(); ++i) if (g_names[i] == n) return (int)i; abort(); };
    g_ops.push_back({ "addAll[A/0,A/0/0 doc-order]", 1, { idx("A/0"), idx("A/0/0") }, 1 });
    g_ops.push_back({ "addAll[A/0/0/0,A/0/@x reverse-order]", 1, { idx("A/0/0/0"), idx("A/0/@x") }, 2 });
    g_ops.push_back({ "addAll[B/,B/0/0 doc-order]", 1, { idx("B/"), idx("B/0/0") }, 1 });
    g_ops.push_back({ "addAll[A/0/0,B/0,A/ unknown-order]", 1, { idx("A/0/0"), idx("B/0"), idx("A/") }, 0 });
    g_ops.push_back({ "addAll[reverse() of A/0,A/0/0/0]", 3, { idx("A/0"), idx("A/0/0/0") }, 0 });
    g_ops.push_back({ "clear", 2, {}, 0 });
}

static void applyOp(MutableNodeRefList& l, const Op& op)
{
    MemoryManager& mm = XalanMemMgrs::getDefaultXercesMemMgr();
    if (op.kind == 0) l.addNodeInDocOrder(const_cast<XalanNode*>(g_nodes[op.nodes[0]]), *g_ec);
    else if (op.kind == 2) l.clear();
    else
    {
        MutableNodeRefList src(mm);
        for (int n : op.nodes) src.addNode(const_cast<XalanNode*>(g_nodes[n]));
        if (op.kind == 3) { src.setDocumentOrder(); src.reverse(); }
        else if (op.flag == 1) src.setDocumentOrder();
        else if (op.flag == 2) src.setReverseDocumentOrder();
        else src.setUnknownOrder();
        l.addNodesInDocOrder(src, *g_ec);
    }
}

static std::string keyOf(const MutableNodeRefList& l)
{
    std::string k;
    for (NodeRefListBase::size_type i = 0; i < l.getLength(); ++i)
    {
        const XalanNode* n = l.item(i);
        size_t j = 0;
        for (; j < g_nodes.size(); ++j) if (g_nodes[j] == n) break;
        k += (j < g_names.size() ? g_names[j] : std::string("?")) + " ";
    }
    k += l.getDocumentOrder() ? "|doc" : (l.getReverseDocumentOrder() ? "|rev" : "|unk");
    return k;
}

static std::string checkInvariant(const MutableNodeRefList& l)
{
    std::vector<int> seq;
    for (NodeRefListBase::size_type i = 0; i < l.getLength(); ++i)
    {
        const XalanNode* n = l.item(i);
        size_t j = 0;
        for (; j < g_nodes.size(); ++j) if (g_nodes[j] == n) break;
        if (j == g_nodes.size()) return "foreign-node";
        seq.push_back((int)j);
    }
    for (size_t i = 0; i < seq.size(); ++i)
        for (size_t j = i + 1; j < seq.size(); ++j)
            if (seq[i] == seq[j]) return "duplicate";
    // per-document pre-order
    for (size_t i = 0; i < seq.size(); ++i)
        for (size_t j = i + 1; j < seq.size(); ++j)
            if (g_docOf[seq[i]] == g_docOf[seq[j]] && g_rank[seq[i]] > g_rank[seq[j]]) return "out-of-document-order";
    // documents not interleaved: doc sequence changes at most once per document
    std::set<int> closed; int cur = -1;
    for (int s : seq)
    {
        int d = g_docOf[s];
        if (d != cur) { if (closed.count(d)) return "documents-interleaved"; if (cur >= 0) closed.insert(cur); cur = d; }
    }
    return "";
}

static void bfs(int maxDepth, Out& out)
{
    MemoryManager& mm = XalanMemMgrs::getDefaultXercesMemMgr();
    std::set<std::string> seen;
    std::deque<std::vector<int> > frontier;
    frontier.push_back(std::vector<int>());
    seen.insert("|unk");
    std::set<std::string> reported;
    size_t states = 1, transitions = 0, maxd = 0, nontriv = 0;
    while (!frontier.empty())
    {
        std::vector<int> h = frontier.front(); frontier.pop_front();
        if ((int)h.size() >= maxDepth) continue;
        for (size_t o = 0; o < g_ops.size(); ++o)
        {
            MutableNodeRefList l(mm);
            for (int x : h) applyOp(l, g_ops[x]);
            // replay determinism: same key as when first built is implied by seen-set membership of the parent
            applyOp(l, g_ops[o]);
            ++transitions;
            out.count("evaluations");
            std::string bad = checkInvariant(l);
            std::string k = keyOf(l);
            if (!bad.empty())
            {
                std::string sig = "list|" + bad + "|after " + (g_ops[o].kind == 0 ? "addNodeInDocOrder" : g_ops[o].kind == 2 ? "clear" : "addNodesInDocOrder");
                if (!reported.count(sig))
                {
                    reported.insert(sig);
                    std::string hist;
                    for (int x : h) hist += g_ops[x].name + "; ";
                    hist += g_ops[o].name;
                    out.viol(sig, "history: " + hist + "  => list: " + k);
                }
                continue;   // do not expand states that already violate the invariant
            }
            if (seen.insert(k).second)
            {
                ++states;
                std::vector<int> nh = h; nh.push_back((int)o);
                if (nh.size() > maxd) maxd = nh.size();
                if (l.getLength() >= 3) ++nontriv;
                if (states % 97 == 3)
                {
                    std::string hist;
                    for (int x : nh) hist += g_ops[x].name + "; ";
                    out.sample("history: " + hist + " => " + k);
                }
                frontier.push_back(nh);
            }
        }
    }
    out.count("states", (long long)states);
    out.count("transitions", (long long)transitions);
    out.count("max_depth", (long long)maxd);
    out.count("bfs_nontrivial_states", (long long)nontriv);
}

int main(int argc, char** argv)
{
    const std::string tier = argc > 1 ? argv[1] : "quick";
    const int shard = argc > 2 ? atoi(argv[2]) : 0;
    const int nshards = argc > 3 ? atoi(argv[3]) : 1;
    xercesc::XMLPlatformUtils::Initialize();
    XalanTransformer::initialize();
    {
        const size_t nd = sizeof(DOCS) / sizeof(DOCS[0]);
        auto desc = [&](uint64_t i) { return std::make_pair(std::string(KINDS[i / nd]), std::string(DOCS[i % nd])); };
        runIsolated(3 * nd, shard, nshards, pairsCase, desc, "pairs");
        if (shard == 0)
        {
            // run the BFS in a forked child too, so that an ASan abort becomes a verdict
            auto bfsCase = [&](uint64_t, Out& out)
            {
                buildAlphabet();
                MemoryManager& mm = XalanMemMgrs::getDefaultXercesMemMgr();
                XPathEnvSupportDefault env(mm);
                XObjectFactoryDefault xof(mm);
                XPathExecutionContextDefault ec(env, g_A->sup, xof);
                g_ec = &ec;
                bfs(tier == "quick" ? 6 : 9, out);
            };
            auto d2 = [](uint64_t) { return std::make_pair(std::string("bfs"), std::string("MutableNodeRefList BFS")); };
            runIsolated(1, 0, 1, bfsCase, d2, "list", 600);
        }
    }
    XalanTransformer::terminate();
    xercesc::XMLPlatformUtils::Terminate();
    return 0;
}
