// Shared helpers for the /verif harness drivers: line protocol, node paths, library init.
#pragma once
#include <cstdio>
#include <cstring>
#include <string>
#include <vector>
#include <map>
#include <iostream>
#include <sstream>

#include <xercesc/util/PlatformUtils.hpp>
#include <xercesc/framework/MemBufInputSource.hpp>

#include <xalanc/Include/PlatformDefinitions.hpp>
#include <xalanc/XalanDOM/XalanDOMString.hpp>
#include <xalanc/XalanDOM/XalanNode.hpp>
#include <xalanc/XalanDOM/XalanDocument.hpp>
#include <xalanc/XalanDOM/XalanElement.hpp>
#include <xalanc/XalanDOM/XalanAttr.hpp>
#include <xalanc/XalanDOM/XalanNamedNodeMap.hpp>
#include <xalanc/PlatformSupport/DOMStringHelper.hpp>
#include <xalanc/PlatformSupport/XSLException.hpp>

namespace vh {

using xalanc::XalanDOMString;
using xalanc::XalanDOMChar;
using xalanc::XalanNode;

// ---------- escaping: fields separated by TAB, one request/response per line ----------
inline std::string esc(const std::string& s)
{
    std::string o;
    o.reserve(s.size() + 8);
    for (unsigned char c : s)
    {
        switch (c)
        {
        case '\\': o += "\\\\"; break;
        case '\t': o += "\\t"; break;
        case '\n': o += "\\n"; break;
        case '\r': o += "\\r"; break;
        case 0: o += "\\0"; break;
        default: o += (char)c;
        }
    }
    return o;
}

inline int hexv(char c)
{
    if (c >= '0' && c <= '9') return c - '0';
    if (c >= 'a' && c <= 'f') return c - 'a' + 10;
    if (c >= 'A' && c <= 'F') return c - 'A' + 10;
    return 0;
}

inline std::string unesc(const std::string& s)
{
    std::string o;
    o.reserve(s.size());
    for (size_t i = 0; i < s.size(); ++i)
    {
        if (s[i] == '\\' && i + 1 < s.size())
        {
            char c = s[++i];
            switch (c)
            {
            case 't': o += '\t'; break;
            case 'n': o += '\n'; break;
            case 'r': o += '\r'; break;
            case '0': o += '\0'; break;
            case 'x':
                if (i + 2 < s.size()) { o += (char)(hexv(s[i+1]) * 16 + hexv(s[i+2])); i += 2; }
                break;
            default: o += c;
            }
        }
        else
            o += s[i];
    }
    return o;
}

inline std::vector<std::string> splitTabs(const std::string& line)
{
    std::vector<std::string> f;
    size_t p = 0;
    for (;;)
    {
        size_t q = line.find('\t', p);
        if (q == std::string::npos) { f.push_back(unesc(line.substr(p))); break; }
        f.push_back(unesc(line.substr(p, q - p)));
        p = q + 1;
    }
    return f;
}

// ---------- UTF-16 <-> UTF-8 without going through any Xalan transcoder ----------
inline std::string toUtf8(const XalanDOMChar* p, size_t n)
{
    std::string o;
    for (size_t i = 0; i < n; ++i)
    {
        unsigned c = p[i];
        if (c >= 0xD800 && c < 0xDC00 && i + 1 < n && p[i+1] >= 0xDC00 && p[i+1] < 0xE000)
        {
            c = 0x10000 + ((c - 0xD800) << 10) + (p[i+1] - 0xDC00);
            ++i;
        }
        if (c < 0x80) o += (char)c;
        else if (c < 0x800) { o += (char)(0xC0 | (c >> 6)); o += (char)(0x80 | (c & 0x3F)); }
        else if (c < 0x10000) { o += (char)(0xE0 | (c >> 12)); o += (char)(0x80 | ((c >> 6) & 0x3F)); o += (char)(0x80 | (c & 0x3F)); }
        else { o += (char)(0xF0 | (c >> 18)); o += (char)(0x80 | ((c >> 12) & 0x3F)); o += (char)(0x80 | ((c >> 6) & 0x3F)); o += (char)(0x80 | (c & 0x3F)); }
    }
    return o;
}

inline std::string toUtf8(const XalanDOMString& s)
{
    return toUtf8(s.c_str(), s.length());
}

// lenient UTF-8 decoder: invalid bytes become U+FFFD; lone surrogates encoded as 3-byte (CESU style) pass through
inline void fromUtf8(const std::string& s, XalanDOMString& out)
{
    out.clear();
    size_t i = 0, n = s.size();
    while (i < n)
    {
        unsigned char c = s[i];
        unsigned cp; int extra;
        if (c < 0x80) { cp = c; extra = 0; }
        else if ((c & 0xE0) == 0xC0) { cp = c & 0x1F; extra = 1; }
        else if ((c & 0xF0) == 0xE0) { cp = c & 0x0F; extra = 2; }
        else if ((c & 0xF8) == 0xF0) { cp = c & 0x07; extra = 3; }
        else { cp = 0xFFFD; extra = 0; }
        ++i;
        for (int k = 0; k < extra; ++k)
        {
            if (i < n && (((unsigned char)s[i]) & 0xC0) == 0x80) { cp = (cp << 6) | (s[i] & 0x3F); ++i; }
            else { cp = 0xFFFD; break; }
        }
        if (cp >= 0x10000)
        {
            cp -= 0x10000;
            out.push_back((XalanDOMChar)(0xD800 + (cp >> 10)));
            out.push_back((XalanDOMChar)(0xDC00 + (cp & 0x3FF)));
        }
        else
            out.push_back((XalanDOMChar)cp);
    }
}

inline XalanDOMString dom(const std::string& s)
{
    XalanDOMString r;
    fromUtf8(s, r);
    return r;
}

// ---------- node paths ----------
// document: "" ; child i of P: P + "/" + i ; attribute (incl. xmlns declarations) of element P: P + "/@" + qname
inline std::string nodePath(const XalanNode* n)
{
    if (n == 0) return "null";
    if (n->getNodeType() == XalanNode::DOCUMENT_NODE) return "";
    if (n->getNodeType() == XalanNode::ATTRIBUTE_NODE)
    {
        const XalanNode* owner = 0;
        // XalanAttr::getOwnerElement
        owner = reinterpret_cast<const XalanNode*>(static_cast<const xalanc::XalanAttr*>(n)->getOwnerElement());
        return nodePath(owner) + "/@" + toUtf8(n->getNodeName());
    }
    const XalanNode* p = n->getParentNode();
    if (p == 0) return "?orphan";
    int idx = 0;
    for (const XalanNode* c = p->getFirstChild(); c != 0 && c != n; c = c->getNextSibling()) ++idx;
    return nodePath(p) + "/" + std::to_string(idx);
}

inline void walkPaths(const XalanNode* n, const std::string& path, std::vector<std::pair<std::string, const XalanNode*> >& out)
{
    out.push_back(std::make_pair(path, n));
    if (n->getNodeType() == XalanNode::ELEMENT_NODE)
    {
        const xalanc::XalanNamedNodeMap* a = n->getAttributes();
        if (a != 0)
            for (xalanc::XalanSize_t i = 0; i < a->getLength(); ++i)
            {
                const XalanNode* at = a->item(i);
                out.push_back(std::make_pair(path + "/@" + toUtf8(at->getNodeName()), at));
            }
    }
    int idx = 0;
    for (const XalanNode* c = n->getFirstChild(); c != 0; c = c->getNextSibling(), ++idx)
        walkPaths(c, path + "/" + std::to_string(idx), out);
}

inline XalanNode* findByPath(XalanNode* doc, const std::string& path)
{
    XalanNode* cur = doc;
    size_t p = 0;
    while (p < path.size() && cur != 0)
    {
        // path[p] == '/'
        size_t q = path.find('/', p + 1);
        std::string step = path.substr(p + 1, q == std::string::npos ? std::string::npos : q - p - 1);
        if (!step.empty() && step[0] == '@')
        {
            const xalanc::XalanNamedNodeMap* a = cur->getAttributes();
            XalanNode* found = 0;
            if (a != 0)
                for (xalanc::XalanSize_t i = 0; i < a->getLength(); ++i)
                    if (toUtf8(a->item(i)->getNodeName()) == step.substr(1)) { found = a->item(i); break; }
            cur = found;
        }
        else
        {
            int idx = atoi(step.c_str());
            XalanNode* c = cur->getFirstChild();
            while (idx-- > 0 && c != 0) c = c->getNextSibling();
            cur = c;
        }
        if (q == std::string::npos) break;
        p = q;
    }
    return cur;
}

inline std::string hexDouble(double d)
{
    unsigned long long u;
    memcpy(&u, &d, 8);
    char b[32];
    snprintf(b, sizeof b, "%016llx", u);
    return b;
}

inline std::string excText(const xalanc::XSLException& e)
{
    XalanDOMString m;
    e.defaultFormat(m);
    return toUtf8(m);
}

} // namespace vh
