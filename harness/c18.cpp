// C18: number <-> string conversions and round/floor/ceiling, exhaustively over a structured finite set.
// usage: c18 <tier> <shard> <nshards>
// LDLIBS: -lm
#include "common.hpp"
#include "isolate.hpp"

#include <cmath>
#include <cfloat>
#include <climits>

#include <xalanc/PlatformSupport/DoubleSupport.hpp>
#include <xalanc/XPath/XObject.hpp>
#include <xalanc/XPath/XPathEvaluator.hpp>
#include <xalanc/XalanSourceTree/XalanSourceTreeDOMSupport.hpp>
#include <xalanc/XalanSourceTree/XalanSourceTreeInit.hpp>
#include <xalanc/XalanSourceTree/XalanSourceTreeParserLiaison.hpp>
#include <xalanc/XalanTransformer/XalanTransformer.hpp>
#include <xalanc/DOMSupport/XalanDocumentPrefixResolver.hpp>

using namespace xalanc;
using namespace vh;

static double fromBits(uint64_t u) { double d; memcpy(&d, &u, 8); return d; }
static uint64_t bitsOf(double d) { uint64_t u; memcpy(&u, &d, 8); return u; }

static std::vector<double> g_vals;      // section A domain
static std::vector<std::string> g_longs; // section B extra strings
static std::vector<std::string> g_exprs; // section C expressions "fn|literal"

static void buildDoubles(bool quick)
{
    std::vector<uint64_t> mant;
    const uint64_t M = (1ull << 52) - 1;
    mant.push_back(0); mant.push_back(1); mant.push_back(1ull << 51); mant.push_back(M);
    mant.push_back(0x5555555555555ull & M); mant.push_back(0xAAAAAAAAAAAAAull & M);
    mant.push_back(0x000FFFFFFFFFFull); mant.push_back(0xFFF0000000000ull);
    for (int i = 0; i < 52; ++i) mant.push_back(1ull << i);
    if (!quick)
    {
        for (int i = 0; i < 52; ++i)
            for (int j = i + 1; j < 52; ++j) mant.push_back((1ull << i) | (1ull << j));   // all two-bit mantissas
        for (int i = 1; i < 52; ++i) { mant.push_back((1ull << i) - 1); mant.push_back(M & ~((1ull << i) - 1)); } // low / high runs
    }
    const int estep = 1;
    for (int s = 0; s < 2; ++s)
        for (int e = 0; e <= 2046; e += estep)
            for (size_t m = 0; m < mant.size(); ++m)
                g_vals.push_back(fromBits(((uint64_t)s << 63) | ((uint64_t)e << 52) | mant[m]));
    // specials
    g_vals.push_back(fromBits(0x7ff8000000000000ull));
    g_vals.push_back(HUGE_VAL); g_vals.push_back(-HUGE_VAL);
    g_vals.push_back(0.0); g_vals.push_back(-0.0);
    g_vals.push_back(DBL_MAX); g_vals.push_back(-DBL_MAX); g_vals.push_back(DBL_MIN); g_vals.push_back(4.9406564584124654e-324);
    // integers around powers of two
    for (int k = 0; k <= 64; ++k)
        for (int d = -64; d <= 64; ++d)
        {
            double v = ldexp(1.0, k) + d;
            g_vals.push_back(v); g_vals.push_back(-v);
        }
    // m * 10^e
    for (int m = 1; m <= 999; m += 1)
        for (int e = -25; e <= 25; ++e)
        {
            char b[32]; snprintf(b, sizeof b, "%de%d", m, e);
            double v = strtod(b, 0);
            g_vals.push_back(v); g_vals.push_back(-v);
        }
    // powers of ten over the whole range, with neighbours
    for (int e = -330; e <= 310; ++e)
    {
        char b[32]; snprintf(b, sizeof b, "1e%d", e);
        double v = strtod(b, 0);
        g_vals.push_back(v); g_vals.push_back(nextafter(v, 0)); g_vals.push_back(nextafter(v, HUGE_VAL)); g_vals.push_back(-v);
    }
    // ties x.5 and neighbours
    for (int n = -1000; n <= 1000; ++n)
    {
        double v = n + 0.5;
        g_vals.push_back(v); g_vals.push_back(nextafter(v, -HUGE_VAL)); g_vals.push_back(nextafter(v, HUGE_VAL));
    }
    for (int k = 0; k <= 53; ++k)
        for (int s = -1; s <= 1; s += 2)
        {
            double base = s * ldexp(1.0, k);
            double c[] = { base + 0.5, base - 0.5, base + 1.5, base - 1.5, base + 1, base - 1 };
            for (double v : c)
            {
                g_vals.push_back(v); g_vals.push_back(nextafter(v, -HUGE_VAL)); g_vals.push_back(nextafter(v, HUGE_VAL));
            }
        }
    double smalls[] = { 0.1, 0.2, 0.3, 0.49999999999999994, 0.5000000000000001, 1.0 / 3, 2.0 / 3, 1e-7, 123456789.123456789,
                        0.000001, 1e21, 1e22, 9007199254740993.0, 4503599627370497.0, 4503599627370495.5 };
    for (double v : smalls) { g_vals.push_back(v); g_vals.push_back(-v); }
}

// ---------------- oracles ----------------
static bool grammarOk(const std::string& s, double x, std::string& why)
{
    if (std::isnan(x)) { if (s != "NaN") { why = "nan-text"; return false; } return true; }
    if (std::isinf(x)) { if (s != (x > 0 ? "Infinity" : "-Infinity")) { why = "inf-text"; return false; } return true; }
    if (x == 0) { if (s != "0") { why = "zero-text"; return false; } return true; }
    size_t i = 0;
    if (x < 0) { if (s.empty() || s[0] != '-') { why = "missing-minus"; return false; } i = 1; }
    size_t ib = i;
    while (i < s.size() && isdigit((unsigned char)s[i])) ++i;
    size_t ilen = i - ib;
    if (ilen == 0) { why = "no-integer-digit"; return false; }
    if (ilen > 1 && s[ib] == '0') { why = "leading-zero"; return false; }
    if (i == s.size()) return true;
    if (s[i] != '.') { why = "bad-char"; return false; }
    ++i;
    size_t fb = i;
    while (i < s.size() && isdigit((unsigned char)s[i])) ++i;
    if (i != s.size()) { why = "bad-char"; return false; }
    if (i == fb) { why = "no-fraction-digit"; return false; }
    if (s[s.size() - 1] == '0') { why = "trailing-zero"; return false; }
    return true;
}

static const char* magClass(double x)
{
    double a = fabs(x);
    if (std::isnan(x)) return "nan";
    if (std::isinf(x)) return "inf";
    if (a == 0) return "zero";
    if (a < 1e-30) return "tiny";
    if (a >= 9223372036854775808.0) return "huge";
    return "mid";
}

static double refRound(double x)
{
    if (std::isnan(x) || std::isinf(x) || x == 0) return x;
    if (fabs(x) >= 4503599627370496.0) return x; // no fractional part
    double f = floor(x);
    double diff = x - f; // exact
    double r = diff >= 0.5 ? f + 1 : f;
    if (r == 0 && x < 0) return -0.0;
    return r;
}

static bool sameDouble(double a, double b)
{
    if (std::isnan(a) || std::isnan(b)) return std::isnan(a) && std::isnan(b);
    return bitsOf(a) == bitsOf(b);
}

static std::string dstr(double d)
{
    char b[64]; snprintf(b, sizeof b, "%.17g[%016llx]", d, (unsigned long long)bitsOf(d));
    return b;
}

static void caseA(uint64_t i, Out& out)
{
    const double x = g_vals[i];
    out.count("evaluations");
    XalanDOMString r;
    NumberToDOMString(x, r);
    const std::string s = toUtf8(r);
    const bool fastInt = fabs(x) < 9.2e18 && x == floor(x);
    if (!fastInt && !std::isnan(x) && !std::isinf(x)) out.count("nontrivial");
    if (i % 50021 == 0) out.sample("string(" + dstr(x) + ") = '" + s + "'");
    std::string why;
    if (!grammarOk(s, x, why))
        out.viol(std::string("tostring|grammar:") + why + "|" + magClass(x), "string(" + dstr(x) + ") = '" + s + "'");
    else if (!std::isnan(x))
    {
        double back = strtod(s.c_str(), 0);
        if (!(back == x))
            out.viol(std::string("tostring|roundtrip|") + magClass(x), "string(" + dstr(x) + ") = '" + s.substr(0, 400) + "' parses back to " + dstr(back));
        // and through the library's own number()
        double back2 = DoubleSupport::toDouble(r, XalanMemMgrs::getDefaultXercesMemMgr());
        if (back == x && !std::isinf(x) && !(back2 == x)) // XPath's number() grammar has no "Infinity"
            out.viol(std::string("tonumber-of-tostring|roundtrip|") + magClass(x), "number('" + s.substr(0, 400) + "') = " + dstr(back2) + " expected " + dstr(x));
    }
    // round
    const double rr = DoubleSupport::round(x), er = refRound(x);
    if (!sameDouble(rr, er))
    {
        const char* cls = (er == 0 && std::signbit(er)) ? "negzero" : (fabs(x) >= 4503599627370496.0 ? "big" : (fabs(x) >= 2251799813685248.0 ? "near2^52" : "other"));
        out.viol(std::string("round|") + cls, "round(" + dstr(x) + ") = " + dstr(rr) + " expected " + dstr(er));
    }
}

// ---------------- section B: number(s) ----------------
static const char ALPHA[] = { '0', '1', '9', '.', '-', '+', 'e', ' ', '\t', 'x' };
static uint64_t g_nB = 0;
static std::vector<uint64_t> g_lenStart; // start index of each length

static std::string strB(uint64_t i)
{
    if (i >= g_nB) return g_longs[i - g_nB];
    int len = 0;
    while (len + 1 < (int)g_lenStart.size() && g_lenStart[len + 1] <= i) ++len;
    uint64_t k = i - g_lenStart[len];
    std::string s(len, ' ');
    for (int p = len - 1; p >= 0; --p) { s[p] = ALPHA[k % 10]; k /= 10; }
    return s;
}

static bool isWs(char c) { return c == ' ' || c == '\t' || c == '\r' || c == '\n'; }

// XPath 1.0 number(): optional ws, optional '-', Number, optional ws. Number ::= Digits ('.' Digits?)? | '.' Digits
static bool refNumber(const std::string& s, double& v)
{
    size_t b = 0, e = s.size();
    while (b < e && isWs(s[b])) ++b;
    while (e > b && isWs(s[e - 1])) --e;
    size_t i = b;
    if (i < e && s[i] == '-') ++i;
    size_t d1 = 0, d2 = 0;
    while (i < e && isdigit((unsigned char)s[i])) { ++i; ++d1; }
    if (i < e && s[i] == '.')
    {
        ++i;
        while (i < e && isdigit((unsigned char)s[i])) { ++i; ++d2; }
    }
    if (i != e || (d1 == 0 && d2 == 0)) return false;
    v = strtod(s.substr(b, e - b).c_str(), 0);
    return true;
}

static std::string shape(const std::string& s)
{
    std::string o;
    for (size_t i = 0; i < s.size(); ++i)
    {
        char c = s[i];
        char k = isdigit((unsigned char)c) ? 'd' : (isWs(c) ? '_' : c);
        if ((k == 'd' || k == '_') && !o.empty() && o[o.size() - 1] == k) continue;
        o += k;
    }
    return o;
}

static void caseB(uint64_t i, Out& out)
{
    const std::string s = strB(i);
    out.count("evaluations");
    double expect = 0;
    const bool valid = refNumber(s, expect);
    if (valid) out.count("nontrivial");
    XalanDOMString xs = dom(s);
    const double got = DoubleSupport::toDouble(xs, XalanMemMgrs::getDefaultXercesMemMgr());
    if (i % 100003 == 0) out.sample("number('" + esc(s) + "') = " + dstr(got));
    if (valid)
    {
        if (std::isnan(got)) out.viol("tonumber|rejects-valid|" + shape(s), "number('" + esc(s.substr(0, 80)) + "') = NaN expected " + dstr(expect));
        else if (!(got == expect)) // the sign of a zero result is not specified ("nearest to the mathematical value")
        {
            std::string cls = (s.size() > 30 ? "long" : "short");
            out.viol("tonumber|wrong-value:" + cls + "|" + (s.size() > 30 ? std::string("len") + std::to_string(s.size()) : shape(s)),
                     "number('" + esc(s.substr(0, 80)) + "') = " + dstr(got) + " expected " + dstr(expect));
        }
    }
    else if (!std::isnan(got))
        out.viol("tonumber|accepts-invalid|" + shape(s), "number('" + esc(s.substr(0, 80)) + "') = " + dstr(got) + " expected NaN");
}

// ---------------- section C: through the XPath evaluator ----------------
struct Eval
{
    XalanSourceTreeDOMSupport sup;
    XalanSourceTreeParserLiaison liaison;
    XalanDocument* doc;
    Eval() : sup(), liaison(sup), doc(0)
    {
        sup.setParserLiaison(&liaison);
        static const char xml[] = "<r/>";
        xercesc::MemBufInputSource src((const XMLByte*)xml, 4, "file:///vmem/doc.xml", false);
        doc = liaison.parseXMLStream(src);
    }
};
static Eval* g_eval = 0;

static bool evalXPath(const std::string& expr, std::string& type, double& num, std::string& str)
{
    try
    {
        XPathEvaluator ev;
        XalanDocumentPrefixResolver pr(g_eval->doc);
        const XObjectPtr r(ev.evaluate(g_eval->sup, g_eval->doc, dom(expr).c_str(), pr));
        if (r.null()) { type = "null"; return true; }
        if (r->getType() == XObject::eTypeNumber) { type = "n"; num = r->num(ev.getExecutionContext()); }
        else if (r->getType() == XObject::eTypeString) { type = "s"; str = toUtf8(r->str(ev.getExecutionContext())); }
        else type = "o";
        return true;
    }
    catch (const XSLException& e) { str = excText(e); return false; }
    catch (...) { str = "unknown exception"; return false; }
}

static std::string plainDecimal(double x)
{
    // exact decimal expansion without exponent (%.{n}f is exact in glibc), trimmed
    char b[1500];
    snprintf(b, sizeof b, "%.400f", x);
    std::string s(b);
    size_t e = s.size();
    while (e > 0 && s[e - 1] == '0') --e;
    if (e > 0 && s[e - 1] == '.') --e;
    return s.substr(0, e);
}

static std::vector<double> g_cvals;

static void buildC()
{
    for (int n = -40; n <= 40; ++n)
    {
        g_cvals.push_back(n); g_cvals.push_back(n + 0.5); g_cvals.push_back(n + 0.25); g_cvals.push_back(n + 0.75);
    }
    double extra[] = { 0.49999999999999994, -0.49999999999999994, 0.2, -0.2, 1e15 + 0.5, -1e15 - 0.5, 4503599627370497.0, 4503599627370495.5,
                       9007199254740992.0, 1e18, 1e19, 1e20, 1e-5, 1e-10, 1e-20, 123456.789 };
    for (double v : extra) { g_cvals.push_back(v); g_cvals.push_back(-v); }
}

static void caseC(uint64_t i, Out& out)
{
    static const char* fns[] = { "round", "floor", "ceiling", "string", "number-string" };
    const double x = g_cvals[i / 5];
    const int f = (int)(i % 5);
    out.count("evaluations");
    std::string lit = plainDecimal(fabs(x));
    std::string arg = (x < 0 || (x == 0 && std::signbit(x))) ? "-" + lit : lit;
    std::string type, str; double num = 0;
    std::string expr;
    double expect = 0;
    if (f <= 2)
    {
        // observe the sign of zero through division
        expr = std::string(fns[f]) + "(" + arg + ")";
        expect = f == 0 ? refRound(x) : (f == 1 ? floor(x) : ceil(x));
        if (x != floor(x)) out.count("nontrivial");
        if (!evalXPath(expr, type, num, str)) { out.viol("xpath|error|" + std::string(fns[f]), expr + " -> " + str); return; }
        if (type != "n") { out.viol("xpath|type|" + std::string(fns[f]), expr + " has type " + type); return; }
        if (!sameDouble(num, expect))
        {
            const char* cls = (num == expect) ? "negzero" : "value";
            out.viol(std::string("xpath|") + fns[f] + "|" + cls, expr + " = " + dstr(num) + " expected " + dstr(expect));
        }
        if (i % 97 == 0) out.sample(expr + " = " + dstr(num));
    }
    else if (f == 3)
    {
        expr = "string(" + arg + ")";
        out.count("nontrivial");
        if (!evalXPath(expr, type, num, str)) { out.viol("xpath|error|string", expr + " -> " + str); return; }
        std::string why;
        if (type != "s") { out.viol("xpath|type|string", expr + " has type " + type); return; }
        if (!grammarOk(str, x, why) || strtod(str.c_str(), 0) != x)
            out.viol(std::string("xpath|string|") + magClass(x), expr + " = '" + str + "'");
    }
    else
    {
        expr = "number('" + std::string(" ") + arg + " ')";
        out.count("nontrivial");
        if (!evalXPath(expr, type, num, str)) { out.viol("xpath|error|number", expr + " -> " + str); return; }
        if (type != "n" || !(num == x))
            out.viol(std::string("xpath|number|") + ((num == x) ? "zero-sign" : "value"), expr + " = " + dstr(num) + " expected " + dstr(x));
    }
}

int main(int argc, char** argv)
{
    const std::string tier = argc > 1 ? argv[1] : "quick";
    const int shard = argc > 2 ? atoi(argv[2]) : 0;
    const int nshards = argc > 3 ? atoi(argv[3]) : 1;
    const bool quick = tier == "quick";

    xercesc::XMLPlatformUtils::Initialize();
    XalanTransformer::initialize();
    {
        buildDoubles(quick);
        buildC();
        const int maxLen = quick ? 6 : 7;
        uint64_t start = 0, p = 1;
        for (int l = 0; l <= maxLen; ++l) { g_lenStart.push_back(start); start += p; p *= 10; }
        g_lenStart.push_back(start);
        g_nB = start;
        int lens[] = { 8, 9, 10, 11, 18, 19, 20, 21, 199, 200, 201, 400 };
        for (int L : lens)
        {
            std::string d;
            for (int k = 0; k < L; ++k) d += (char)('1' + (k * 7) % 9);
            g_longs.push_back(d); g_longs.push_back("-" + d); g_longs.push_back(d.substr(0, L / 2) + "." + d.substr(L / 2));
            g_longs.push_back(" " + d + " "); g_longs.push_back(std::string(L - 1, '0') + "1"); g_longs.push_back("0." + std::string(L, '0') + "1");
            g_longs.push_back(std::string(L, '9')); g_longs.push_back(d + "e1"); g_longs.push_back(d + "x");
        }
        g_eval = new Eval;

        auto descA = [](uint64_t i) { return std::make_pair(std::string("string/round of ") + magClass(g_vals[i]) + " value", dstr(g_vals[i])); };
        runIsolated(g_vals.size(), shard, nshards, caseA, descA, "tostring");
        // fatal outcomes need the exact value for the report: describe() gives the class (signature), details below
        auto descB = [](uint64_t i) { return std::make_pair("number('" + shape(strB(i)) + "')", esc(strB(i))); };
        runIsolated(g_nB + g_longs.size(), shard, nshards, caseB, descB, "tonumber");
        auto descC = [](uint64_t i) { return std::make_pair(std::string("xpath case ") + std::to_string(i), dstr(g_cvals[i / 5])); };
        runIsolated(g_cvals.size() * 5, shard, nshards, caseC, descC, "xpath");
        printf("count\tdomainA\t%zu\ncount\tdomainB\t%llu\ncount\tdomainC\t%zu\n",
               shard == 0 ? g_vals.size() : 0, shard == 0 ? (unsigned long long)(g_nB + g_longs.size()) : 0ull, shard == 0 ? g_cvals.size() * 5 : 0);
        delete g_eval;
    }
    XalanTransformer::terminate();
    xercesc::XMLPlatformUtils::Terminate();
    return 0;
}
