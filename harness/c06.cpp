// C06: operation histories on ONE XalanTransformer. Reads one history per line (TAB separated fields), runs it on a brand-new
// transformer and reports, per operation, (rc, error-text-present, hash of the output) plus an introspection vector of the
// transformer's persistent execution context (read with -fno-access-control; omitted with -DC06_NO_INTROSPECT).
//
// fields:  def:<NAME>=<text>         define a named text (stylesheet or document); remembered across requests
//          run                       (first field) start of a history: everything after it are operations:
//          compile:<S>               compileStylesheet(S)            -> handle index in order of successful compiles
//          parse:<D>:<st|xw>         parseSource(D)                  -> handle index in order of successful parses
//          trS:<S>:<D>               transform(input sources)
//          trH:<i>:<j>               transform(parsed source j, compiled stylesheet i)   (indices into the live handle lists)
//          trM:<S>:<j>               transform(parsed source j, stylesheet S as input source)
//          param:<name>=<expr>       setStylesheetParam
//          clear                     clearStylesheetParams
//          delS:<i> / delD:<j>       destroyStylesheet / destroyParsedSource (index into live lists)
//          indent:<n>  enc:<name>    setIndent / setOutputEncoding
//          inst / uninst             install / uninstall an external function ext:f() (namespace urn:ext)
// reply:   one field per operation: <rc>,<errflag>,<hash>,<introspection>   and finally the full output of the LAST operation
// CXXFLAGS: -fno-access-control
#include "common.hpp"

#include <xercesc/sax/EntityResolver.hpp>
#include <xalanc/XalanTransformer/XalanTransformer.hpp>
#include <xalanc/XalanTransformer/XalanCompiledStylesheet.hpp>
#include <xalanc/XalanTransformer/XalanParsedSource.hpp>
#include <xalanc/XSLT/XSLTInputSource.hpp>
#include <xalanc/XSLT/XSLTResultTarget.hpp>
#include <xalanc/XSLT/StylesheetExecutionContextDefault.hpp>
#include <xalanc/XPath/Function.hpp>
#include <xalanc/XPath/XObjectFactory.hpp>

using namespace xalanc;
using namespace vh;

static std::map<std::string, std::string> g_defs;

struct MemResolver : public xercesc::EntityResolver
{
    virtual xercesc::InputSource* resolveEntity(const XMLCh* const, const XMLCh* const systemId)
    {
        std::string s = toUtf8(systemId, XalanDOMString::length(systemId));
        size_t p = s.rfind('/');
        std::string name = p == std::string::npos ? s : s.substr(p + 1);
        std::map<std::string, std::string>::const_iterator i = g_defs.find(name);
        if (i == g_defs.end()) return 0;
        return new xercesc::MemBufInputSource((const XMLByte*)i->second.data(), i->second.size(), systemId, false);
    }
};

class ExtF : public Function
{
public:
    virtual XObjectPtr execute(XPathExecutionContext& executionContext, XalanNode*, const XObjectArgVectorType&, const Locator*) const
    {
        return executionContext.getXObjectFactory().createString(XalanDOMString("EXT", executionContext.getMemoryManager()));
    }
    using Function::execute;
    virtual ExtF* clone(MemoryManager& theManager) const { return XalanCopyConstruct(theManager, *this); }
protected:
    virtual const XalanDOMString& getError(XalanDOMString& theResult) const { theResult.assign("ext:f() takes no arguments"); return theResult; }
};

struct StringSink
{
    std::string out;
    static CallbackSizeType write(const char* p, CallbackSizeType n, void* h) { static_cast<StringSink*>(h)->out.append(p, n); return n; }
    static void flush(void*) {}
};

static unsigned long long fnv(const std::string& s)
{
    unsigned long long h = 1469598103934665603ull;
    for (unsigned char c : s) { h ^= c; h *= 1099511628211ull; }
    return h;
}

static std::string introspect(XalanTransformer& t)
{
#if defined(C06_NO_INTROSPECT)
    return "-";
#else
    StylesheetExecutionContextDefault* c = t.m_stylesheetExecutionContext;
    if (c == 0) return "null";
    std::ostringstream o;
    o << c->m_modeStack.size() << '.' << c->m_currentIndexStack.size() << '.' << c->m_copyTextNodesOnlyStack.size() << '.'
      << c->m_nodesToTransformStack.size() << '.' << c->m_processCurrentAttributeStack.size() << '.' << c->m_skipElementAttributesStack.size() << '.'
      << c->m_executeIfStack.size() << '.' << c->m_elementInvokerStack.size() << '.' << c->m_useAttributeSetIndexesStack.size() << '.'
      << c->m_xobjectPtrStack.size() << '.' << c->m_paramsVectorStack.size() << '.' << c->m_elementRecursionStack.size() << '.'
      << c->m_currentTemplateStack.size() << '.' << c->m_keyTables.size() << '.' << c->m_formatterListeners.size() << '.'
      << c->m_printWriters.size() << '.' << c->m_outputStreams.size() << '.' << c->m_variablesStack.m_stack.size() << '.'
      << (c->m_stylesheetRoot != 0) << '.' << (c->m_rootDocument != 0);
    return o.str();
#endif
}

static std::string runHistory(const std::vector<std::string>& f)
{
    MemResolver resolver;
    XalanTransformer t;
    t.setWarningStream(0);
    t.setErrorStream(0);
    t.setEntityResolver(&resolver);
    std::vector<const XalanCompiledStylesheet*> sheets;
    std::vector<const XalanParsedSource*> sources;
    const XalanDOMString extNs("urn:ext"), extName("f");
    std::string reply, lastOut;
    for (size_t k = 1; k < f.size(); ++k)
    {
        const std::string& op = f[k];
        std::vector<std::string> a;
        { size_t p = 0; for (;;) { size_t q = op.find(':', p); if (q == std::string::npos || a.size() == 2) { a.push_back(op.substr(p)); break; } a.push_back(op.substr(p, q - p)); p = q + 1; } }
        int rc = 0;
        StringSink sink;
        bool usedTransformer = true;
        try
        {
            if (a[0] == "compile")
            {
                std::istringstream s(g_defs[a[1]]);
                XSLTInputSource in(&s);
                in.setSystemId(dom("file:///vmem/" + a[1]).c_str());
                const XalanCompiledStylesheet* cs = 0;
                rc = t.compileStylesheet(in, cs);
                if (rc == 0 && cs != 0) sheets.push_back(cs);
            }
            else if (a[0] == "parse")
            {
                std::istringstream s(g_defs[a[1]]);
                XSLTInputSource in(&s);
                in.setSystemId(dom("file:///vmem/" + a[1]).c_str());
                const XalanParsedSource* ps = 0;
                rc = t.parseSource(in, ps, a.size() > 2 && a[2] == "xw");
                if (rc == 0 && ps != 0) sources.push_back(ps);
            }
            else if (a[0] == "trS")
            {
                std::istringstream s1(g_defs[a[1]]), s2(g_defs[a[2]]);
                XSLTInputSource xsl(&s1), xml(&s2);
                xsl.setSystemId(dom("file:///vmem/" + a[1]).c_str());
                xml.setSystemId(dom("file:///vmem/" + a[2]).c_str());
                rc = t.transform(xml, xsl, &sink, StringSink::write, StringSink::flush);
            }
            else if (a[0] == "trH")
            {
                size_t i = atoi(a[1].c_str()), j = atoi(a[2].c_str());
                if (i >= sheets.size() || j >= sources.size()) { rc = -77; usedTransformer = false; }
                else rc = t.transform(*sources[j], sheets[i], &sink, StringSink::write, StringSink::flush);
            }
            else if (a[0] == "trM")
            {
                size_t j = atoi(a[2].c_str());
                if (j >= sources.size()) { rc = -77; usedTransformer = false; }
                else
                {
                    std::istringstream s1(g_defs[a[1]]);
                    XSLTInputSource xsl(&s1);
                    xsl.setSystemId(dom("file:///vmem/" + a[1]).c_str());
                    std::ostringstream os;
                    XSLTResultTarget tgt(os);
                    rc = t.transform(*sources[j], xsl, tgt);
                    sink.out = os.str();
                }
            }
            else if (a[0] == "param")
            {
                std::string rest = op.substr(6);
                size_t e = rest.find('=');
                t.setStylesheetParam(dom(rest.substr(0, e)), dom(rest.substr(e + 1)));
            }
            else if (a[0] == "clear") t.clearStylesheetParams();
            else if (a[0] == "delS")
            {
                size_t i = atoi(a[1].c_str());
                if (i < sheets.size()) { rc = t.destroyStylesheet(sheets[i]); sheets.erase(sheets.begin() + i); } else { rc = -77; usedTransformer = false; }
            }
            else if (a[0] == "delD")
            {
                size_t j = atoi(a[1].c_str());
                if (j < sources.size()) { rc = t.destroyParsedSource(sources[j]); sources.erase(sources.begin() + j); } else { rc = -77; usedTransformer = false; }
            }
            else if (a[0] == "indent") t.setIndent(atoi(a[1].c_str()));
            else if (a[0] == "enc") t.setOutputEncoding(dom(a[1]));
            else if (a[0] == "inst") t.installExternalFunction(extNs, extName, ExtF());
            else if (a[0] == "uninst") t.uninstallExternalFunction(extNs, extName);
            else rc = -78;
        }
        catch (const XSLException& e) { rc = -90; sink.out = "EXC " + excText(e); }
        catch (const std::exception& e) { rc = -91; sink.out = std::string("EXC ") + e.what(); }
        catch (...) { rc = -92; sink.out = "EXC unknown"; }
        (void)usedTransformer;
        const bool transformOp = a[0] == "trS" || a[0] == "trH" || a[0] == "trM" || a[0] == "compile" || a[0] == "parse";
        const char* err = t.getLastError();
        const bool errflag = transformOp && rc != 0 && err != 0 && err[0] != 0;
        char buf[64];
        snprintf(buf, sizeof buf, "%d,%d,%016llx,", rc, errflag ? 1 : 0, fnv(sink.out));
        reply += std::string(buf) + introspect(t) + "\t";
        lastOut.swap(sink.out);
    }
    t.setEntityResolver(0);
    return reply + esc(lastOut);
}

int main()
{
    xercesc::XMLPlatformUtils::Initialize();
    XalanTransformer::initialize();
    {
        std::ios::sync_with_stdio(false);
        std::string line;
        while (std::getline(std::cin, line))
        {
            if (line == "quit") break;
            std::vector<std::string> f = splitTabs(line);
            std::string reply;
            if (!f.empty() && f[0].compare(0, 4, "def:") == 0)
            {
                for (size_t i = 0; i < f.size(); ++i)
                {
                    size_t e = f[i].find('=');
                    if (f[i].compare(0, 4, "def:") == 0 && e != std::string::npos) g_defs[f[i].substr(4, e - 4)] = f[i].substr(e + 1);
                }
                reply = "ok";
            }
            else if (!f.empty() && f[0] == "run") reply = runHistory(f);
            else reply = "e\tunknown";
            // the reply's own TABs separate per-operation records; the last field is escaped output
            std::cout << reply << "\n" << std::flush;
        }
    }
    XalanTransformer::terminate();
    xercesc::XMLPlatformUtils::Terminate();
    return 0;
}
