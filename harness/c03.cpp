// c03: line-protocol driver for property C03 (no input crashes, hangs or corrupts memory; every failure is a reported
// error). One request per line on stdin (TAB separated, escaped fields, see common.hpp), one reply line per request.
//
//   ping                                   -> pong
//   doc <slot> <xml>                       -> ok | e <msg>        (keeps the text for the C API and a parsed source tree)
//   xpc <slot> <expr>                      -> XPath through a LONG-LIVED XPathEvaluator (C++) and through the XPath C API
//        reply: cpp=<ok|err|exc:T> type=<b|n|s|ns|rtf|o> bool=<0|1|-> hash=<h> msglen=<n>
//               capi=<rcCreate>,<rcEval>,<bool> capi1=<rc>,<bool>   (one-shot XalanEvaluateXPathExpressionAsBoolean)
//               gold=<ok|bad:...> mm=<before>,<after> heap=<before>,<after> allocs=<n> msg=<head of the error text>
//   trx <stylesheet bytes> <source bytes> [opt ...]
//        opts: e:<entry>       stream (default)  transform(InputSource, InputSource, callback)
//                              target            transform(InputSource, InputSource, XSLTResultTarget(std::ostream))
//                              compiled-st       compileStylesheet, parseSource(native), transform(parsed, compiled, callback)
//                              compiled-xw       compileStylesheet, parseSource(Xerces DOM), transform(parsed, compiled, callback)
//                              mixed             compileStylesheet, transform(InputSource, compiled, XSLTResultTarget)
//                              pi                transform(InputSource, callback): stylesheet from the xml-stylesheet PI
//                              pi-target         transform(InputSource, XSLTResultTarget)   (inline overload of the header)
//                              capi              C API: files + XalanTransformToData
//                              capis             C API: XalanCompileStylesheetFromStream, XalanParseSourceFromStream,
//                                                XalanTransformToDataPrebuilt
//              p:<name>=<expr>      top-level parameter (expression)      n:<name>=<decimal>  number parameter
//              r:<name>=<content>   in-memory resource (import/include/document(): looked up by the last path segment)
//              o:full=1             append the whole error text and output to the reply
//              o:strip=<1|2>        leave code units equal to 'x' out of the output hash (the outpos family compares across pad lengths)
//              o:cap=<MB>           cap of the counting manager for this request      o:fresh=1  see checks/c03.py
//        reply: rc=<rc> stage=<compile|parse|transform|-> err=<strlen(getLastError())> okerr=<error length after an rc 0 stage>
//               exc=<-|type of an exception that escaped the entry point> out=<len>,<hash>
//               gold=<ok|bad:rc=..|bad:output|exc:T> mm=<before>,<after> heap=<before>,<after> allocs=<n> msg=<head>
//               then, on the SAME transformer, the fixed golden transformation has been run (gold=) and the balance of the
//               counting MemoryManager handed to that transformer / of the whole heap was taken before and after request+golden.
//   lsan                                   -> <result of __lsan_do_recoverable_leak_check()>  (report on stderr)
//   quit                                   -> final mm=<bytes outstanding after destroying every long-lived object>
//
// argv[1] = directory for the files of the 'capi' entry; argv[2] = cap of the counting manager in MB (default 256): beyond it
// allocate() throws std::bad_alloc, the way an application-supplied MemoryManager bounds a runaway transformation.
// C03_SKIP_GOLDEN_AFTER_ERROR / C03_LEAK_ON_FAILED_COMPILE (compile time) are the sensitivity demos of checks/c03.py.
// CXXFLAGS: -fvisibility=hidden
#include "common.hpp"

#include <sys/stat.h>
#include <unistd.h>
#include <sys/wait.h>
#include <functional>
#include <sanitizer/common_interface_defs.h>
#include <new>
#include <typeinfo>
#include <cxxabi.h>
#include <fstream>
#include <sanitizer/allocator_interface.h>
#include <sanitizer/lsan_interface.h>

#include <xercesc/sax/EntityResolver.hpp>
#include <xercesc/sax/InputSource.hpp>
#include <xercesc/sax/SAXException.hpp>
#include <xercesc/util/XMLException.hpp>
#include <xercesc/util/OutOfMemoryException.hpp>
#include <xercesc/framework/MemoryManager.hpp>

#include <xalanc/XPath/XObject.hpp>
#include <xalanc/XPath/XPathEvaluator.hpp>
#include <xalanc/XPath/XPath.hpp>
#include <xalanc/XPath/NodeRefListBase.hpp>
#include <xalanc/XalanSourceTree/XalanSourceTreeDOMSupport.hpp>
#include <xalanc/XalanSourceTree/XalanSourceTreeInit.hpp>
#include <xalanc/XalanSourceTree/XalanSourceTreeParserLiaison.hpp>
#include <xalanc/XalanTransformer/XalanTransformer.hpp>
#include <xalanc/XalanTransformer/XalanCAPI.h>
#include <xalanc/XPathCAPI/XPathCAPI.h>
#include <xalanc/XSLT/XSLTInputSource.hpp>
#include <xalanc/XSLT/XSLTResultTarget.hpp>

using namespace xalanc;
using namespace vh;

namespace {

// ---------- counting memory manager ----------
class CountingMM : public xercesc::MemoryManager
{
public:
    size_t bytes, count, cap;
    CountingMM() : bytes(0), count(0), cap(size_t(256) << 20) {}
    virtual void* allocate(XMLSize_t n)
    {
        if (bytes + n > cap) throw std::bad_alloc();
        void* p = malloc(n ? n : 1);
        if (p == 0) throw std::bad_alloc();
        bytes += __sanitizer_get_allocated_size(p);
        ++count;
        return p;
    }
    virtual void deallocate(void* p)
    {
        if (p == 0) return;
        // a pointer the allocator does not own (double free, foreign pointer): let free() produce the sanitizer's report
        if (__sanitizer_get_ownership(p)) bytes -= __sanitizer_get_allocated_size(p);
        free(p);
    }
    virtual xercesc::MemoryManager* getExceptionMemoryManager() { return this; }
};

CountingMM g_mm;
size_t g_defaultCap = size_t(256) << 20;
std::string g_dir;

inline size_t heapNow() { return __sanitizer_get_current_allocated_bytes(); }

// phase of the request in flight, printed when a sanitizer kills the process (checks/c03.py reads it)
const char* volatile g_phase = "idle";
char g_failKey[64] = "-";       // kind and stage of the failure that preceded the golden step, e.g. xp:evaluate, tr:transform
void onDeath()
{
    const char* p = g_phase;
    write(2, "c03-phase: ", 11);
    write(2, p, strlen(p));
    write(2, " after=", 7);
    write(2, g_failKey, strlen(g_failKey));
    write(2, "\n", 1);
}

// "mode forkgold <key>": after a request that failed in the way <key> names (xp:create, xp:evaluate, tr:compile, tr:parse,
// tr:transform), the golden step runs in a forked child and the long-lived objects are then replaced. checks/c03.py switches
// this on in a shard only after a crash in the golden step following such a failure was confirmed there, so that a defect
// which poisons the object after every error of that kind costs a fork instead of a driver restart per case.
std::map<std::string, bool> g_forkKeys;
bool forkGoldFor(const std::string& key)
{
    snprintf(g_failKey, sizeof g_failKey, "%s", key.c_str());
    return g_forkKeys.count(key) != 0;
}

std::string inChild(const std::function<std::string()>& f)
{
    int fd[2];
    if (pipe(fd) != 0) return "harness:pipe";
    fflush(stdout); fflush(stderr);
    const pid_t pid = fork();
    if (pid < 0) { close(fd[0]); close(fd[1]); return "harness:fork"; }
    if (pid == 0)
    {
        close(fd[0]);
        std::string r = f();
        if (r.empty()) r = "ok";
        (void)!write(fd[1], r.data(), r.size());
        _exit(0);
    }
    close(fd[1]);
    std::string got;
    char buf[256];
    ssize_t n;
    while ((n = read(fd[0], buf, sizeof buf)) > 0) got.append(buf, n);
    close(fd[0]);
    int st = 0;
    waitpid(pid, &st, 0);
    if (got.empty()) return WIFSIGNALED(st) ? "died:signal" + std::to_string(WTERMSIG(st)) : "died:exit" + std::to_string(WEXITSTATUS(st));
    return got == "ok" ? "" : got;
}

unsigned long long fnv(const std::string& s)
{
    unsigned long long h = 1469598103934665603ull;
    for (unsigned char c : s) { h ^= c; h *= 1099511628211ull; }
    return h;
}

std::string hex(unsigned long long v)
{
    char b[32];
    snprintf(b, sizeof b, "%llx", v);
    return b;
}

struct MemResolver : public xercesc::EntityResolver
{
    std::map<std::string, std::string> res;
    virtual xercesc::InputSource* resolveEntity(const XMLCh* const, const XMLCh* const systemId)
    {
        std::string s = toUtf8(systemId, XalanDOMString::length(systemId));
        size_t p = s.rfind('/');
        std::string name = p == std::string::npos ? s : s.substr(p + 1);
        std::map<std::string, std::string>::const_iterator i = res.find(name);
        if (i == res.end()) return 0;
        return new xercesc::MemBufInputSource((const XMLByte*)i->second.data(), i->second.size(), systemId, false);
    }
};

struct StringSink
{
    std::string out;
    static CallbackSizeType write(const char* p, CallbackSizeType n, void* h) { static_cast<StringSink*>(h)->out.append(p, n); return n; }
    static void flush(void*) {}
};

// ---------- the golden transformation ----------
const char* const GOLD_XSL =
    "<xsl:stylesheet version=\"1.0\" xmlns:xsl=\"http://www.w3.org/1999/XSL/Transform\">"
    "<xsl:output method=\"xml\" omit-xml-declaration=\"yes\"/>"
    "<xsl:variable name=\"v\" select=\"count(//i)\"/>"
    "<xsl:param name=\"p\" select=\"'dflt'\"/>"
    "<xsl:template match=\"/\"><out n=\"{$v}\" p=\"{$p}\"><xsl:apply-templates select=\"r/i\"><xsl:sort select=\"@n\" data-type=\"number\" order=\"descending\"/>"
    "</xsl:apply-templates><s><xsl:value-of select=\"format-number(sum(//i/@n) div 7,'#,##0.00')\"/></s>"
    "<k><xsl:value-of select=\"count(//i[@g='x'])\"/></k></out></xsl:template>"
    "<xsl:template match=\"i\"><i><xsl:number value=\"@n\" format=\"i\"/>:<xsl:value-of select=\".\"/></i></xsl:template>"
    "</xsl:stylesheet>";
const char* const GOLD_XML = "<r><i n=\"3\" g=\"x\">c</i><i n=\"10\" g=\"y\">j</i><i n=\"1\" g=\"x\">a</i></r>";
const char* const GOLD_OUT = "<out n=\"3\" p=\"dflt\"><i>x:j</i><i>iii:c</i><i>i:a</i><s>2.00</s><k>2</k></out>";

std::string excName(const char* what)
{
    return std::string(what);
}

// runs the golden transformation; "" if exactly right
std::string golden(XalanTransformer& t)
{
    try
    {
        std::istringstream xsl(GOLD_XSL), xml(GOLD_XML);
        XSLTInputSource xslIn(&xsl), xmlIn(&xml);
        xslIn.setSystemId(dom("file:///vmem/gold.xsl").c_str());
        xmlIn.setSystemId(dom("file:///vmem/gold.xml").c_str());
        StringSink sink;
        const int rc = t.transform(xmlIn, xslIn, &sink, StringSink::write, StringSink::flush);
        if (rc != 0) return "bad:rc=" + std::to_string(rc);
        if (sink.out != GOLD_OUT) return "bad:output";
        return "";
    }
    catch (const std::bad_alloc&) { return "exc:std::bad_alloc"; }
    catch (const XSLException&) { return "exc:XSLException"; }
    catch (...) { return "exc:other"; }
}

// ---------- documents for xpc ----------
struct Doc
{
    std::string text;
    XalanSourceTreeDOMSupport sup;
    XalanSourceTreeParserLiaison liaison;
    XalanDocument* doc;
    Doc() : sup(), liaison(sup), doc(0) { sup.setParserLiaison(&liaison); }
};
std::map<std::string, Doc*> g_docs;

std::string cmdDoc(const std::vector<std::string>& f)
{
    if (f.size() < 3) return "e\tbad request";
    std::map<std::string, Doc*>::iterator old = g_docs.find(f[1]);
    if (old != g_docs.end()) { delete old->second; g_docs.erase(old); }
    Doc* d = new Doc;
    d->text = f[2];
    xercesc::MemBufInputSource src((const XMLByte*)d->text.data(), d->text.size(), "file:///vmem/doc.xml", false);
    try { d->doc = d->liaison.parseXMLStream(src); } catch (...) { delete d; throw; }
    if (d->doc == 0) { delete d; return "e\tno document"; }
    g_docs[f[1]] = d;
    return "ok";
}

XPathEvaluator* g_ev = 0;                 // long-lived, counting manager
XalanXPathEvaluatorHandle g_cev = 0;      // long-lived, C API
Doc* g_goldDoc = 0;
const char* const XGOLD_XML = "<r><a>1</a><b>2</b><b>3</b></r>";

template <class F>
std::string guardCall(F f, std::string& msg)
{
    // returns "" when f returned, else the type of the exception
    try { f(); return ""; }
    catch (const XSLException& e) { msg = excText(e); return "XSLException"; }
    catch (const xercesc::SAXException& e) { msg = toUtf8(e.getMessage(), XalanDOMString::length(e.getMessage())); return "SAXException"; }
    catch (const xercesc::XMLException& e) { msg = toUtf8(e.getMessage(), XalanDOMString::length(e.getMessage())); return "XMLException"; }
    catch (const xercesc::OutOfMemoryException&) { return "xercesc::OutOfMemoryException"; }
    catch (const XalanDOMException& e) { msg = "code " + std::to_string((int)e.getExceptionCode()); return "XalanDOMException"; }
    catch (const std::bad_alloc&) { return "std::bad_alloc"; }
    catch (const std::exception& e) { msg = e.what(); return "std::exception"; }
    catch (...)
    {
        // name the type (e.g. a Xerces exception that is neither SAXException nor XMLException)
        const std::type_info* ti = abi::__cxa_current_exception_type();
        if (ti == 0) return "unknown";
        int st = 0;
        char* dn = abi::__cxa_demangle(ti->name(), 0, 0, &st);
        std::string n = dn ? dn : ti->name();
        free(dn);
        return n;
    }
}

std::string head(const std::string& s, size_t n = 160)
{
    return esc(s.size() > n ? s.substr(0, n) : s);
}

struct XpResult
{
    char cpp[48], type[8], gold[64], msg[800];
    int bval, crc, erc, cres, orc, ores;
    unsigned long long hash;
    size_t msglen, allocs;
    int recreated = 0;
    XpResult() : bval(-1), crc(-1), erc(-1), cres(-1), orc(-1), ores(-1), hash(0), msglen(0), allocs(0) { cpp[0] = type[0] = gold[0] = msg[0] = 0; }
};

void setz(char* dst, size_t n, const std::string& s)
{
    snprintf(dst, n, "%s", s.c_str());
}

void runXpc(Doc& d, const std::string& text, XpResult& o, bool fresh)
{
    struct Fresh
    {
        XPathEvaluator* ev; XPathEvaluator* savedEv; XalanXPathEvaluatorHandle cev, savedCev;
        Fresh() : ev(0), savedEv(0), cev(0), savedCev(0) {}
        ~Fresh() { if (ev) { delete ev; g_ev = savedEv; } if (cev) { XalanDestroyXPathEvaluator(cev); g_cev = savedCev; } }
    } holder;
    if (fresh)
    {
        holder.savedEv = g_ev; holder.ev = new XPathEvaluator(g_mm); g_ev = holder.ev;
        holder.savedCev = g_cev; XalanCreateXPathEvaluator(&holder.cev); g_cev = holder.cev;
    }
    const size_t c0 = g_mm.count;
    g_phase = fresh ? "fresh" : "request";
    std::string type = "-", msg;
    const XalanDOMString expr = dom(text);
    // C++ entry point: the same calls the C API makes (createXPath without resolver, document node as context)
    XPath* xp = 0;
    std::string exc = guardCall([&]() {
        xp = g_ev->createXPath(expr.c_str());
        const XObjectPtr r(g_ev->evaluate(d.sup, d.doc, *xp));
        XPathExecutionContext& ctx = g_ev->getExecutionContext();
        if (r.null()) { type = "null"; return; }
        switch (r->getType())
        {
        case XObject::eTypeBoolean: type = "b"; break;
        case XObject::eTypeNumber: type = "n"; break;
        case XObject::eTypeString: type = "s"; break;
        case XObject::eTypeNodeSet: type = "ns"; break;
        case XObject::eTypeResultTreeFrag: type = "rtf"; break;
        default: type = "o"; break;
        }
        o.bval = r->boolean(ctx) ? 1 : 0;
        o.hash = fnv(toUtf8(r->str(ctx)));
    }, msg);
    if (xp != 0) { std::string m2; guardCall([&]() { g_ev->destroyXPath(xp); }, m2); }
    setz(o.cpp, sizeof o.cpp, exc.empty() ? "ok" : (exc == "XSLException" ? "err" : "exc:" + exc));
    setz(o.type, sizeof o.type, type);
    o.msglen = msg.size();
    setz(o.msg, sizeof o.msg, head(msg));
    o.allocs = g_mm.count - c0;
    // C API: two steps on the long-lived handle, the one-shot call on the fresh one
    if (!fresh)
    {
        XalanXPathHandle xh = 0;
        o.crc = XalanCreateXPath(g_cev, text.c_str(), "UTF-8", &xh);
        if (o.crc == XALAN_XPATH_API_SUCCESS)
        {
            int res = -1;
            o.erc = XalanEvaluateXPathAsBoolean(g_cev, xh, d.text.c_str(), &res);
            if (o.erc == XALAN_XPATH_API_SUCCESS) o.cres = res;
            XalanDestroyXPath(g_cev, xh);
        }
    }
    else
    {
        int res = -1;
        o.orc = XalanEvaluateXPathExpressionAsBoolean(g_cev, text.c_str(), "UTF-8", d.text.c_str(), &res);
        if (o.orc == XALAN_XPATH_API_SUCCESS) o.ores = res;
    }
    // the evaluators must stay usable
    if (!fresh)
    {
        g_phase = "golden";
        auto goldFn = [&]() -> std::string {
            std::string gm, got;
            std::string gexc = guardCall([&]() {
                const XalanDOMString ge = dom("concat(name(/*),count(//*),//b[2])");
                const XObjectPtr r(g_ev->evaluate(g_goldDoc->sup, g_goldDoc->doc, ge.c_str()));
                got = toUtf8(r->str(g_ev->getExecutionContext()));
            }, gm);
            if (!gexc.empty()) return "exc:" + gexc;
            if (got != "r43") return "bad:cpp:" + got;
            int res = -1;
            const int rc = XalanEvaluateXPathExpressionAsBoolean(g_cev, "count(//b)=2 and not(//c)", "UTF-8", XGOLD_XML, &res);
            if (rc != 0 || res != 1) return "bad:capi:" + std::to_string(rc) + "," + std::to_string(res);
            return "";
        };
        const bool failed = !exc.empty() || o.crc != 0 || o.erc != 0;
        const bool viaFork = failed ? forkGoldFor(xp == 0 && o.crc != 0 ? "xp:create" : "xp:evaluate") : (forkGoldFor("-"), false);
        std::string gold;
        if (viaFork)
        {
            gold = inChild(goldFn);
            // replace the long-lived evaluators: the old ones are not trusted after a failure in this mode
            XPathEvaluator* old = g_ev;
            g_ev = new XPathEvaluator(g_mm);
            delete old;
            XalanDestroyXPathEvaluator(g_cev);
            g_cev = 0;
            XalanCreateXPathEvaluator(&g_cev);
            o.recreated = 1;
        }
        else
            gold = goldFn();
        setz(o.gold, sizeof o.gold, gold.empty() ? "ok" : gold);
        g_phase = "after";
    }
}

std::string cmdXpc(const std::vector<std::string>& f)
{
    if (f.size() < 3) return "e\tbad request";
    std::map<std::string, Doc*>::iterator it = g_docs.find(f[1]);
    if (it == g_docs.end()) return "e\tno such slot";
    XpResult r, fr;
    const size_t h0 = heapNow(), m0 = g_mm.bytes;
    runXpc(*it->second, f[2], r, false);
    const size_t m1 = g_mm.bytes, h1 = heapNow();
    // the same request on objects made for it and destroyed after it: what stays outstanding is lost
    runXpc(*it->second, f[2], fr, true);
    const size_t m2 = g_mm.bytes, h2 = heapNow();
    return std::string("cpp=") + r.cpp + "\ttype=" + r.type + "\tbool=" + std::to_string(r.bval) + "\thash=" + hex(r.hash) + "\tmsglen=" + std::to_string(r.msglen) +
        "\tcapi=" + std::to_string(r.crc) + "," + std::to_string(r.erc) + "," + std::to_string(r.cres) +
        "\tfresh=" + fr.cpp + "," + std::to_string(fr.bval) + "," + hex(fr.hash) + "," + std::to_string(fr.orc) + "," + std::to_string(fr.ores) +
        "\tgold=" + r.gold + "\tmm=" + std::to_string(m0) + "," + std::to_string(m1) + "\theap=" + std::to_string(h0) + "," + std::to_string(h1) +
        "\tfmm=" + std::to_string((long long)m2 - (long long)m1) + "\tfheap=" + std::to_string((long long)h2 - (long long)h1) +
        "\tallocs=" + std::to_string(r.allocs) + "\trecreated=" + std::to_string(r.recreated) + "\tmsg=" + r.msg;
}

// ---------- transformations ----------
XalanTransformer* g_t = 0;     // long-lived, counting manager
XalanHandle g_ct = 0;          // long-lived, C API (default manager)

struct TrResult
{
    int rc;
    char stage[12];
    size_t errlen, okerr, outlen, allocs;
    unsigned long long outhash;
    char exc[48];
    char gold[48];
    char msg[800];
    int recreated = 0;
    TrResult() : rc(0), errlen(0), okerr(0), outlen(0), allocs(0), outhash(0) { stage[0] = exc[0] = gold[0] = msg[0] = 0; }
};

void writeFile(const std::string& path, const std::string& data)
{
    FILE* fp = fopen(path.c_str(), "wb");
    if (fp == 0) throw std::runtime_error("cannot write " + path);
    fwrite(data.data(), 1, data.size(), fp);
    fclose(fp);
}

size_t lastErrLen(XalanTransformer& t)
{
    const char* e = t.getLastError();
    return e ? strlen(e) : 0;
}

void runTrx(const std::vector<std::string>& f, TrResult& r, std::string* fullErr, std::string* fullOut)
{
    MemResolver resolver;
    std::string entry = "stream";
    bool fresh = false;
    int stripUnit = 0;      // o:strip=<1|2>: code units equal to 'x' (1 or 2 bytes wide, little endian) are left out of the output hash
    std::vector<std::pair<std::string, std::string> > params, nparams;
    for (size_t i = 3; i < f.size(); ++i)
    {
        const std::string& a = f[i];
        if (a.size() < 3 || a[1] != ':') continue;
        if (a[0] == 'e') { entry = a.substr(2); continue; }
        if (a == "o:fresh=1") { fresh = true; continue; }
        if (a.compare(0, 8, "o:strip=") == 0) { stripUnit = atoi(a.c_str() + 8); continue; }
        if (a.compare(0, 6, "o:cap=") == 0) { g_mm.cap = size_t(atoi(a.c_str() + 6)) << 20; continue; }
        size_t e = a.find('=');
        if (e == std::string::npos) continue;
        std::string k = a.substr(2, e - 2), v = a.substr(e + 1);
        if (a[0] == 'p') params.push_back(std::make_pair(k, v));
        else if (a[0] == 'n') nparams.push_back(std::make_pair(k, v));
        else if (a[0] == 'r') resolver.res[k] = v;
    }
    const bool capi = entry == "capi" || entry == "capis";
    // o:fresh=1: a transformer made for this request and destroyed after it (exact balance: what stays is lost)
    struct Fresh
    {
        XalanTransformer* t; XalanHandle ct, saved;
        Fresh() : t(0), ct(0), saved(0) {}
        ~Fresh() { delete t; if (ct) { DeleteXalanTransformer(ct); g_ct = saved; } }
    } freshHolder;
    if (fresh)
    {
        if (capi) { freshHolder.saved = g_ct; freshHolder.ct = CreateXalanTransformer(); g_ct = freshHolder.ct; }
        else freshHolder.t = new XalanTransformer(g_mm);
    }
    XalanTransformer& t = capi ? *static_cast<XalanTransformer*>(g_ct) : (fresh ? *freshHolder.t : *g_t);
    t.setWarningStream(0);
    t.setErrorStream(0);
    t.setEntityResolver(&resolver);
    for (size_t i = 0; i < params.size(); ++i)
    {
        if (capi) XalanSetStylesheetParam(params[i].first.c_str(), params[i].second.c_str(), g_ct);
        else t.setStylesheetParam(dom(params[i].first), dom(params[i].second));
    }
    for (size_t i = 0; i < nparams.size(); ++i)
    {
        const double v = strtod(nparams[i].second.c_str(), 0);
        if (capi) XalanSetStylesheetParamNumber(nparams[i].first.c_str(), v, g_ct);
        else t.setStylesheetParam(dom(nparams[i].first), v);
    }
    const std::string& xsl = f[1];
    const std::string& xml = f[2];
    std::string out, err, stage = "-";
    int rc = 0;
    size_t okerr = 0;
    const size_t c0 = g_mm.count;
    const size_t hc0 = heapNow();
    g_phase = "request";
    std::string emsg;
    std::string exc = guardCall([&]() {
        std::istringstream xslSrc(xsl), xmlSrc(xml);
        XSLTInputSource xslIn(&xslSrc), xmlIn(&xmlSrc);
        xslIn.setSystemId(dom("file:///vmem/main.xsl").c_str());
        xmlIn.setSystemId(dom("file:///vmem/doc.xml").c_str());
        StringSink sink;
        if (entry == "stream")
        {
            stage = "transform";
            rc = t.transform(xmlIn, xslIn, &sink, StringSink::write, StringSink::flush);
            err = t.getLastError();
            out.swap(sink.out);
        }
        else if (entry == "target")
        {
            stage = "transform";
            std::ostringstream os;
            rc = t.transform(xmlIn, xslIn, XSLTResultTarget(os));
            err = t.getLastError();
            out = os.str();
        }
        else if (entry == "pi" || entry == "pi-target")
        {
            stage = "transform";
            // the stylesheet named by an xml-stylesheet PI is opened as a URL, not through the entity resolver: real file
            const std::string xf = g_dir + "/pi.xsl";
            writeFile(xf, xsl);
            const std::string pi = "<?xml-stylesheet type=\"text/xsl\" href=\"file://" + xf + "\"?>";
            std::string doc = xml;
            size_t at = 0;
            if (doc.compare(0, 5, "<?xml") == 0) { size_t q = doc.find("?>"); at = q == std::string::npos ? 0 : q + 2; }
            doc.insert(at, pi);
            std::istringstream piSrc(doc);
            XSLTInputSource piIn(&piSrc);
            piIn.setSystemId(dom("file:///vmem/doc.xml").c_str());
            if (entry == "pi")
            {
                rc = t.transform(piIn, &sink, StringSink::write, StringSink::flush);
                out.swap(sink.out);
            }
            else
            {
                std::ostringstream os;
                rc = t.transform(piIn, XSLTResultTarget(os));
                out = os.str();
            }
            err = t.getLastError();
        }
        else if (entry == "compiled-st" || entry == "compiled-xw" || entry == "mixed")
        {
            const XalanCompiledStylesheet* cs = 0;
            const XalanParsedSource* ps = 0;
            struct Cleanup
            {
                XalanTransformer& t; const XalanCompiledStylesheet*& cs; const XalanParsedSource*& ps;
                ~Cleanup() { if (cs) t.destroyStylesheet(cs); if (ps) t.destroyParsedSource(ps); }
            } cleanup = { t, cs, ps };
            stage = "compile";
            rc = t.compileStylesheet(xslIn, cs);
            err = t.getLastError();
#if defined(C03_LEAK_ON_FAILED_COMPILE)
            if (rc != 0) g_mm.allocate(24);
#endif
            if (rc == 0) okerr += err.size();
            if (entry == "mixed")
            {
                if (rc == 0)
                {
                    stage = "transform";
                    std::ostringstream os;
                    rc = t.transform(xmlIn, cs, XSLTResultTarget(os));
                    err = t.getLastError();
                    out = os.str();
                }
            }
            else
            {
                // the source is parsed whether or not the stylesheet compiled: a failed compile must not disturb it
                const int rcC = rc;
                const std::string errC = err;
                if (rcC == 0) stage = "parse";
                const int rcP = t.parseSource(xmlIn, ps, entry == "compiled-xw");
                const std::string errP = t.getLastError();
                if (rcP == 0) okerr += errP.size();
                if (rcC != 0) { rc = rcC; err = errC; }
                else if (rcP != 0) { stage = "parse"; rc = rcP; err = errP; }
                else
                {
                    stage = "transform";
                    rc = t.transform(*ps, cs, &sink, StringSink::write, StringSink::flush);
                    err = t.getLastError();
                    out.swap(sink.out);
                }
            }
        }
        else if (entry == "capi")
        {
            stage = "transform";
            const std::string xf = g_dir + "/main.xsl", df = g_dir + "/doc.xml";
            writeFile(xf, xsl);
            writeFile(df, xml);
            char* data = 0;
            rc = XalanTransformToData(df.c_str(), xf.c_str(), &data, g_ct);
            err = XalanGetLastError(g_ct);
            if (data != 0) { out = data; XalanFreeData(data); }
        }
        else if (entry == "capis")
        {
            XalanCSSHandle cs = 0;
            XalanPSHandle ps = 0;
            stage = "compile";
            rc = XalanCompileStylesheetFromStream(xsl.data(), (unsigned long)xsl.size(), g_ct, &cs);
            err = XalanGetLastError(g_ct);
            if (rc == 0)
            {
                okerr += err.size();
                stage = "parse";
                rc = XalanParseSourceFromStream(xml.data(), (unsigned long)xml.size(), g_ct, &ps);
                err = XalanGetLastError(g_ct);
                if (rc == 0)
                {
                    okerr += err.size();
                    stage = "transform";
                    char* data = 0;
                    rc = XalanTransformToDataPrebuilt(ps, cs, &data, g_ct);
                    err = XalanGetLastError(g_ct);
                    if (data != 0) { out = data; XalanFreeData(data); }
                }
            }
            if (cs) XalanDestroyCompiledStylesheet(cs, g_ct);
            if (ps) XalanDestroyParsedSource(ps, g_ct);
        }
        else
            throw std::runtime_error("unknown entry " + entry);
    }, emsg);
    if (!exc.empty() && exc == "std::exception" && emsg.compare(0, 7, "unknown") == 0) { setz(r.exc, sizeof r.exc, "harness:" + emsg); }
    else setz(r.exc, sizeof r.exc, exc.empty() ? "-" : exc);
    if (!exc.empty()) { rc = 999; err = emsg; }
    if (rc == 0) okerr += err.size();
    r.rc = rc;
    setz(r.stage, sizeof r.stage, stage);
    r.errlen = rc != 0 ? err.size() : 0;
    r.okerr = okerr;
    r.outlen = out.size();
    if (stripUnit == 1 || stripUnit == 2)
    {
        std::string kept;
        for (size_t i = 0; i + stripUnit <= out.size(); i += stripUnit)
        {
            const bool isx = out[i] == 'x' && (stripUnit == 1 || out[i + 1] == 0);
            if (!isx) kept.append(out, i, stripUnit);
        }
        r.outhash = fnv(kept);
    }
    else
        r.outhash = fnv(out);
    // "reached the library": allocations made for this request (counting manager; whole heap growth for the C API)
    r.allocs = capi ? (heapNow() != hc0 || !out.empty() || rc != 0 ? 1 : 0) : g_mm.count - c0;
    setz(r.msg, sizeof r.msg, head(err));
    if (fullErr) *fullErr = err;
    if (fullOut) *fullOut = out;
    t.clearStylesheetParams();
    // the transformer must stay usable
    std::string g;
    g_phase = "golden";
    g_mm.cap = g_defaultCap;      // a per-request cap (o:cap=) ends with the request: the golden step runs under the default one
#if defined(C03_SKIP_GOLDEN_AFTER_ERROR)
    if (rc != 0) g = ""; else
#endif
    if (rc == 0) forkGoldFor("-");
    if (rc != 0 && forkGoldFor("tr:" + stage) && !fresh)
    {
        g = inChild([&]() { return golden(t); });
        t.setEntityResolver(0);
        if (capi) { DeleteXalanTransformer(g_ct); g_ct = CreateXalanTransformer(); }
        else { XalanTransformer* old = g_t; g_t = new XalanTransformer(g_mm); delete old; }
        r.recreated = 1;
        setz(r.gold, sizeof r.gold, g.empty() ? "ok" : g);
        g_phase = "after";
        return;
    }
    else
        g = golden(t);
    setz(r.gold, sizeof r.gold, g.empty() ? "ok" : g);
    g_phase = "after";
    t.setEntityResolver(0);
}

std::string cmdTrx(const std::vector<std::string>& f)
{
    if (f.size() < 3) return "e\tbad request";
    bool full = false;
    for (size_t i = 3; i < f.size(); ++i) if (f[i] == "o:full=1") full = true;
    TrResult r;
    struct CapRestore { size_t cap; ~CapRestore() { g_mm.cap = cap; } } capRestore = { g_mm.cap };
    std::string fullErr, fullOut;     // only with o:full=1 (replay): the heap reading then includes them
    const size_t h0 = heapNow(), m0 = g_mm.bytes;
    runTrx(f, r, full ? &fullErr : 0, full ? &fullOut : 0);
    const size_t m1 = g_mm.bytes, h1 = heapNow();
    std::string o = "rc=" + std::to_string(r.rc) + "\tstage=" + r.stage + "\terr=" + std::to_string(r.errlen) + "\tokerr=" + std::to_string(r.okerr) +
        "\texc=" + r.exc + "\tout=" + std::to_string(r.outlen) + "," + hex(r.outhash) + "\tgold=" + r.gold +
        "\tmm=" + std::to_string(m0) + "," + std::to_string(m1) + "\theap=" + std::to_string(h0) + "," + std::to_string(h1) +
        "\tallocs=" + std::to_string(r.allocs) + "\trecreated=" + std::to_string(r.recreated) + "\tmsg=" + r.msg;
    if (full) o += "\tfullerr=" + esc(fullErr) + "\tfullout=" + esc(fullOut);
    return o;
}

} // namespace

int main(int argc, char** argv)
{
    g_dir = argc > 1 ? argv[1] : "/tmp";
    if (argc > 2) g_mm.cap = size_t(atoi(argv[2])) << 20;
    g_defaultCap = g_mm.cap;
    mkdir(g_dir.c_str(), 0777);
    __sanitizer_set_death_callback(onDeath);
    if (XalanInitialize() != 0) { fprintf(stderr, "c03: XalanInitialize failed\n"); return 3; }
    if (XalanXPathAPIInitialize() != 0) { fprintf(stderr, "c03: XalanXPathAPIInitialize failed\n"); return 3; }
    size_t finalBytes = 0;
    {
        std::ios::sync_with_stdio(false);
        g_t = new XalanTransformer(g_mm);
        g_ct = CreateXalanTransformer();
        g_ev = new XPathEvaluator(g_mm);
        if (XalanCreateXPathEvaluator(&g_cev) != 0) { fprintf(stderr, "c03: XalanCreateXPathEvaluator failed\n"); return 3; }
        g_goldDoc = new Doc;
        g_goldDoc->text = XGOLD_XML;
        {
            xercesc::MemBufInputSource src((const XMLByte*)g_goldDoc->text.data(), g_goldDoc->text.size(), "file:///vmem/xgold.xml", false);
            g_goldDoc->doc = g_goldDoc->liaison.parseXMLStream(src);
        }
        // self test + warm-up: the golden transformation on the fresh transformers
        for (int i = 0; i < 2; ++i)
        {
            g_t->setWarningStream(0); g_t->setErrorStream(0);
            std::string g1 = golden(*g_t), g2 = golden(*static_cast<XalanTransformer*>(g_ct));
            if (!g1.empty() || !g2.empty())
            {
                fprintf(stderr, "c03: golden self-test failed: %s %s\n", g1.c_str(), g2.c_str());
                return 3;
            }
        }
        std::string line;
        while (std::getline(std::cin, line))
        {
            std::string reply;
            {
                std::vector<std::string> f = splitTabs(line);
                if (f.empty() || f[0] == "quit") break;
                try
                {
                    if (f[0] == "trx") reply = cmdTrx(f);
                    else if (f[0] == "xpc") reply = cmdXpc(f);
                    else if (f[0] == "doc") reply = cmdDoc(f);
                    else if (f[0] == "lsan") reply = std::to_string(__lsan_do_recoverable_leak_check());
                    else if (f[0] == "ping") reply = "pong";
                    else if (f[0] == "mode" && f.size() > 2 && f[1] == "forkgold")
                    {
                        if (f[2] == "none") g_forkKeys.clear(); else g_forkKeys[f[2]] = true;
                        reply = "ok";
                    }
                    else reply = "e\tunknown command";
                }
                catch (const XSLException& e) { reply = "e\t" + esc(excText(e)); }
                catch (const xercesc::XMLException& e) { reply = "e\tXMLException " + esc(toUtf8(e.getMessage(), XalanDOMString::length(e.getMessage()))); }
                catch (const xercesc::SAXException& e) { reply = "e\tSAXException " + esc(toUtf8(e.getMessage(), XalanDOMString::length(e.getMessage()))); }
                catch (const std::exception& e) { reply = std::string("e\tstd::exception ") + e.what(); }
                catch (...) { reply = "e\tunknown exception"; }
            }
            std::cout << reply << "\n" << std::flush;
        }
        for (std::map<std::string, Doc*>::iterator i = g_docs.begin(); i != g_docs.end(); ++i) delete i->second;
        delete g_goldDoc;
        delete g_ev;
        XalanDestroyXPathEvaluator(g_cev);
        delete g_t;
        DeleteXalanTransformer(g_ct);
        finalBytes = g_mm.bytes;
    }
    std::cout << "final\tmm=" << finalBytes << "\n" << std::flush;
    XalanXPathAPITerminate();
    XalanTerminate(0);
    return 0;
}
