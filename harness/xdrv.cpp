// xdrv: generic batch driver around the real library. Reads one request per line on stdin
// (TAB separated, escaped fields), writes one response line per request on stdout.
//
//   doc  <slot> <kind:st|xw|xm> <xml>                -> ok <path> <path> ...      (all nodes, walk order)
//   xp   <slot> <ctxpath> <expr> [p=uri ...]         -> b 0|1 | n <hexbits> | s <str> | ns <path>... | e <msg> | o <type>
//   match <slot> <pattern> [p=uri ...]               -> ok <path>...  (nodes N with getMatchScore(N) != none) | e <msg>
//   tr   <stylesheet> <source> [opt ...]             -> <rc> <err> <output>
//        opts: p:<name>=<expr>   top-level parameter
//              r:<name>=<content> in-memory resource resolvable as file:///vmem/<name>
//              o:<key>=<value>   option (indent, encoding, srckind=stream|st|xw, reuse=1)
//   quit
#include "common.hpp"

#include <xercesc/sax/EntityResolver.hpp>
#include <xercesc/sax/InputSource.hpp>
#include <xercesc/sax/SAXException.hpp>
#include <xercesc/util/XMLException.hpp>

#include <xalanc/PlatformSupport/FormatterListener.hpp>
#include <xalanc/XPath/MutableNodeRefList.hpp>
#include <xalanc/XPath/XObject.hpp>
#include <xalanc/XPath/XPathEvaluator.hpp>
#include <xalanc/XPath/XPath.hpp>
#include <xalanc/XPath/NodeRefListBase.hpp>
#include <xalanc/XPath/XPathEnvSupportDefault.hpp>
#include <xalanc/XPath/XPathExecutionContextDefault.hpp>
#include <xalanc/XPath/XPathConstructionContextDefault.hpp>
#include <xalanc/XPath/XPathProcessorImpl.hpp>
#include <xalanc/XPath/XObjectFactoryDefault.hpp>
#include <xalanc/XPath/ElementPrefixResolverProxy.hpp>
#include <xalanc/XalanSourceTree/XalanSourceTreeDOMSupport.hpp>
#include <xalanc/XalanSourceTree/XalanSourceTreeInit.hpp>
#include <xalanc/XalanSourceTree/XalanSourceTreeParserLiaison.hpp>
#include <xalanc/XercesParserLiaison/XercesParserLiaison.hpp>
#include <xalanc/XercesParserLiaison/XercesDOMSupport.hpp>
#include <xalanc/XalanTransformer/XalanTransformer.hpp>
#include <xalanc/XSLT/XSLTInputSource.hpp>
#include <xalanc/XSLT/XSLTResultTarget.hpp>

using namespace xalanc;
using namespace vh;

namespace {

struct MapResolver : public PrefixResolver
{
    std::map<std::string, XalanDOMString> m;
    XalanDOMString uri;
    virtual const XalanDOMString* getNamespaceForPrefix(const XalanDOMString& prefix) const
    {
        std::map<std::string, XalanDOMString>::const_iterator i = m.find(toUtf8(prefix));
        return i == m.end() ? 0 : &i->second;
    }
    virtual const XalanDOMString& getURI() const { return uri; }
};

struct Doc
{
    virtual ~Doc() {}
    XalanDocument* doc = 0;
    virtual DOMSupport& support() = 0;
};

struct STDoc : Doc
{
    XalanSourceTreeDOMSupport sup;
    XalanSourceTreeParserLiaison liaison;
    STDoc() : sup(), liaison(sup) { sup.setParserLiaison(&liaison); }
    DOMSupport& support() { return sup; }
};

struct XWDoc : Doc
{
    XercesParserLiaison liaison;
    XercesDOMSupport sup;
    XWDoc() : liaison(), sup(liaison) {}
    DOMSupport& support() { return sup; }
};

std::map<std::string, Doc*> g_docs;

struct MemResolver : public xercesc::EntityResolver
{
    std::map<std::string, std::string> res;
    virtual xercesc::InputSource* resolveEntity(const XMLCh* const, const XMLCh* const systemId)
    {
        std::string s = toUtf8(systemId, XalanDOMString::length(systemId));
        // document() hands the resolver the unresolved href, import/include and the parser the absolute URL
        size_t p = s.find("/vmem/");
        std::string name = p == std::string::npos ? s : s.substr(p + 6);
        std::map<std::string, std::string>::const_iterator i = res.find(name);
        if (i == res.end()) return 0;
        xercesc::MemBufInputSource* src = new xercesc::MemBufInputSource(
            (const XMLByte*)i->second.data(), i->second.size(), systemId, false);
        return src;
    }
};

void setNs(MapResolver& r, const std::vector<std::string>& f, size_t from)
{
    for (size_t i = from; i < f.size(); ++i)
    {
        size_t e = f[i].find('=');
        if (e == std::string::npos) continue;
        r.m[f[i].substr(0, e)] = dom(f[i].substr(e + 1));
    }
}

std::string joinPaths(const NodeRefListBase& l)
{
    std::string o;
    for (NodeRefListBase::size_type i = 0; i < l.getLength(); ++i)
    {
        if (i) o += ' ';
        std::string p = nodePath(l.item(i));
        o += p.empty() ? "/" : p;
    }
    return o;
}

std::string cmdDoc(const std::vector<std::string>& f)
{
    if (f.size() < 4) return "e\tbad request";
    std::map<std::string, Doc*>::iterator old = g_docs.find(f[1]);
    if (old != g_docs.end()) { delete old->second; g_docs.erase(old); }
    const std::string& xml = f[3];
    xercesc::MemBufInputSource src((const XMLByte*)xml.data(), xml.size(), "file:///vmem/doc.xml", false);
    Doc* d = 0;
    if (f[2] == "st")
    {
        STDoc* s = new STDoc; d = s;
        try { s->doc = s->liaison.parseXMLStream(src); } catch (...) { delete d; throw; }
    }
    else
    {
        XWDoc* s = new XWDoc; d = s;
        if (f[2] == "xm") { s->liaison.setBuildWrapperNodes(false); s->liaison.setBuildMaps(true); }
        else { s->liaison.setBuildWrapperNodes(true); s->liaison.setBuildMaps(true); }
        try { s->doc = s->liaison.parseXMLStream(src); } catch (...) { delete d; throw; }
    }
    if (d->doc == 0) { delete d; return "e\tno document"; }
    g_docs[f[1]] = d;
    std::vector<std::pair<std::string, const XalanNode*> > all;
    walkPaths(d->doc, "", all);
    std::string o = "ok\t";
    for (size_t i = 0; i < all.size(); ++i)
    {
        if (i) o += ' ';
        o += all[i].first.empty() ? "/" : all[i].first;
    }
    return o;
}

std::string xobjText(const XObjectPtr& r, XPathExecutionContext& ctx)
{
    if (r.null()) return "o\tnull";
    switch (r->getType())
    {
    case XObject::eTypeBoolean: return std::string("b\t") + (r->boolean(ctx) ? "1" : "0");
    case XObject::eTypeNumber: return "n\t" + hexDouble(r->num(ctx));
    case XObject::eTypeString: return "s\t" + esc(toUtf8(r->str(ctx)));
    case XObject::eTypeNodeSet: return "ns\t" + joinPaths(r->nodeset());
    case XObject::eTypeResultTreeFrag: return "rtf\t" + esc(toUtf8(r->str(ctx)));
    default: return "o\t" + std::to_string((int)r->getType());
    }
}

std::string cmdXp(const std::vector<std::string>& f)
{
    if (f.size() < 4) return "e\tbad request";
    std::map<std::string, Doc*>::iterator it = g_docs.find(f[1]);
    if (it == g_docs.end()) return "e\tno such slot";
    Doc& d = *it->second;
    XalanNode* ctx = findByPath(d.doc, f[2] == "/" ? "" : f[2]);
    if (ctx == 0) return "e\tno such context";
    MapResolver pr;
    setNs(pr, f, 4);
    XPathEvaluator ev;
    XalanDOMString expr = dom(f[3]);
    const XObjectPtr r(ev.evaluate(d.support(), ctx, expr.c_str(), pr));
    return xobjText(r, ev.getExecutionContext());
}

// xpall <slot> <expr> [p=uri ...] -> one field per node of the document (walk order): the result with that node as context
std::string cmdXpAll(const std::vector<std::string>& f)
{
    if (f.size() < 3) return "e\tbad request";
    std::map<std::string, Doc*>::iterator it = g_docs.find(f[1]);
    if (it == g_docs.end()) return "e\tno such slot";
    Doc& d = *it->second;
    MapResolver pr;
    setNs(pr, f, 3);
    XPathEvaluator ev;
    XalanDOMString expr = dom(f[2]);
    XPath* xp = 0;
    try { xp = ev.createXPath(expr.c_str(), pr); }
    catch (const XSLException& e) { return "ce\t" + esc(excText(e)); }
    std::vector<std::pair<std::string, const XalanNode*> > all;
    walkPaths(d.doc, "", all);
    std::string o = "ok";
    for (size_t i = 0; i < all.size(); ++i)
    {
        std::string r;
        try
        {
            const XObjectPtr v(ev.evaluate(d.support(), const_cast<XalanNode*>(all[i].second), *xp, pr));
            r = xobjText(v, ev.getExecutionContext());
        }
        catch (const XSLException& e) { r = "e\t" + esc(excText(e)); }
        // nested field: replace the TAB separating type and value by 0x1f
        for (size_t k = 0; k < r.size(); ++k) if (r[k] == '\t') r[k] = '\x1f';
        o += "\t" + r;
    }
    ev.destroyXPath(xp);
    return o;
}

struct CharSink : public FormatterListener
{
    XalanDOMString text;
    CharSink() : FormatterListener(OUTPUT_METHOD_NONE), text() {}
    void charactersRaw(const XMLCh* const c, const size_type n) { text.append(c, n); }
    void comment(const XMLCh* const) {}
    void cdata(const XMLCh* const c, const size_type n) { text.append(c, n); }
    void entityReference(const XMLCh* const) {}
    void characters(const XMLCh* const c, const size_type n) { text.append(c, n); }
    void endDocument() {}
    void endElement(const XMLCh* const) {}
    void ignorableWhitespace(const XMLCh* const, const size_type) {}
    void processingInstruction(const XMLCh* const, const XMLCh* const) {}
    void resetDocument() {}
    void setDocumentLocator(const Locator* const) {}
    void startDocument() {}
    void startElement(const XMLCh* const, AttributeList&) {}
};

static bool sameNum(double a, double b)
{
    if (a != a || b != b) return a != a && b != b;
    return memcmp(&a, &b, 8) == 0;
}

// xp6all <slot> <expr> [p=uri ...] -> per node of the document: "ok" or "e" (generic evaluation raised and so did every
// overload) or a list of disagreements between the typed XPath::execute overloads and the generic result + conversion
std::string cmdXp6All(const std::vector<std::string>& f)
{
    if (f.size() < 3) return "e\tbad request";
    std::map<std::string, Doc*>::iterator it = g_docs.find(f[1]);
    if (it == g_docs.end()) return "e\tno such slot";
    Doc& d = *it->second;
    MapResolver pr;
    setNs(pr, f, 3);
    MemoryManager& mm = XalanMemMgrs::getDefaultXercesMemMgr();
    XPathEnvSupportDefault env(mm);
    XObjectFactoryDefault xof(mm);
    XPathExecutionContextDefault ec(env, d.support(), xof);
    XPathConstructionContextDefault cc(mm);
    XPathProcessorImpl proc(mm);
    XPath xp(mm);
    try { proc.initXPath(xp, cc, dom(f[2]), pr); }
    catch (const XSLException& e) { return "ce\t" + esc(excText(e)); }
    std::vector<std::pair<std::string, const XalanNode*> > all;
    walkPaths(d.doc, "", all);
    std::string o = "ok";
    for (size_t i = 0; i < all.size(); ++i)
    {
        XalanNode* ctx = const_cast<XalanNode*>(all[i].second);
        MutableNodeRefList ctxList(mm);
        ctxList.addNode(ctx);
        std::string r;
        bool gErr = false;
        XObjectPtr g;
        try { g = xp.execute(ctx, pr, ctxList, ec); } catch (const XSLException&) { gErr = true; }
        // 1. boolean
        {
            bool b = false, err = false;
            try { xp.execute(ctx, pr, ctxList, ec, b); } catch (const XSLException&) { err = true; }
            if (err != gErr) r += std::string("|bool:error-mismatch:") + (err ? "overload-throws" : "generic-throws");
            else if (!gErr && b != g->boolean(ec)) r += std::string("|bool:") + (b ? "1" : "0");
        }
        // 2. number
        {
            double v = 0; bool err = false;
            try { xp.execute(ctx, pr, ctxList, ec, v); } catch (const XSLException&) { err = true; }
            if (err != gErr) r += std::string("|num:error-mismatch:") + (err ? "overload-throws" : "generic-throws");
            else if (!gErr && !sameNum(v, g->num(ec))) r += "|num:" + hexDouble(v) + "!=" + hexDouble(g->num(ec));
        }
        // 3. string, into an empty and into a non-empty target (uniformly append)
        {
            XalanDOMString s1(mm), s2(mm); bool err = false;
            s2 = dom("PRE");
            try { xp.execute(ctx, pr, ctxList, ec, s1); xp.execute(ctx, pr, ctxList, ec, s2); } catch (const XSLException&) { err = true; }
            if (err != gErr) r += std::string("|str:error-mismatch:") + (err ? "overload-throws" : "generic-throws");
            else if (!gErr)
            {
                const XalanDOMString& gs = g->str(ec);
                if (!(s1 == gs)) r += "|str:'" + toUtf8(s1) + "'!='" + toUtf8(gs) + "'";
                XalanDOMString want(mm); want = dom("PRE"); want.append(gs);
                if (!(s2 == want)) r += "|str-append:'" + toUtf8(s2) + "'";
            }
        }
        // 4. character events
        {
            CharSink sink; bool err = false;
            try { xp.execute(ctx, pr, ctxList, ec, sink, &FormatterListener::characters); } catch (const XSLException&) { err = true; }
            if (err != gErr) r += std::string("|chars:error-mismatch:") + (err ? "overload-throws" : "generic-throws");
            else if (!gErr && !(sink.text == g->str(ec))) r += "|chars:'" + toUtf8(sink.text) + "'";
        }
        // 5. node list (node-set expressions only; an error for the others)
        {
            MutableNodeRefList l(mm); bool err = false; XObjectPtr x;
            try { x = xp.execute(ctx, pr, ctxList, ec, l); } catch (const XSLException&) { err = true; }
            const bool isNs = !gErr && g->getType() == XObject::eTypeNodeSet;
            if (isNs)
            {
                if (err) r += "|nodelist:overload-throws";
                else
                {
                    const NodeRefListBase& got = x.null() ? (const NodeRefListBase&)l : x->nodeset();
                    const NodeRefListBase& want = g->nodeset();
                    bool same = got.getLength() == want.getLength();
                    for (NodeRefListBase::size_type k = 0; same && k < got.getLength(); ++k) same = got.item(k) == want.item(k);
                    if (!same) r += "|nodelist:" + joinPaths(got) + "!=" + joinPaths(want);
                }
            }
            else if (!gErr && !err) r += "|nodelist:accepts-non-node-set";
            else if (gErr && !err) r += "|nodelist:error-mismatch:generic-throws";
        }
        o += "\t" + (r.empty() ? std::string(gErr ? "e" : "ok") : r.substr(1));
    }
    return o;
}

std::string cmdMatch(const std::vector<std::string>& f)
{
    if (f.size() < 3) return "e\tbad request";
    std::map<std::string, Doc*>::iterator it = g_docs.find(f[1]);
    if (it == g_docs.end()) return "e\tno such slot";
    Doc& d = *it->second;
    MapResolver pr;
    setNs(pr, f, 3);
    MemoryManager& mm = XalanMemMgrs::getDefaultXercesMemMgr();
    XPathEnvSupportDefault env(mm);
    XObjectFactoryDefault xof(mm);
    XPathExecutionContextDefault ec(env, d.support(), xof);
    XPathConstructionContextDefault cc(mm);
    XPathProcessorImpl proc(mm);
    XPath xp(mm);
    proc.initMatchPattern(xp, cc, dom(f[2]), pr);
    std::vector<std::pair<std::string, const XalanNode*> > all;
    walkPaths(d.doc, "", all);
    std::string o = "ok\t";
    bool first = true;
    for (size_t i = 0; i < all.size(); ++i)
    {
        XPath::eMatchScore s = xp.getMatchScore(const_cast<XalanNode*>(all[i].second), pr, ec);
        if (s != XPath::eMatchScoreNone)
        {
            if (!first) o += ' ';
            first = false;
            o += all[i].first.empty() ? "/" : all[i].first;
        }
    }
    return o;
}

struct StringSink
{
    std::string out;
    static CallbackSizeType write(const char* p, CallbackSizeType n, void* h)
    {
        static_cast<StringSink*>(h)->out.append(p, n);
        return n;
    }
    static void flush(void*) {}
};

XalanTransformer* g_reused = 0;

std::string cmdTr(const std::vector<std::string>& f)
{
    if (f.size() < 3) return "e\tbad request";
    MemResolver resolver;
    std::map<std::string, std::string> opts;
    std::vector<std::pair<std::string, std::string> > params;
    for (size_t i = 3; i < f.size(); ++i)
    {
        const std::string& a = f[i];
        if (a.size() < 3 || a[1] != ':') continue;
        size_t e = a.find('=');
        if (e == std::string::npos) continue;
        std::string k = a.substr(2, e - 2), v = a.substr(e + 1);
        if (a[0] == 'p') params.push_back(std::make_pair(k, v));
        else if (a[0] == 'r') resolver.res[k] = v;
        else if (a[0] == 'o') opts[k] = v;
    }
    const bool reuse = opts.count("reuse") != 0;
    XalanTransformer* tp = 0;
    if (reuse)
    {
        if (g_reused == 0) g_reused = new XalanTransformer;
        tp = g_reused;
    }
    else
        tp = new XalanTransformer;
    XalanTransformer& t = *tp;
    struct Del { XalanTransformer* p; bool own; ~Del() { if (own) delete p; } } del = { tp, !reuse };
    t.setWarningStream(0);
    t.setErrorStream(0);
    t.setEntityResolver(&resolver);
    t.clearStylesheetParams();
    for (size_t i = 0; i < params.size(); ++i)
        t.setStylesheetParam(dom(params[i].first), dom(params[i].second));
    if (opts.count("conflictwarn")) setenv("XALAN_VERIF_CONFLICT_WARNINGS", "1", 1); else unsetenv("XALAN_VERIF_CONFLICT_WARNINGS");
    if (opts.count("indent")) t.setIndent(atoi(opts["indent"].c_str()));
    if (opts.count("encoding")) t.setOutputEncoding(dom(opts["encoding"]));

    const std::string& xsl = f[1];
    const std::string& xml = f[2];
    std::istringstream xslSrc(xsl), xmlSrc(xml);
    StringSink sink;
    XSLTResultTarget target;
    int rc;
    std::string kind = opts.count("srckind") ? opts["srckind"] : "stream";
    XSLTInputSource xslIn(&xslSrc), xmlIn(&xmlSrc);
    xslIn.setSystemId(dom("file:///vmem/main.xsl").c_str());
    xmlIn.setSystemId(dom("file:///vmem/doc.xml").c_str());
    if (kind == "stream")
    {
        rc = t.transform(xmlIn, xslIn, &sink, StringSink::write, StringSink::flush);
    }
    else
    {
        const XalanParsedSource* ps = 0;
        rc = t.parseSource(xmlIn, ps, kind == "xw");
        if (rc == 0)
        {
            const XalanCompiledStylesheet* cs = 0;
            rc = t.compileStylesheet(xslIn, cs);
            if (rc == 0)
            {
                XSLTResultTarget tgt;
                rc = t.transform(*ps, cs, &sink, StringSink::write, StringSink::flush);
                // keep error text before destroy
            }
            std::string err = t.getLastError() ? t.getLastError() : "";
            if (cs) t.destroyStylesheet(cs);
            if (ps) t.destroyParsedSource(ps);
            t.setEntityResolver(0);
            return std::to_string(rc) + "\t" + esc(rc ? err : "") + "\t" + esc(sink.out);
        }
    }
    std::string err = (rc != 0 && t.getLastError()) ? t.getLastError() : "";
    t.setEntityResolver(0);
    return std::to_string(rc) + "\t" + esc(err) + "\t" + esc(sink.out);
}

} // namespace

int main()
{
    xercesc::XMLPlatformUtils::Initialize();
    XalanTransformer::initialize();
    {
        std::ios::sync_with_stdio(false);
        std::string line;
        while (std::getline(std::cin, line))
        {
            std::vector<std::string> f = splitTabs(line);
            std::string reply;
            if (f.empty() || f[0] == "quit") break;
            try
            {
                if (f[0] == "doc") reply = cmdDoc(f);
                else if (f[0] == "xp") reply = cmdXp(f);
                else if (f[0] == "match") reply = cmdMatch(f);
                else if (f[0] == "xpall") reply = cmdXpAll(f);
                else if (f[0] == "xp6all") reply = cmdXp6All(f);
                else if (f[0] == "tr") reply = cmdTr(f);
                else if (f[0] == "ping") reply = "pong";
                else reply = "e\tunknown command";
            }
            catch (const XSLException& e) { reply = "e\t" + esc(excText(e)); }
            catch (const xercesc::XMLException& e) { reply = "e\tXMLException " + esc(toUtf8(e.getMessage(), XalanDOMString::length(e.getMessage()))); }
            catch (const xercesc::SAXException& e) { reply = "e\tSAXException " + esc(toUtf8(e.getMessage(), XalanDOMString::length(e.getMessage()))); }
            catch (const XalanDOMException& e) { reply = "e\tXalanDOMException " + std::to_string((int)e.getExceptionCode()); }
            catch (const std::exception& e) { reply = std::string("e\tstd::exception ") + e.what(); }
            catch (...) { reply = "e\tunknown exception"; }
            std::cout << reply << "\n" << std::flush;
        }
        for (std::map<std::string, Doc*>::iterator i = g_docs.begin(); i != g_docs.end(); ++i) delete i->second;
        delete g_reused;
    }
    XalanTransformer::terminate();
    xercesc::XMLPlatformUtils::Terminate();
    return 0;
}
