// Crash-isolated enumeration for C++ harnesses.
//
// runIsolated(N, shard, nshards, fn): evaluates fn(i, out) for every i in [0,N) with i % nshards == shard inside
// forked children. The child publishes the in-flight index in a shared page; if it dies (signal, sanitizer
// abort, timeout) the parent emits a "fatal" violation for that index and restarts at the next one.
// Output protocol on stdout (TAB separated, escaped; read by lib/vlib.py: run_cpp_sharded):
//     count <name> <n>          additive counters
//     viol  <signature> <detail>
//     sample <text>
#pragma once
#include <cstdint>
#include <cstdio>
#include <cstdlib>
#include <cstring>
#include <string>
#include <map>
#include <vector>
#include <functional>
#include <unistd.h>
#include <signal.h>
#include <sys/mman.h>
#include <sys/wait.h>

namespace vh {

struct Out
{
    std::map<std::string, long long> counts;
    std::vector<std::pair<std::string, std::string> > viols;
    std::vector<std::string> samples;
    size_t maxViols = 2000;
    void count(const std::string& k, long long n = 1) { counts[k] += n; }
    void viol(const std::string& sig, const std::string& detail)
    {
        counts["violations_raw"] += 1;
        if (viols.size() < maxViols) viols.push_back(std::make_pair(sig, detail));
    }
    void sample(const std::string& s) { if (samples.size() < 3) samples.push_back(s); }
};

inline std::string escField(const std::string& s)
{
    std::string o;
    for (unsigned char c : s)
    {
        switch (c)
        {
        case '\\': o += "\\\\"; break;
        case '\t': o += "\\t"; break;
        case '\n': o += "\\n"; break;
        case '\r': o += "\\r"; break;
        case 0: o += "\\0"; break;
        default: o += (char)c;
        }
    }
    return o;
}

inline void flushOut(Out& o, FILE* f)
{
    for (auto& kv : o.counts) fprintf(f, "count\t%s\t%lld\n", kv.first.c_str(), kv.second);
    for (auto& v : o.viols) fprintf(f, "viol\t%s\t%s\n", escField(v.first).c_str(), escField(v.second).c_str());
    for (auto& s : o.samples) fprintf(f, "sample\t%s\n", escField(s).c_str());
    fflush(f);
    o.counts.clear(); o.viols.clear(); o.samples.clear();
}

struct SharedPage { volatile uint64_t inflight; volatile uint64_t done; };

// describe(i) renders case i for the fatal-outcome report. perCaseTimeoutS bounds one case.
inline void runIsolated(
        uint64_t N, int shard, int nshards,
        const std::function<void(uint64_t, Out&)>& fn,
        const std::function<std::pair<std::string, std::string>(uint64_t)>& describe, // (signature part, exact case text)
        const std::string& fatalSigPrefix,
        unsigned perCaseTimeoutS = 20)
{
    SharedPage* sp = (SharedPage*)mmap(0, 4096, PROT_READ | PROT_WRITE, MAP_SHARED | MAP_ANONYMOUS, -1, 0);
    uint64_t next = (uint64_t)shard;
    int restarts = 0;
    while (next < N)
    {
        sp->inflight = next;
        sp->done = 0;
        fflush(stdout);
        pid_t pid = fork();
        if (pid == 0)
        {
            Out out;
            for (uint64_t i = next; i < N; i += (uint64_t)nshards)
            {
                sp->inflight = i;
                alarm(perCaseTimeoutS);
                fn(i, out);
                if (out.viols.size() > 500 || ((i / nshards) & 2047) == 2047) flushOut(out, stdout);
            }
            alarm(0);
            flushOut(out, stdout);
            sp->done = 1;
            fflush(stdout);
            _exit(0);
        }
        int st = 0;
        waitpid(pid, &st, 0);
        if (sp->done) break;
        // abnormal end: report the in-flight case and continue after it
        uint64_t bad = sp->inflight;
        Out o;
        std::string how = WIFSIGNALED(st) ? ("signal " + std::to_string(WTERMSIG(st))) : ("exit " + std::to_string(WEXITSTATUS(st)));
        if (WIFSIGNALED(st) && WTERMSIG(st) == SIGALRM) how = "timeout";
        std::pair<std::string, std::string> d = describe(bad);
        o.viol(fatalSigPrefix + "|fatal|" + how + "|" + d.first, "case index " + std::to_string(bad) + " (" + d.second + ") ended the worker: " + how);
        o.count("fatal_outcomes");
        flushOut(o, stdout);
        next = bad + (uint64_t)nshards;
        if (++restarts > 5000) { fprintf(stdout, "count\trestart_cap_hit\t1\n"); break; }
    }
    munmap(sp, 4096);
}

} // namespace vh
