// C05: one transformation per request, in a named (source form, stylesheet form, result form, API layer) combination, on a
// brand-new transformer.  The Python side (checks/c05.py) enumerates the complete product and compares every result with
// the baseline combination's.
//
// usage:   c05 <scratch directory>            (every named text is also written to <dir>/<NAME>; file based forms use it)
// request: def:<NAME>=<text> [def:...]                                     -> ok
//          run <src> <sty> <res> <layer> <S> <D> [p:<name>=<expr>|n:<name>=<number>]...
//                                                                           -> <rc> <err-present> <result> <error text> <info>
//                                                                           -> na <reason>          (combination does not exist)
//   src:   file | stream | parsed | parsed-xerces | xerces-wrap | builder | builder-split | st-wrap
//   sty:   stream | file | compiled | compiled-file | pi
//   res:   file | ostream | callback | cdata | xerces-dom | source-tree | xerces-frag | source-tree-frag
//          (xerces-dom / source-tree: formatter on a Document as in the samples; -frag: the same formatters on a
//           DocumentFragment of that document, the variant that can hold text at the top level)
//   layer: cpp | c          (the command line program is driven by checks/c05.py: layer cli -> na here)
// For res = xerces-dom / source-tree the result TREE is walked by this file (own serializer: no library serializer involved).
// C05_MUTANT=<n> (compile time) plants a harness-side fault for the sensitivity demonstration; never set in the real build.
#include "common.hpp"

#include <fstream>
#include <memory>
#include <algorithm>
#include <unistd.h>
#include <sys/stat.h>

#include <xercesc/sax/EntityResolver.hpp>
#include <xercesc/sax/ErrorHandler.hpp>
#include <xercesc/sax/SAXParseException.hpp>
#include <xercesc/sax2/SAX2XMLReader.hpp>
#include <xercesc/sax2/XMLReaderFactory.hpp>
#include <xercesc/sax2/ContentHandler.hpp>
#include <xercesc/sax2/LexicalHandler.hpp>
#include <xercesc/sax2/Attributes.hpp>
#include <xercesc/sax/DTDHandler.hpp>
#include <xercesc/parsers/XercesDOMParser.hpp>
#include <xercesc/dom/DOM.hpp>
#include <xercesc/util/XMLUni.hpp>

#include <xalanc/XalanTransformer/XalanTransformer.hpp>
#include <xalanc/XalanTransformer/XalanCAPI.h>
#include <xalanc/XalanTransformer/XalanCompiledStylesheet.hpp>
#include <xalanc/XalanTransformer/XalanParsedSource.hpp>
#include <xalanc/XalanTransformer/XalanDocumentBuilder.hpp>
#include <xalanc/XalanTransformer/XercesDOMWrapperParsedSource.hpp>
#include <xalanc/XalanTransformer/XalanSourceTreeWrapperParsedSource.hpp>
#include <xalanc/XalanTransformer/XalanTransformerOutputStream.hpp>
#include <xalanc/PlatformSupport/XalanOutputStreamPrintWriter.hpp>
#include <xalanc/XSLT/XSLTInputSource.hpp>
#include <xalanc/XSLT/XSLTResultTarget.hpp>
#include <xalanc/XercesParserLiaison/XercesParserLiaison.hpp>
#include <xalanc/XercesParserLiaison/XercesDOMSupport.hpp>
#include <xalanc/XercesParserLiaison/FormatterToXercesDOM.hpp>
#include <xalanc/XalanSourceTree/XalanSourceTreeParserLiaison.hpp>
#include <xalanc/XalanSourceTree/XalanSourceTreeDOMSupport.hpp>
#include <xalanc/XalanSourceTree/XalanSourceTreeDocument.hpp>
#include <xalanc/XalanSourceTree/XalanSourceTreeDocumentFragment.hpp>
#include <xalanc/XalanSourceTree/FormatterToSourceTree.hpp>

using namespace xalanc;
using namespace vh;

#if !defined(C05_MUTANT)
#define C05_MUTANT 0
#endif

static std::string g_dir;
static std::map<std::string, std::string> g_defs;

static std::string pathOf(const std::string& name) { return g_dir + "/" + name; }
static std::string urlOf(const std::string& name) { return "file://" + g_dir + "/" + name; }

static bool readFile(const std::string& p, std::string& out)
{
    std::ifstream f(p.c_str(), std::ios::binary);
    if (!f) return false;
    std::ostringstream s;
    s << f.rdbuf();
    out = s.str();
    return true;
}

static void writeFile(const std::string& p, const std::string& text)
{
    std::ofstream f(p.c_str(), std::ios::binary | std::ios::trunc);
    f.write(text.data(), text.size());
}

// ---------------------------------------------------------------------------------------------------------------------
struct MemResolver : public xercesc::EntityResolver
{
    unsigned calls;
    MemResolver() : calls(0) {}
    virtual xercesc::InputSource* resolveEntity(const XMLCh* const, const XMLCh* const systemId)
    {
        ++calls;
        std::string s = toUtf8(systemId, XalanDOMString::length(systemId));
        size_t p = s.rfind('/');
        std::string name = p == std::string::npos ? s : s.substr(p + 1);
        std::map<std::string, std::string>::const_iterator i = g_defs.find(name);
        if (i == g_defs.end()) return 0;
        return new xercesc::MemBufInputSource((const XMLByte*)i->second.data(), i->second.size(), systemId, false);
    }
};

struct ParseFailure
{
    std::string msg;
    explicit ParseFailure(const std::string& m) : msg(m) {}
};

struct ThrowingErrorHandler : public xercesc::ErrorHandler
{
    virtual void warning(const xercesc::SAXParseException&) {}
    virtual void error(const xercesc::SAXParseException&) {}     // validity errors only (validation is off anyway)
    virtual void fatalError(const xercesc::SAXParseException& e)
    {
        throw ParseFailure("fatal: " + toUtf8(e.getMessage(), XalanDOMString::length(e.getMessage())));
    }
    virtual void resetErrors() {}
};

// forwards SAX2 content events; characters() is re-issued one character (one surrogate pair) at a time
struct SplittingHandler : public xercesc::ContentHandler
{
    xercesc::ContentHandler* m_to;
    unsigned long m_events;
    bool m_split;
    unsigned long m_calls, m_dropCall;      // (sensitivity mutant only) swallow the m_dropCall-th characters() call
    explicit SplittingHandler(xercesc::ContentHandler* to, bool split = true) : m_to(to), m_events(0), m_split(split), m_calls(0), m_dropCall(0) {}
    virtual void characters(const XMLCh* const chars, const XMLSize_t length)
    {
        ++m_calls;
        if (m_to == 0 || m_calls == m_dropCall) return;
        if (!m_split) { m_to->characters(chars, length); return; }
        XMLSize_t i = 0;
        while (i < length)
        {
            XMLSize_t n = 1;
            if (chars[i] >= 0xD800 && chars[i] < 0xDC00 && i + 1 < length) n = 2;
            m_to->characters(chars + i, n);
            ++m_events;
            i += n;
        }
    }
    virtual void endDocument() { if (m_to != 0) m_to->endDocument(); }
    virtual void endElement(const XMLCh* const uri, const XMLCh* const localname, const XMLCh* const qname) { if (m_to != 0) m_to->endElement(uri, localname, qname); }
    virtual void ignorableWhitespace(const XMLCh* const chars, const XMLSize_t length) { if (m_to != 0) m_to->ignorableWhitespace(chars, length); }
    virtual void processingInstruction(const XMLCh* const target, const XMLCh* const data) { if (m_to != 0) m_to->processingInstruction(target, data); }
    virtual void setDocumentLocator(const xercesc::Locator* const locator) { if (m_to != 0) m_to->setDocumentLocator(locator); }
    virtual void startDocument() { if (m_to != 0) m_to->startDocument(); }
    virtual void startElement(const XMLCh* const uri, const XMLCh* const localname, const XMLCh* const qname, const xercesc::Attributes& attrs) { if (m_to != 0) m_to->startElement(uri, localname, qname, attrs); }
    virtual void startPrefixMapping(const XMLCh* const prefix, const XMLCh* const uri) { if (m_to != 0) m_to->startPrefixMapping(prefix, uri); }
    virtual void endPrefixMapping(const XMLCh* const prefix) { if (m_to != 0) m_to->endPrefixMapping(prefix); }
    virtual void skippedEntity(const XMLCh* const name) { if (m_to != 0) m_to->skippedEntity(name); }
};

// ---------------------------------------------------------------------------------------------------------------------
// chunk collecting callback
struct ChunkSink
{
    std::string out;
    unsigned long chunks, maxChunk, flushes, writesAfterLastFlush;
    ChunkSink() : chunks(0), maxChunk(0), flushes(0), writesAfterLastFlush(0) {}
    static CallbackSizeType write(const char* p, CallbackSizeType n, void* h)
    {
        ChunkSink* s = static_cast<ChunkSink*>(h);
#if C05_MUTANT == 2
        if (s->out.size() + n > 512) { size_t keep = s->out.size() >= 512 ? 0 : 512 - s->out.size(); s->out.append(p, keep); return n; }
#endif
        s->out.append(p, n);
        ++s->chunks;
        ++s->writesAfterLastFlush;
        if (n > s->maxChunk) s->maxChunk = n;
        return n;
    }
    static void flush(void* h)
    {
        ChunkSink* s = static_cast<ChunkSink*>(h);
        ++s->flushes;
        s->writesAfterLastFlush = 0;
    }
};

// ---------------------------------------------------------------------------------------------------------------------
// canonical serializer for result trees (own code: the comparison is about the tree, not about a library serializer)
static void escText(const std::string& s, std::string& o)
{
    for (unsigned char c : s)
    {
        switch (c)
        {
        case '&': o += "&amp;"; break;
        case '<': o += "&lt;"; break;
        case '>': o += "&gt;"; break;
        case '\r': o += "&#13;"; break;
        default: o += (char)c;
        }
    }
}

static void escAttr(const std::string& s, std::string& o)
{
    for (unsigned char c : s)
    {
        switch (c)
        {
        case '&': o += "&amp;"; break;
        case '<': o += "&lt;"; break;
        case '"': o += "&quot;"; break;
        case '\t': o += "&#9;"; break;
        case '\n': o += "&#10;"; break;
        case '\r': o += "&#13;"; break;
        default: o += (char)c;
        }
    }
}

static std::string u8(const XMLCh* s) { return s == 0 ? std::string() : toUtf8(s, XalanDOMString::length(s)); }

static void walkXerces(const xercesc::DOMNode* n, std::string& o)
{
    using namespace xercesc;
    switch (n->getNodeType())
    {
    case DOMNode::DOCUMENT_NODE:
    case DOMNode::DOCUMENT_FRAGMENT_NODE:
    case DOMNode::ENTITY_REFERENCE_NODE:
        for (const DOMNode* c = n->getFirstChild(); c != 0; c = c->getNextSibling()) walkXerces(c, o);
        break;
    case DOMNode::ELEMENT_NODE:
        {
            o += "<" + u8(n->getNodeName());
            const DOMNamedNodeMap* a = n->getAttributes();
            std::vector<std::pair<std::string, std::string> > attrs;
            for (XMLSize_t i = 0; a != 0 && i < a->getLength(); ++i)
                attrs.push_back(std::make_pair(u8(a->item(i)->getNodeName()), u8(a->item(i)->getNodeValue())));
            std::sort(attrs.begin(), attrs.end());
            for (size_t i = 0; i < attrs.size(); ++i) { o += " " + attrs[i].first + "=\""; escAttr(attrs[i].second, o); o += "\""; }
            if (n->getFirstChild() == 0) o += "/>";
            else
            {
                o += ">";
                for (const DOMNode* c = n->getFirstChild(); c != 0; c = c->getNextSibling()) walkXerces(c, o);
                o += "</" + u8(n->getNodeName()) + ">";
            }
        }
        break;
    case DOMNode::TEXT_NODE:
    case DOMNode::CDATA_SECTION_NODE:
        escText(u8(n->getNodeValue()), o);
        break;
    case DOMNode::COMMENT_NODE:
        o += "<!--" + u8(n->getNodeValue()) + "-->";
        break;
    case DOMNode::PROCESSING_INSTRUCTION_NODE:
        {
            const std::string d = u8(n->getNodeValue());
            o += "<?" + u8(n->getNodeName()) + (d.empty() ? "" : " " + d) + "?>";
        }
        break;
    default:
        break;
    }
}

static void walkXalan(const XalanNode* n, std::string& o)
{
    switch (n->getNodeType())
    {
    case XalanNode::DOCUMENT_NODE:
    case XalanNode::DOCUMENT_FRAGMENT_NODE:
    case XalanNode::ENTITY_REFERENCE_NODE:
        for (const XalanNode* c = n->getFirstChild(); c != 0; c = c->getNextSibling()) walkXalan(c, o);
        break;
    case XalanNode::ELEMENT_NODE:
        {
            o += "<" + toUtf8(n->getNodeName());
            const XalanNamedNodeMap* a = n->getAttributes();
            std::vector<std::pair<std::string, std::string> > attrs;
            for (XalanSize_t i = 0; a != 0 && i < a->getLength(); ++i)
                attrs.push_back(std::make_pair(toUtf8(a->item(i)->getNodeName()), toUtf8(a->item(i)->getNodeValue())));
            std::sort(attrs.begin(), attrs.end());
            for (size_t i = 0; i < attrs.size(); ++i) { o += " " + attrs[i].first + "=\""; escAttr(attrs[i].second, o); o += "\""; }
            if (n->getFirstChild() == 0) o += "/>";
            else
            {
                o += ">";
                for (const XalanNode* c = n->getFirstChild(); c != 0; c = c->getNextSibling()) walkXalan(c, o);
                o += "</" + toUtf8(n->getNodeName()) + ">";
            }
        }
        break;
    case XalanNode::TEXT_NODE:
    case XalanNode::CDATA_SECTION_NODE:
        escText(toUtf8(n->getNodeValue()), o);
        break;
    case XalanNode::COMMENT_NODE:
        o += "<!--" + toUtf8(n->getNodeValue()) + "-->";
        break;
    case XalanNode::PROCESSING_INSTRUCTION_NODE:
        {
            const std::string d = toUtf8(n->getNodeValue());
            o += "<?" + toUtf8(n->getNodeName()) + (d.empty() ? "" : " " + d) + "?>";
        }
        break;
    default:
        break;
    }
}

// ---------------------------------------------------------------------------------------------------------------------
struct Request
{
    std::string src, sty, res, layer, S, D;
    std::vector<std::pair<std::string, std::string> > exprParams;    // name, XPath expression
    std::vector<std::pair<std::string, double> > numParams;         // name, number
};

struct Outcome
{
    bool na;
    std::string reason;
    int rc;
    std::string err, out, info;
    Outcome() : na(false), rc(0) {}
};

static Outcome notApplicable(const std::string& why)
{
    Outcome o;
    o.na = true;
    o.reason = why;
    return o;
}

static bool isOneOf(const std::string& v, const char* const* list)
{
    for (; *list != 0; ++list) if (v == *list) return true;
    return false;
}

static const char* const SRC_FORMS[] = { "file", "stream", "parsed", "parsed-xerces", "xerces-wrap", "builder", "builder-split", "st-wrap", 0 };
static const char* const STY_FORMS[] = { "stream", "file", "compiled", "compiled-file", "pi", 0 };
static const char* const RES_FORMS[] = { "file", "ostream", "callback", "cdata", "xerces-dom", "source-tree", "xerces-frag", "source-tree-frag", 0 };

static void configureDomParser(xercesc::XercesDOMParser& p, xercesc::ErrorHandler& eh)
{
    p.setDoNamespaces(true);
    p.setValidationScheme(xercesc::XercesDOMParser::Val_Never);
    p.setCreateEntityReferenceNodes(false);
    p.setIncludeIgnorableWhitespace(true);
    p.setErrorHandler(&eh);
}

// ------------------------------------------------------------------------------------------------ C++ API layer
static Outcome runCpp(const Request& rq)
{
    if (rq.res == "cdata") return notApplicable("XalanTransformToData exists in the C API only");
    Outcome o;
    const std::string& stext = g_defs[rq.S];
    const std::string& dtext = g_defs[rq.D];
    const std::string outPath = pathOf("out." + rq.D);
    unlink(outPath.c_str());

    MemResolver resolver;
    ThrowingErrorHandler thrower;
    XalanTransformer t;
    t.setWarningStream(0);
    t.setErrorStream(0);
    t.setEntityResolver(&resolver);
    for (size_t i = 0; i < rq.exprParams.size(); ++i) t.setStylesheetParam(dom(rq.exprParams[i].first), dom(rq.exprParams[i].second));
    for (size_t i = 0; i < rq.numParams.size(); ++i) t.setStylesheetParam(dom(rq.numParams[i].first), rq.numParams[i].second);

    // objects that must outlive the transformation
    std::istringstream dstream(dtext), sstream(stext);
    XSLTInputSource dIn, sIn;
    const XalanParsedSource* parsed = 0;
    const XalanCompiledStylesheet* compiled = 0;
    xercesc::XercesDOMParser domParser;
    XercesParserLiaison xercesLiaison;
    XercesDOMSupport xercesSupport(xercesLiaison);
    XalanSourceTreeParserLiaison stLiaison;
    XalanSourceTreeDOMSupport stSupport(stLiaison);
    std::unique_ptr<XercesDOMWrapperParsedSource> xercesWrapper;
    std::unique_ptr<XalanSourceTreeWrapperParsedSource> stWrapper;
    const XalanDOMString dUri(dom(urlOf(rq.D)));
    const xercesc::MemBufInputSource dMem((const XMLByte*)dtext.data(), dtext.size(), dUri.c_str(), false);

    XalanSourceTreeParserLiaison resultLiaison;
    xercesc::DOMDocument* resultDom = 0;
    XalanSourceTreeDocument* resultTree = 0;
    xercesc::DOMDocumentFragment* resultDomFrag = 0;
    std::unique_ptr<XalanSourceTreeDocumentFragment> resultTreeFrag;
    std::unique_ptr<FormatterToXercesDOM> toDom;
    std::unique_ptr<FormatterToSourceTree> toTree;
    std::ostringstream ostream;
    ChunkSink sink;

    try
    {
        // ---- source
        bool sourceIsInput = false;
        if (rq.src == "file") { dIn = XSLTInputSource(pathOf(rq.D).c_str()); sourceIsInput = true; }
        else if (rq.src == "stream") { dIn = XSLTInputSource(&dstream); dIn.setSystemId(dUri.c_str()); sourceIsInput = true; }
        else if (rq.src == "parsed" || rq.src == "parsed-xerces")
        {
            XSLTInputSource in(&dstream);
            in.setSystemId(dUri.c_str());
            o.rc = t.parseSource(in, parsed, rq.src == "parsed-xerces");
            if (o.rc != 0) { o.err = t.getLastError(); o.info = "parseSource failed"; t.setEntityResolver(0); return o; }
        }
        else if (rq.src == "xerces-wrap")
        {
            configureDomParser(domParser, thrower);
            try { domParser.parse(dMem); }
            catch (const ParseFailure& f) { o.rc = -2; o.err = f.msg; o.info = "own DOM parse failed"; t.setEntityResolver(0); return o; }
            xercesWrapper.reset(new XercesDOMWrapperParsedSource(domParser.getDocument(), xercesLiaison, xercesSupport, dUri));
            parsed = xercesWrapper.get();
        }
        else if (rq.src == "builder" || rq.src == "builder-split")
        {
            XalanDocumentBuilder* const b = t.createDocumentBuilder(dUri);
            SplittingHandler splitter(b->getContentHandler());
            std::unique_ptr<xercesc::SAX2XMLReader> reader(xercesc::XMLReaderFactory::createXMLReader());
            reader->setFeature(xercesc::XMLUni::fgSAX2CoreNameSpaces, true);
            reader->setFeature(xercesc::XMLUni::fgSAX2CoreNameSpacePrefixes, true);
            reader->setFeature(xercesc::XMLUni::fgSAX2CoreValidation, false);
            reader->setFeature(xercesc::XMLUni::fgXercesDynamic, false);
            reader->setFeature(xercesc::XMLUni::fgXercesSchema, false);
            reader->setContentHandler(rq.src == "builder-split" ? static_cast<xercesc::ContentHandler*>(&splitter) : b->getContentHandler());
            reader->setLexicalHandler(b->getLexicalHandler());
            reader->setDTDHandler(b->getDTDHandler());
            reader->setErrorHandler(&thrower);
#if C05_MUTANT == 1
            // planted fault: the (unsplit) document builder form never delivers the last characters() event of the document
            SplittingHandler dropper(b->getContentHandler(), false);
            if (rq.src == "builder")
            {
                SplittingHandler counter(0, false);
                reader->setContentHandler(&counter);
                try { reader->parse(dMem); } catch (const ParseFailure&) {}
                dropper.m_dropCall = counter.m_calls;
                reader->setContentHandler(&dropper);
            }
#endif
            try { reader->parse(dMem); }
            catch (const ParseFailure& f) { o.rc = -2; o.err = f.msg; o.info = "own SAX2 parse failed"; t.setEntityResolver(0); return o; }
            parsed = b;
            char buf[48];
            snprintf(buf, sizeof buf, "charEvents=%lu ", splitter.m_events);
            o.info += buf;
        }
        else if (rq.src == "st-wrap")
        {
            stLiaison.setErrorHandler(&thrower);
            XalanDocument* doc = 0;
            try { doc = stLiaison.parseXMLStream(dMem, dUri); }
            catch (const ParseFailure& f) { o.rc = -2; o.err = f.msg; o.info = "own source tree parse failed"; t.setEntityResolver(0); return o; }
            XalanSourceTreeDocument* const std_ = stLiaison.mapDocument(doc);
            if (std_ == 0) { o.rc = -70; o.err = "mapDocument returned null"; t.setEntityResolver(0); return o; }
            stWrapper.reset(new XalanSourceTreeWrapperParsedSource(std_, stLiaison, stSupport, dUri));
            parsed = stWrapper.get();
        }

        // ---- stylesheet
        bool haveSheetInput = false;
        if (rq.sty == "stream") { sIn = XSLTInputSource(&sstream); sIn.setSystemId(dom(urlOf(rq.S)).c_str()); haveSheetInput = true; }
        else if (rq.sty == "file") { sIn = XSLTInputSource(pathOf(rq.S).c_str()); haveSheetInput = true; }
        else if (rq.sty == "compiled" || rq.sty == "compiled-file")
        {
            if (rq.sty == "compiled") { sIn = XSLTInputSource(&sstream); sIn.setSystemId(dom(urlOf(rq.S)).c_str()); }
            else sIn = XSLTInputSource(pathOf(rq.S).c_str());
            o.rc = t.compileStylesheet(sIn, compiled);
            if (o.rc != 0) { o.err = t.getLastError(); o.info += "compileStylesheet failed"; t.setEntityResolver(0); return o; }
        }
        // "pi": neither

        // ---- result target
        std::unique_ptr<XSLTResultTarget> target;
        std::unique_ptr<XalanTransformerOutputStream> cbStream;
        std::unique_ptr<XalanOutputStreamPrintWriter> cbWriter;
        bool nativeCallback = false;
        if (rq.res == "file") target.reset(new XSLTResultTarget(outPath.c_str()));
        else if (rq.res == "ostream") target.reset(new XSLTResultTarget(ostream));
        else if (rq.res == "xerces-dom")
        {
            resultDom = xercesc::DOMImplementation::getImplementation()->createDocument();
            toDom.reset(new FormatterToXercesDOM(resultDom, 0));
            target.reset(new XSLTResultTarget(*toDom));
        }
        else if (rq.res == "source-tree")
        {
            resultTree = resultLiaison.createXalanSourceTreeDocument();
            toTree.reset(new FormatterToSourceTree(XalanMemMgrs::getDefaultXercesMemMgr(), resultTree));
            target.reset(new XSLTResultTarget(*toTree));
        }
        else if (rq.res == "xerces-frag")
        {
            resultDom = xercesc::DOMImplementation::getImplementation()->createDocument();
            resultDomFrag = resultDom->createDocumentFragment();
            toDom.reset(new FormatterToXercesDOM(resultDom, resultDomFrag, 0));
            target.reset(new XSLTResultTarget(*toDom));
        }
        else if (rq.res == "source-tree-frag")
        {
            resultTree = resultLiaison.createXalanSourceTreeDocument();
            resultTreeFrag.reset(new XalanSourceTreeDocumentFragment(XalanMemMgrs::getDefaultXercesMemMgr(), *resultTree));
            toTree.reset(new FormatterToSourceTree(resultTree, resultTreeFrag.get()));
            target.reset(new XSLTResultTarget(*toTree));
        }
        else if (rq.res == "callback")
        {
            // the transformer has callback overloads for (input, input), (input) and (parsed, compiled); the other pairings
            // get the same output stream class assembled by hand, exactly as those overloads do internally
            nativeCallback = (sourceIsInput && (haveSheetInput || rq.sty == "pi")) || (!sourceIsInput && compiled != 0);
            if (!nativeCallback)
            {
                cbStream.reset(new XalanTransformerOutputStream(XalanMemMgrs::getDefaultXercesMemMgr(), &sink, ChunkSink::write, ChunkSink::flush));
                cbWriter.reset(new XalanOutputStreamPrintWriter(*cbStream));
                target.reset(new XSLTResultTarget(cbWriter.get()));
            }
        }

        // ---- the transformation
        if (rq.res == "callback" && nativeCallback)
        {
            if (sourceIsInput && haveSheetInput) o.rc = t.transform(dIn, sIn, &sink, ChunkSink::write, ChunkSink::flush);
            else if (sourceIsInput) o.rc = t.transform(dIn, &sink, ChunkSink::write, ChunkSink::flush);
            else o.rc = t.transform(*parsed, compiled, &sink, ChunkSink::write, ChunkSink::flush);
            o.info += "native-callback ";
        }
        else if (sourceIsInput)
        {
            if (compiled != 0) o.rc = t.transform(dIn, compiled, *target);
            else if (haveSheetInput) o.rc = t.transform(dIn, sIn, *target);
            else o.rc = t.transform(dIn, *target);
        }
        else
        {
            if (compiled != 0) o.rc = t.transform(*parsed, compiled, *target);
            else if (haveSheetInput) o.rc = t.transform(*parsed, sIn, *target);
            else o.rc = t.transform(*parsed, *target);
        }
        if (o.rc != 0) o.err = t.getLastError();

        // ---- collect
        if (rq.res == "file") { if (!readFile(outPath, o.out)) o.info += "no-output-file "; }
        else if (rq.res == "ostream") o.out = ostream.str();
        else if (rq.res == "callback")
        {
            o.out = sink.out;
            char buf[96];
            snprintf(buf, sizeof buf, "chunks=%lu max=%lu flushes=%lu unflushed=%lu ", sink.chunks, sink.maxChunk, sink.flushes, sink.writesAfterLastFlush);
            o.info += buf;
        }
        else if (rq.res == "xerces-dom") walkXerces(resultDom, o.out);
        else if (rq.res == "source-tree") walkXalan(resultTree, o.out);
        else if (rq.res == "xerces-frag") walkXerces(resultDomFrag, o.out);
        else if (rq.res == "source-tree-frag") walkXalan(resultTreeFrag.get(), o.out);
    }
    catch (const XSLException& e) { o.rc = -90; o.err = "EXC " + excText(e); }
    catch (const xercesc::DOMException& e) { o.rc = -93; o.err = "EXC DOMException " + u8(e.getMessage()); }
    catch (const xercesc::XMLException& e) { o.rc = -94; o.err = "EXC XMLException " + u8(e.getMessage()); }
    catch (const xercesc::SAXException& e) { o.rc = -95; o.err = "EXC SAXException " + u8(e.getMessage()); }
    catch (const ParseFailure& f) { o.rc = -96; o.err = "EXC " + f.msg; }
    catch (const std::exception& e) { o.rc = -91; o.err = std::string("EXC ") + e.what(); }
    catch (...) { o.rc = -92; o.err = "EXC unknown"; }
    toDom.reset();
    toTree.reset();
    resultTreeFrag.reset();
    if (resultDom != 0) resultDom->release();
    if (rq.res == "file") unlink(outPath.c_str());
    {
        char buf[32];
        snprintf(buf, sizeof buf, "resolver=%u", resolver.calls);
        o.info += buf;
    }
    xercesWrapper.reset();
    stWrapper.reset();
    t.setEntityResolver(0);
    return o;
}

// ------------------------------------------------------------------------------------------------ C API layer
// Only XalanCAPI.h functions are used.  There is no way to install an entity resolver: everything is resolved from the files.
static Outcome runC(const Request& rq)
{
    // what exists:  (xml file name, xsl file name | NULL = xml-stylesheet PI) x {ToFile, ToData, ToHandler (file name only)}
    //               (parsed source handle, compiled stylesheet handle)         x {ToFilePrebuilt, ToDataPrebuilt, ToHandlerPrebuilt}
    const bool byName = rq.src == "file";
    const bool prebuilt = rq.src == "stream" || rq.src == "parsed";
    if (!byName && !prebuilt) return notApplicable("C API sources: file name, XalanParseSource(file), XalanParseSourceFromStream");
    if (rq.res != "file" && rq.res != "cdata" && rq.res != "callback") return notApplicable("C API results: file, data, handler");
    if (byName && !(rq.sty == "file" || rq.sty == "pi")) return notApplicable("C API by-name transforms take a stylesheet file name or NULL");
    if (byName && rq.sty == "pi" && rq.res == "callback") return notApplicable("XalanTransformToHandler does not document a NULL stylesheet name");
    if (prebuilt && !(rq.sty == "compiled" || rq.sty == "compiled-file")) return notApplicable("C API prebuilt transforms need a compiled stylesheet");

    Outcome o;
    const std::string& stext = g_defs[rq.S];
    const std::string& dtext = g_defs[rq.D];
    const std::string outPath = pathOf("out." + rq.D);
    const std::string dPath = pathOf(rq.D), sPath = pathOf(rq.S);
    unlink(outPath.c_str());
    ChunkSink sink;

    XalanHandle h = CreateXalanTransformer();
    for (size_t i = 0; i < rq.exprParams.size(); ++i) XalanSetStylesheetParam(rq.exprParams[i].first.c_str(), rq.exprParams[i].second.c_str(), h);
    for (size_t i = 0; i < rq.numParams.size(); ++i) XalanSetStylesheetParamNumber(rq.numParams[i].first.c_str(), rq.numParams[i].second, h);
    XalanPSHandle ps = 0;
    XalanCSSHandle css = 0;
    char* data = 0;
    bool done = false;
    if (prebuilt)
    {
        o.rc = rq.src == "stream" ? XalanParseSourceFromStream(dtext.data(), (unsigned long)dtext.size(), h, &ps) : XalanParseSource(dPath.c_str(), h, &ps);
        if (o.rc != 0) { o.info = "XalanParseSource failed "; done = true; }
        if (!done)
        {
            o.rc = rq.sty == "compiled" ? XalanCompileStylesheetFromStream(stext.data(), (unsigned long)stext.size(), h, &css) : XalanCompileStylesheet(sPath.c_str(), h, &css);
            if (o.rc != 0) { o.info = "XalanCompileStylesheet failed "; done = true; }
        }
        if (!done)
        {
            if (rq.res == "file") o.rc = XalanTransformToFilePrebuilt(ps, css, outPath.c_str(), h);
            else if (rq.res == "cdata") o.rc = XalanTransformToDataPrebuilt(ps, css, &data, h);
            else o.rc = XalanTransformToHandlerPrebuilt(ps, css, h, &sink, ChunkSink::write, ChunkSink::flush);
        }
    }
    else
    {
        const char* const xsl = rq.sty == "pi" ? 0 : sPath.c_str();
        if (rq.res == "file") o.rc = XalanTransformToFile(dPath.c_str(), xsl, outPath.c_str(), h);
        else if (rq.res == "cdata") o.rc = XalanTransformToData(dPath.c_str(), xsl, &data, h);
        else o.rc = XalanTransformToHandler(dPath.c_str(), xsl, h, &sink, ChunkSink::write, ChunkSink::flush);
    }
    if (o.rc != 0) { const char* e = XalanGetLastError(h); o.err = e ? e : ""; }
    if (rq.res == "file") { if (!readFile(outPath, o.out)) o.info += "no-output-file "; unlink(outPath.c_str()); }
    else if (rq.res == "cdata") { if (data != 0) { o.out = data; XalanFreeData(data); } else o.info += "no-data "; }
    else
    {
        o.out = sink.out;
        char buf[96];
        snprintf(buf, sizeof buf, "chunks=%lu max=%lu flushes=%lu unflushed=%lu ", sink.chunks, sink.maxChunk, sink.flushes, sink.writesAfterLastFlush);
        o.info += buf;
    }
    if (css != 0) XalanDestroyCompiledStylesheet(css, h);
    if (ps != 0) XalanDestroyParsedSource(ps, h);
    DeleteXalanTransformer(h);
    return o;
}

static std::string handleRun(const std::vector<std::string>& f)
{
    if (f.size() < 7) return "e\tusage: run src sty res layer S D [params]";
    Request rq;
    rq.src = f[1]; rq.sty = f[2]; rq.res = f[3]; rq.layer = f[4]; rq.S = f[5]; rq.D = f[6];
    for (size_t i = 7; i < f.size(); ++i)
    {
        const size_t e = f[i].find('=');
        if (e == std::string::npos || f[i].size() < 3 || f[i][1] != ':') return "e\tbad parameter " + f[i];
        const std::string name = f[i].substr(2, e - 2), val = f[i].substr(e + 1);
        if (f[i][0] == 'p') rq.exprParams.push_back(std::make_pair(name, val));
        else if (f[i][0] == 'n') rq.numParams.push_back(std::make_pair(name, atof(val.c_str())));
        else return "e\tbad parameter kind " + f[i];
    }
    if (!isOneOf(rq.src, SRC_FORMS) || !isOneOf(rq.sty, STY_FORMS) || !isOneOf(rq.res, RES_FORMS)) return "e\tunknown form";
    if (g_defs.find(rq.S) == g_defs.end() || g_defs.find(rq.D) == g_defs.end()) return "e\tundefined text";
    Outcome o;
    if (rq.layer == "cpp") o = runCpp(rq);
    else if (rq.layer == "c") o = runC(rq);
    else if (rq.layer == "cli") o = notApplicable("the command line program is run by checks/c05.py");
    else return "e\tunknown layer";
    if (o.na) return "na\t" + esc(o.reason);
    char buf[32];
    snprintf(buf, sizeof buf, "%d\t%d\t", o.rc, o.err.empty() ? 0 : 1);
    return std::string(buf) + esc(o.out) + "\t" + esc(o.err) + "\t" + esc(o.info);
}

int main(int argc, char** argv)
{
    if (argc > 1) g_dir = argv[1];
    else { char b[64]; snprintf(b, sizeof b, "/verif/build/tmp/c05.%d", (int)getpid()); g_dir = b; }
    mkdir("/verif/build/tmp", 0777);
    mkdir(g_dir.c_str(), 0777);
    if (chdir(g_dir.c_str()) != 0) { perror("chdir"); return 2; }
    // one initialisation for both layers, through the C API entry point (it initialises Xerces and XalanTransformer)
    if (XalanInitialize() != 0) { fprintf(stderr, "XalanInitialize failed\n"); return 2; }
    {
        std::ios::sync_with_stdio(false);
        std::string line;
        while (std::getline(std::cin, line))
        {
            if (line == "quit") break;
            std::vector<std::string> f = splitTabs(line);
            std::string reply;
            if (!f.empty() && f[0].compare(0, 4, "def:") == 0)
            {
                for (size_t i = 0; i < f.size(); ++i)
                {
                    size_t e = f[i].find('=');
                    if (f[i].compare(0, 4, "def:") == 0 && e != std::string::npos)
                    {
                        const std::string name = f[i].substr(4, e - 4);
                        g_defs[name] = f[i].substr(e + 1);
                        writeFile(pathOf(name), g_defs[name]);
                    }
                }
                reply = "ok";
            }
            else if (!f.empty() && f[0] == "run") reply = handleRun(f);
            else reply = "e\tunknown";
            std::cout << reply << "\n" << std::flush;
        }
    }
    XalanTerminate(0);
    return 0;
}
