// C20: Xalan's own containers and string class against their standard models.
// Bounded EXHAUSTIVE explicit-state search (engine E2): breadth-first over all operation histories up to a depth,
// canonical state hashing, lock-step comparison with std:: reference models. No sampling, no randomness.
//
// usage: c20 <tier> <shard> <nshards>          (isolate.hpp line protocol on stdout: count / viol / sample)
//        c20 replay <container> <op op op ...>   (re-runs one history with every oracle after every op, prints what happens)
//        c20 list                                (containers, alphabets, depths)
//
// A state is the history that reaches it. Successors are built by replaying history+[op] on FRESH objects. States are merged
// by a canonical key = reference-model contents + the implementation's internal shape (read with -fno-access-control), hashed
// to 128 bits. The key is taken right after the op and before any observation, because several observers of the library
// allocate lazily (XalanList::begin()). The master process owns the seen-set and the frontier; for every BFS level it forks
// VERIF_JOBS workers which expand disjoint slices of the frontier and stream candidates back; a worker that dies (ASan abort,
// assert, signal, timeout) turns into a `fatal` violation carrying the exact in-flight history and is restarted behind it.
//
// CXXFLAGS: -fno-access-control
#include <cstdint>
#include <cstdio>
#include <cstdlib>
#include <cstring>
#include <cassert>
#include <string>
#include <vector>
#include <list>
#include <map>
#include <set>
#include <deque>
#include <algorithm>
#include <functional>
#include <stdexcept>
#include <unistd.h>
#include <signal.h>
#include <poll.h>
#include <time.h>
#include <sys/mman.h>
#include <sys/wait.h>

#include <xercesc/util/PlatformUtils.hpp>
#include <xercesc/framework/MemoryManager.hpp>

#include <xalanc/Include/PlatformDefinitions.hpp>
#include <xalanc/Include/XalanMemoryManagement.hpp>
#include <xalanc/Include/XalanVector.hpp>
#include <xalanc/Include/XalanList.hpp>
#include <xalanc/Include/XalanMap.hpp>
#include <xalanc/Include/XalanSet.hpp>
#include <xalanc/Include/XalanDeque.hpp>
#include <xalanc/Include/STLHelper.hpp>
#include <xalanc/Include/XalanObjectCache.hpp>
#include <xalanc/XalanDOM/XalanDOMString.hpp>
#include <xalanc/PlatformSupport/XalanDOMStringHashTable.hpp>
#include <xalanc/PlatformSupport/XalanDOMStringPool.hpp>

// XalanBitmap::isSet() carries an inverted debug assertion (assert(theBit >= m_size), XalanBitmap.hpp:65). The search over the
// bitmap uses the release semantics of the header (as the library itself is built); the debug-mode behaviour is probed
// separately on a renamed copy of the class (see BitmapDbgProbe below), so the assertion stays visible as a finding.
#define NDEBUG
#include <cassert>
#include <xalanc/PlatformSupport/XalanBitmap.hpp>
#undef NDEBUG
#include <cassert>

// debug-mode copy of XalanBitmap (header + implementation compiled here under another name, asserts enabled)
#undef XALANBITMAP_HEADER_GUARD_1357924680
#define XalanBitmap XalanBitmapDbg
#undef XALAN_PLATFORMSUPPORT_EXPORT
#define XALAN_PLATFORMSUPPORT_EXPORT
#include <xalanc/PlatformSupport/XalanBitmap.hpp>
#include "/repo/src/xalanc/PlatformSupport/XalanBitmap.cpp"
#undef XalanBitmap

using namespace xalanc;

// =====================================================================================================================
// basics

static double nowS()
{
    struct timespec ts; clock_gettime(CLOCK_MONOTONIC, &ts);
    return ts.tv_sec + ts.tv_nsec * 1e-9;
}

static std::string escField(const std::string& s)
{
    std::string o;
    for (unsigned char c : s)
    {
        switch (c)
        {
        case '\\': o += "\\\\"; break;
        case '\t': o += "\\t"; break;
        case '\n': o += "\\n"; break;
        case '\r': o += "\\r"; break;
        case 0: o += "\\0"; break;
        default: o += (char)c;
        }
    }
    return o;
}

// memory manager that counts what is outstanding (malloc underneath, so ASan sees every block)
class CountingMM : public xercesc::MemoryManager
{
public:
    long live = 0, allocs = 0;
    void* allocate(XMLSize_t n) { ++live; ++allocs; return malloc(n ? n : 1); }
    void deallocate(void* p) { if (p) { --live; free(p); } }
    xercesc::MemoryManager* getExceptionMemoryManager() { return this; }
};
static CountingMM g_mm;       // everything under test allocates here
static CountingMM g_static;   // alphabets (key strings) live here

// element type: counts instances, knows whether it is alive, poisons itself on destruction
struct Tracked
{
    enum { ALIVE = 0x600DF00Du, DEAD = 0xDEADDEADu };
    static long live, ctors, dtors, errors;
    static std::string firstError;
    static void err(const char* what) { if (errors++ == 0) firstError = what; }
    static void resetCounters() { live = ctors = dtors = errors = 0; firstError.clear(); }
    int v;
    unsigned magic;
    Tracked() : v(0), magic(ALIVE) { ++live; ++ctors; }
    explicit Tracked(int x) : v(x), magic(ALIVE) { ++live; ++ctors; }
    Tracked(const Tracked& o) : v(o.v), magic(ALIVE)
    {
        if (o.magic != ALIVE) err("copy-constructed from an object that is not alive");
        ++live; ++ctors;
    }
    Tracked& operator=(const Tracked& o)
    {
        if (magic != ALIVE) err("assigned to raw/destroyed storage");
        if (o.magic != ALIVE) err("assigned from an object that is not alive");
        v = o.v;
        return *this;
    }
    ~Tracked()
    {
        if (magic != ALIVE) err("destroyed an object that is not alive (double destroy or raw storage)");
        magic = DEAD; v = -777;
        --live; ++dtors;
    }
    bool operator==(const Tracked& o) const { return v == o.v; }
    bool operator<(const Tracked& o) const { return v < o.v; }
};
long Tracked::live = 0, Tracked::ctors = 0, Tracked::dtors = 0, Tracked::errors = 0;
std::string Tracked::firstError;

// first disagreement of one replay
struct Fail
{
    bool bad = false;
    std::string kind, msg;
    void set(const char* k, const std::string& m) { if (!bad) { bad = true; kind = k; msg = m; } }
};
#define CHECK(f, cond, kind, msg) do { if (!(cond)) (f).set(kind, msg); } while (0)

static std::string istr(long long v) { return std::to_string(v); }

// position codes: 0 = begin, 1 = middle, 2 = end. A code that coincides with a lower code is disabled (-1).
static int insPos(int pc, size_t n) { size_t v[3] = { 0, n / 2, n }; for (int j = 0; j < pc; ++j) if (v[j] == v[pc]) return -1; return (int)v[pc]; }
static int elPos(int pc, size_t n) { if (n == 0) return -1; size_t v[3] = { 0, n / 2, n - 1 }; for (int j = 0; j < pc; ++j) if (v[j] == v[pc]) return -1; return (int)v[pc]; }

enum { EV_GROW = 1, EV_REHASH = 2, EV_COMPACT = 4, EV_REUSE = 8, EV_REALLOC = 16, EV_SHIFT = 32, EV_SELF = 64 };

struct OpDesc { std::string name; int code, a, b, c; };
static std::string opBase(const std::string& n) { size_t p = n.find('('); return p == std::string::npos ? n : n.substr(0, p); }

struct Sys
{
    unsigned events = 0;
    virtual ~Sys() {}
    virtual const std::vector<OpDesc>& ops() const = 0;
    virtual bool enabled(int op) const = 0;
    virtual void apply(int op, Fail& f) = 0;      // run op on implementation and model, compare the return value
    virtual void key(std::string& out) const = 0; // canonical key, reads fields only (never calls a lazily allocating observer)
    virtual void compare(Fail& f) = 0;            // the full oracle battery
    virtual void finish(Fail& f) = 0;             // destroy the implementation objects, check balances
};

struct Container
{
    const char* name;
    int depthQuick, depthThorough;
    Sys* (*make)();
    const char* what;
};

static void resetWorld() { Tracked::resetCounters(); g_mm.live = 0; g_mm.allocs = 0; }
static void checkWorld(Fail& f)
{
    CHECK(f, Tracked::errors == 0, "balance", "element lifetime error: " + Tracked::firstError);
    CHECK(f, Tracked::live == 0, "balance", "after destruction " + istr(Tracked::live) + " element(s) still alive (ctors " + istr(Tracked::ctors) + ", dtors " + istr(Tracked::dtors) + ")");
    CHECK(f, g_mm.live == 0, "balance", "after destruction " + istr(g_mm.live) + " block(s) of the memory manager not returned");
}

// =====================================================================================================================
// XalanMap (and XalanSet on top of it)

struct CollidingHash { size_t operator()(int k) const { return (size_t)(k & 1); } };   // keys fall onto 2 residues
struct CollidingTraits { typedef CollidingHash Hasher; typedef std::equal_to<int> Comparator; };

struct IntCodec
{
    typedef int K;
    typedef XalanMap<int, int, CollidingTraits> M;
    static const int& key(int i) { static const int k[6] = { 0, 1, 2, 3, 4, 5 }; return k[i]; }
    static int index(const int& k) { return (k >= 0 && k < 6) ? k : -1; }
    static std::string show(int i) { return istr(i); }
    static size_t hashOf(const M& m, const int& k) { return m.m_hash(k); }
};

static const XalanDOMString& strKey(int i)
{
    static std::vector<XalanDOMString*> keys;
    if (keys.empty())
    {
        static const XalanDOMChar t[4][3] = { { 0, 0, 0 }, { 'a', 0, 0 }, { 'b', 0, 0 }, { 'a', 'b', 0 } };
        for (int j = 0; j < 4; ++j) keys.push_back(new XalanDOMString(t[j], g_static));
    }
    return *keys[i];
}
struct StrCodec
{
    typedef XalanDOMString K;
    typedef XalanMap<XalanDOMString, int> M;
    static const XalanDOMString& key(int i) { return strKey(i); }
    static int index(const XalanDOMString& k) { for (int i = 0; i < 4; ++i) if (k.length() == strKey(i).length() && memcmp(k.c_str(), strKey(i).c_str(), k.length() * sizeof(XalanDOMChar)) == 0) return i; return -1; }
    static std::string show(int i) { static const char* n[4] = { "''", "'a'", "'b'", "'ab'" }; return n[i]; }
    static size_t hashOf(const M& m, const XalanDOMString& k) { return m.m_hash(k); }
};

struct MapModel
{
    std::map<int, int> ref;     // key index -> value (the std:: model)
    std::vector<int> order;     // key indices in insertion order (the order the entry list is specified to keep)
    bool has(int k) const { return ref.count(k) != 0; }
    void add(int k, int v) { ref[k] = v; order.push_back(k); }
    void del(int k) { ref.erase(k); order.erase(std::find(order.begin(), order.end(), k)); }
    void clear() { ref.clear(); order.clear(); }
    void text(std::string& o) const { for (int k : order) { o += (char)('0' + k); o += '='; o += (char)('0' + ref.find(k)->second); o += ','; } }
};

// raw walk of a XalanList without calling begin()/end() (which allocate the sentinel lazily)
template <class L>
static void listNodes(const L& l, std::vector<const typename L::Node*>& out, bool& broken)
{
    broken = false;
    if (l.m_listHead == 0) return;
    size_t guard = 0;
    for (const typename L::Node* n = l.m_listHead->next; n != l.m_listHead; n = n->next)
    {
        if (n == 0 || ++guard > 10000) { broken = true; return; }
        out.push_back(n);
    }
}
template <class L>
static size_t listFreeNodes(const L& l)
{
    size_t c = 0;
    for (const typename L::Node* n = l.m_freeListHeadPtr; n != 0 && c < 10000; n = n->next) ++c;
    return c;
}

template <class Codec>
struct MapShape
{
    typedef typename Codec::M M;
    // canonical shape; also verifies the structural invariants when f != 0
    static void shape(const M& m, const MapModel& mod, std::string& o, Fail* f, const char* which)
    {
        std::vector<const typename M::EntryListType::Node*> live, freeN;
        bool b1, b2;
        listNodes(m.m_entries, live, b1);
        listNodes(m.m_freeEntries, freeN, b2);
        if (f) { CHECK(*f, !b1 && !b2, "invariant", std::string(which) + ": entry list links are broken"); }
        o += 'n'; o += istr(m.m_buckets.m_size); o += 'c'; o += istr(m.m_buckets.m_allocation); o += '|';
        for (size_t b = 0; b < m.m_buckets.m_size; ++b)
        {
            const typename M::BucketType& bk = m.m_buckets.m_data[b];
            o += '['; o += istr(bk.m_allocation); o += ':';
            for (size_t j = 0; j < bk.m_size; ++j)
            {
                const typename M::EntryListType::Node* n = bk.m_data[j].currentNode;
                size_t li = std::find(live.begin(), live.end(), n) - live.begin();
                size_t fi = std::find(freeN.begin(), freeN.end(), n) - freeN.begin();
                if (li < live.size()) { o += 'L'; o += istr(li); }
                else if (fi < freeN.size()) { o += 'F'; o += istr(fi); }
                else { o += '?'; if (f) f->set("invariant", std::string(which) + ": bucket " + istr(b) + " refers to a node that is in neither the entry list nor the free list"); }
                o += ' ';
            }
            o += ']';
        }
        o += "|f"; o += istr(freeN.size()); o += 'e'; o += istr(m.m_eraseCount); o += 't'; o += istr(m.m_eraseThreshold);
        o += 'l'; o += istr(listFreeNodes(m.m_entries)); o += ','; o += istr(listFreeNodes(m.m_freeEntries));
        o += (m.m_entries.m_listHead ? 'h' : '-'); o += (m.m_freeEntries.m_listHead ? 'h' : '-');
        if (f == 0) return;
        CHECK(*f, m.m_size == live.size(), "invariant", std::string(which) + ": m_size " + istr(m.m_size) + " but the entry list holds " + istr(live.size()));
        CHECK(*f, m.m_eraseCount < m.m_eraseThreshold, "invariant", std::string(which) + ": m_eraseCount reached the threshold without compaction");
        for (size_t i = 0; i < live.size() && !f->bad; ++i)
        {
            CHECK(*f, !live[i]->value.erased, "invariant", std::string(which) + ": live entry " + istr(i) + " is marked erased");
            if (m.m_buckets.m_size == 0) { f->set("invariant", std::string(which) + ": live entries but no buckets"); break; }
            const size_t b = Codec::hashOf(m, live[i]->value.value->first) % m.m_buckets.m_size;
            const typename M::BucketType& bk = m.m_buckets.m_data[b];
            bool found = false;
            for (size_t j = 0; j < bk.m_size; ++j) if (bk.m_data[j].currentNode == live[i]) found = true;
            CHECK(*f, found, "invariant", std::string(which) + ": live entry " + istr(i) + " is not referenced from its bucket " + istr(b));
        }
        for (size_t i = 0; i < freeN.size(); ++i)
            CHECK(*f, freeN[i]->value.erased, "invariant", std::string(which) + ": free entry " + istr(i) + " is not marked erased");
        (void)mod;
    }

    static void compare(M& m, const MapModel& mod, Fail& f, const char* which)
    {
        const std::string w(which);
        CHECK(f, m.size() == mod.ref.size(), "size", w + ": size() " + istr(m.size()) + " model " + istr(mod.ref.size()));
        CHECK(f, m.empty() == mod.ref.empty(), "size", w + ": empty() disagrees");
        if (f.bad) return;
        std::vector<std::pair<int, int> > got;
        size_t guard = 0;
        for (typename M::iterator i = m.begin(); i != m.end(); ++i)
        {
            if (++guard > 64) { f.set("contents", w + ": iteration does not end"); return; }
            got.push_back(std::make_pair(Codec::index((*i).first), i->second));
        }
        std::string gs, ms;
        for (auto& p : got) gs += (p.first < 0 ? std::string("?") : Codec::show(p.first)) + "=" + istr(p.second) + " ";
        for (int k : mod.order) ms += Codec::show(k) + "=" + istr(mod.ref.find(k)->second) + " ";
        {
            std::map<int, int> asSet;
            bool dup = false;
            for (auto& p : got) { if (asSet.count(p.first)) dup = true; asSet[p.first] = p.second; }
            CHECK(f, !dup && asSet == mod.ref, "contents", w + ": iteration yields {" + gs + "} model {" + ms + "}");
        }
        CHECK(f, gs == ms, "contents", w + ": iteration order {" + gs + "} differs from insertion order {" + ms + "}");
        // const iteration
        {
            const M& cm = m;
            size_t n = 0;
            for (typename M::const_iterator i = cm.begin(); i != cm.end() && n < 64; ++i) ++n;
            CHECK(f, n == mod.ref.size(), "contents", w + ": const iteration visits " + istr(n) + " entries");
        }
        const int NK = (int)nkeys();
        for (int k = 0; k < NK && !f.bad; ++k)
        {
            typename M::iterator i = m.find(Codec::key(k));
            const bool found = i != m.end();
            CHECK(f, found == mod.has(k), "find", w + ": find(" + Codec::show(k) + ") " + (found ? "found" : "not found") + ", model " + (mod.has(k) ? "has it" : "does not"));
            if (found && mod.has(k))
            {
                CHECK(f, Codec::index(i->first) == k, "find", w + ": find(" + Codec::show(k) + ") points at another key");
                CHECK(f, i->second == mod.ref.find(k)->second, "find", w + ": find(" + Codec::show(k) + ")->second is " + istr(i->second) + ", model " + istr(mod.ref.find(k)->second));
            }
            const M& cm = m;
            CHECK(f, (cm.find(Codec::key(k)) != cm.end()) == mod.has(k), "find", w + ": const find(" + Codec::show(k) + ") disagrees");
        }
        std::string dummy;
        shape(m, mod, dummy, &f, which);
    }
    static size_t& nkeys() { static size_t n = 4; return n; }
};

enum { M_INSERT, M_SETSUB, M_GETSUB, M_ERASE, M_ERASEFIND, M_CLEAR, M_ASSIGN_SELF, M_ASSIGN_FROM_B, M_ASSIGN_TO_B, M_SWAP, M_COPY, M_INSERTPAIR };

template <class Codec, int MINB, int THRESH>
struct MapSys : Sys
{
    typedef typename Codec::M M;
    M* A; M* B;
    MapModel a, b;
    static std::vector<OpDesc>& table()
    {
        static std::vector<OpDesc> t;
        if (t.empty())
        {
            const int NK = 4;
            for (int k = 0; k < NK; ++k) t.push_back({ "insert(" + Codec::show(k) + ",1)", M_INSERT, k, 1, 0 });
            for (int k = 0; k < NK; ++k) t.push_back({ "subscript_set(" + Codec::show(k) + ",2)", M_SETSUB, k, 2, 0 });
            for (int k = 0; k < NK; ++k) t.push_back({ "subscript_get(" + Codec::show(k) + ")", M_GETSUB, k, 0, 0 });
            for (int k = 0; k < NK; ++k) t.push_back({ "erase(" + Codec::show(k) + ")", M_ERASE, k, 0, 0 });
            for (int k = 0; k < NK; ++k) t.push_back({ "erase_find(" + Codec::show(k) + ")", M_ERASEFIND, k, 0, 0 });
            t.push_back({ "insert_pair(" + Codec::show(0) + ",3)", M_INSERTPAIR, 0, 3, 0 });
            t.push_back({ "clear", M_CLEAR, 0, 0, 0 });
            t.push_back({ "assign_self", M_ASSIGN_SELF, 0, 0, 0 });
            t.push_back({ "assign_from_B", M_ASSIGN_FROM_B, 0, 0, 0 });
            t.push_back({ "assign_to_B", M_ASSIGN_TO_B, 0, 0, 0 });
            t.push_back({ "swap", M_SWAP, 0, 0, 0 });
            t.push_back({ "copy_construct", M_COPY, 0, 0, 0 });
        }
        return t;
    }
    MapSys()
    {
        A = new M(g_mm, 0.75, MINB, THRESH);
        B = new M(g_mm, 0.75, MINB, THRESH);
    }
    const std::vector<OpDesc>& ops() const { return table(); }
    bool enabled(int) const { return true; }
    struct Snap { size_t nb, freeN, ec, size; };
    static Snap snap(const M& m)
    {
        std::vector<const typename M::EntryListType::Node*> fr; bool br;
        listNodes(m.m_freeEntries, fr, br);
        return { m.m_buckets.m_size, fr.size(), m.m_eraseCount, m.m_size };
    }
    void apply(int op, Fail& f)
    {
        const OpDesc& d = table()[op];
        const Snap s0 = snap(*A);
        bool erased = false;
        switch (d.code)
        {
        case M_INSERT:
            A->insert(Codec::key(d.a), d.b);
            if (!a.has(d.a)) a.add(d.a, d.b);
            break;
        case M_INSERTPAIR:
            A->insert(typename M::value_type(Codec::key(d.a), d.b));
            if (!a.has(d.a)) a.add(d.a, d.b);
            break;
        case M_SETSUB:
            (*A)[Codec::key(d.a)] = d.b;
            if (!a.has(d.a)) a.add(d.a, d.b); else a.ref[d.a] = d.b;
            break;
        case M_GETSUB:
        {
            const int r = (*A)[Codec::key(d.a)];
            if (!a.has(d.a)) a.add(d.a, 0);
            CHECK(f, r == a.ref[d.a], "return", "operator[] returned " + istr(r) + ", model " + istr(a.ref[d.a]));
            break;
        }
        case M_ERASE:
        {
            const size_t r = A->erase(Codec::key(d.a));
            const size_t e = a.has(d.a) ? 1 : 0;
            if (e) { a.del(d.a); erased = true; }
            CHECK(f, r == e, "return", "erase(key) returned " + istr(r) + ", model " + istr(e));
            break;
        }
        case M_ERASEFIND:
            A->erase(A->find(Codec::key(d.a)));     // erase(end()) is a defined no-op in XalanMap
            if (a.has(d.a)) { a.del(d.a); erased = true; }
            break;
        case M_CLEAR: A->clear(); a.clear(); break;
        case M_ASSIGN_SELF: *A = *A; events |= EV_SELF; break;
        case M_ASSIGN_FROM_B: *A = *B; a = b; break;
        case M_ASSIGN_TO_B: *B = *A; b = a; break;
        case M_SWAP: A->swap(*B); std::swap(a, b); break;
        case M_COPY:
        {
            M c(*A, g_mm);
            MapShape<Codec>::compare(c, a, f, "copy");
            break;
        }
        }
        if (d.code != M_SWAP && d.code != M_ASSIGN_FROM_B && d.code != M_ASSIGN_SELF)
        {
            const Snap s1 = snap(*A);
            if (s0.nb != 0 && s1.nb != s0.nb) events |= EV_REHASH;
            if (s1.size > s0.size && s0.freeN > 0 && s1.freeN < s0.freeN) events |= EV_REUSE;
            if (erased && s1.ec == 0) events |= EV_COMPACT;
        }
    }
    void key(std::string& o) const
    {
        a.text(o); o += '/'; MapShape<Codec>::shape(*A, a, o, 0, "A"); o += "//";
        b.text(o); o += '/'; MapShape<Codec>::shape(*B, b, o, 0, "B");
    }
    void compare(Fail& f)
    {
        MapShape<Codec>::compare(*A, a, f, "A");
        MapShape<Codec>::compare(*B, b, f, "B");
    }
    void finish(Fail& f)
    {
        delete A; delete B; A = B = 0;
        checkWorld(f);
    }
    static Sys* make() { return new MapSys(); }
};

// XalanSet<int>: the public constructor cannot pass bucket parameters, so the inner map is rebuilt in place with tiny ones.
namespace XALAN_CPP_NAMESPACE { template<> struct XalanMapKeyTraits<int> { typedef CollidingHash Hasher; typedef std::equal_to<int> Comparator; }; }
struct SetCodec
{
    typedef int K;
    typedef XalanMap<int, bool> M;
    static const int& key(int i) { return IntCodec::key(i); }
    static int index(const int& k) { return IntCodec::index(k); }
    static std::string show(int i) { return istr(i); }
    static size_t hashOf(const M& m, const int& k) { return m.m_hash(k); }
};

enum { S_INSERT, S_ERASE, S_CLEAR, S_ASSIGN_SELF, S_COPY, S_ASSIGN_FROM_B, S_ASSIGN_TO_B };
struct SetSys : Sys
{
    typedef XalanSet<int> S;
    S* A; S* B;
    std::set<int> a, b;
    std::vector<int> oa, ob;   // insertion order
    static void shrink(S* s)
    {
        typedef S::SetMapType MT;
        s->m_map.~MT();
        new (&s->m_map) MT(g_mm, 0.75, 2, 2);
    }
    SetSys() { A = new S(g_mm); shrink(A); B = new S(g_mm); shrink(B); }
    static std::vector<OpDesc>& table()
    {
        static std::vector<OpDesc> t;
        if (t.empty())
        {
            for (int k = 0; k < 4; ++k) t.push_back({ "insert(" + istr(k) + ")", S_INSERT, k, 0, 0 });
            for (int k = 0; k < 4; ++k) t.push_back({ "erase(" + istr(k) + ")", S_ERASE, k, 0, 0 });
            t.push_back({ "clear", S_CLEAR, 0, 0, 0 });
            t.push_back({ "assign_self", S_ASSIGN_SELF, 0, 0, 0 });
            t.push_back({ "assign_from_B", S_ASSIGN_FROM_B, 0, 0, 0 });
            t.push_back({ "assign_to_B", S_ASSIGN_TO_B, 0, 0, 0 });
            t.push_back({ "copy_construct", S_COPY, 0, 0, 0 });
        }
        return t;
    }
    const std::vector<OpDesc>& ops() const { return table(); }
    bool enabled(int) const { return true; }
    static void cmp(const S& s, const std::set<int>& m, const std::vector<int>& ord, Fail& f, const char* which)
    {
        const std::string w(which);
        CHECK(f, s.size() == m.size(), "size", w + ": size() " + istr(s.size()) + " model " + istr(m.size()));
        std::vector<int> got; size_t guard = 0;
        for (S::const_iterator i = s.begin(); i != s.end(); ++i) { if (++guard > 64) { f.set("contents", w + ": iteration does not end"); return; } got.push_back(*i); }
        std::string gs, ms; for (int k : got) gs += istr(k) + " "; for (int k : ord) ms += istr(k) + " ";
        CHECK(f, std::set<int>(got.begin(), got.end()) == m && got.size() == m.size(), "contents", w + ": iteration yields {" + gs + "} model {" + ms + "}");
        CHECK(f, got == ord, "contents", w + ": iteration order {" + gs + "} differs from insertion order {" + ms + "}");
        for (int k = 0; k < 4; ++k)
        {
            CHECK(f, s.count(k) == m.count(k), "find", w + ": count(" + istr(k) + ") " + istr(s.count(k)) + " model " + istr(m.count(k)));
            S::const_iterator i = s.find(k);
            CHECK(f, (i != s.end()) == (m.count(k) != 0), "find", w + ": find(" + istr(k) + ") disagrees");
            if (i != s.end()) CHECK(f, *i == k, "find", w + ": find(" + istr(k) + ") points at " + istr(*i));
        }
    }
    void apply(int op, Fail& f)
    {
        const OpDesc& d = table()[op];
        const size_t nb0 = A->m_map.m_buckets.m_size;
        switch (d.code)
        {
        case S_INSERT: A->insert(d.a); if (a.insert(d.a).second) oa.push_back(d.a); break;
        case S_ERASE:
        {
            const size_t r = A->erase(d.a);
            const size_t e = a.erase(d.a);
            if (e) { oa.erase(std::find(oa.begin(), oa.end(), d.a)); if (A->m_map.m_eraseCount == 0) events |= EV_COMPACT; }
            CHECK(f, r == e, "return", "erase returned " + istr(r) + ", model " + istr(e));
            break;
        }
        case S_CLEAR: A->clear(); a.clear(); oa.clear(); break;
        case S_ASSIGN_SELF: *A = *A; events |= EV_SELF; break;
        case S_ASSIGN_FROM_B: *A = *B; a = b; oa = ob; break;
        case S_ASSIGN_TO_B: *B = *A; b = a; ob = oa; break;
        case S_COPY: { S c(*A, g_mm); cmp(c, a, oa, f, "copy"); break; }
        }
        if (d.code == S_INSERT && nb0 != 0 && A->m_map.m_buckets.m_size != nb0) events |= EV_REHASH;
    }
    void key(std::string& o) const
    {
        MapModel dummy;
        for (int k : oa) o += (char)('0' + k); o += '/'; MapShape<SetCodec>::shape(A->m_map, dummy, o, 0, "A");
        o += "//";
        for (int k : ob) o += (char)('0' + k); o += '/'; MapShape<SetCodec>::shape(B->m_map, dummy, o, 0, "B");
    }
    void compare(Fail& f)
    {
        cmp(*A, a, oa, f, "A"); cmp(*B, b, ob, f, "B");
        MapModel dummy; std::string s;
        MapShape<SetCodec>::shape(A->m_map, dummy, s, &f, "A"); MapShape<SetCodec>::shape(B->m_map, dummy, s, &f, "B");
    }
    void finish(Fail& f) { delete A; delete B; A = B = 0; checkWorld(f); }
    static Sys* make() { return new SetSys(); }
};

//@@SYSTEMS@@

// =====================================================================================================================
// engine E2: level-synchronous BFS, master owns seen-set and frontier, forked workers expand slices

struct H128
{
    uint64_t a, b;
    bool operator==(const H128& o) const { return a == o.a && b == o.b; }
};
static H128 hashKey(const std::string& s)
{
    uint64_t a = 1469598103934665603ull, b = 0x9E3779B97F4A7C15ull;
    for (unsigned char c : s)
    {
        a = (a ^ c) * 1099511628211ull;
        b = (b + c + 0x632BE59BD9B4E019ull) * 0xD6E8FEB86659FD93ull; b ^= b >> 29;
    }
    a ^= a >> 32; a *= 0xD6E8FEB86659FD93ull; a ^= a >> 32;
    b ^= b >> 31; b *= 0x9FB21C651E98DF25ull; b ^= b >> 33;
    if (a == 0 && b == 0) b = 1;
    return { a, b };
}
struct HashSet   // open addressing, {0,0} = empty
{
    std::vector<H128> t; size_t n = 0;
    HashSet() { t.assign(1 << 12, H128{ 0, 0 }); }
    bool has(const H128& h) const
    {
        size_t m = t.size() - 1, i = (size_t)h.a & m;
        while (t[i].a | t[i].b) { if (t[i] == h) return true; i = (i + 1) & m; }
        return false;
    }
    bool insert(const H128& h)
    {
        if ((n + 1) * 2 > t.size()) grow();
        size_t m = t.size() - 1, i = (size_t)h.a & m;
        while (t[i].a | t[i].b) { if (t[i] == h) return false; i = (i + 1) & m; }
        t[i] = h; ++n; return true;
    }
    void grow()
    {
        std::vector<H128> o; o.swap(t); t.assign(o.size() * 2, H128{ 0, 0 }); n = 0;
        for (auto& h : o) if (h.a | h.b) insert(h);
    }
};

struct Slot { volatile uint32_t state; volatile int32_t op; volatile uint32_t done; volatile uint32_t pad; };

static std::string histText(const Container& c, const uint8_t* h, size_t n, int extra = -1)
{
    Sys* s = c.make();
    std::string o;
    for (size_t i = 0; i < n; ++i) { if (i) o += ' '; o += s->ops()[h[i]].name; }
    if (extra >= 0) { if (n) o += ' '; o += s->ops()[extra].name; }
    return o;
}

struct Cand { uint32_t parent; uint8_t op; uint8_t ev; H128 h; };
struct Viol { uint32_t level, parent; int op; std::string sig, detail; };

struct Totals
{
    long long states = 0, transitions = 0, comparisons = 0, nontrivial = 0, fatals = 0, disabled = 0, prunedAfterViolation = 0, violRaw = 0;
    int maxDepth = 0;
};

static void putBytes(std::string& b, const void* p, size_t n) { b.append((const char*)p, n); }
template <class T> static void put(std::string& b, T v) { putBytes(b, &v, sizeof v); }
static void putStr(std::string& b, const std::string& s) { put<uint32_t>(b, (uint32_t)s.size()); b += s; }
static bool writeAll(int fd, const std::string& b)
{
    size_t off = 0;
    while (off < b.size())
    {
        ssize_t k = write(fd, b.data() + off, b.size() - off);
        if (k <= 0) { if (errno == EINTR) continue; return false; }
        off += (size_t)k;
    }
    return true;
}

struct Search
{
    const Container& c;
    int depth;               // maximum history length
    int W;                   // workers
    double deadline;         // absolute monotonic seconds; checked between levels
    std::vector<uint8_t> fr; // frontier histories, stride = level
    std::vector<H128> frh;
    std::vector<uint8_t> frev;
    HashSet seen;
    Totals tot;
    std::vector<Viol> viols;
    std::vector<std::string> samples;
    bool capHit = false;
    int completed = 0;
    Slot* slots;
    int nopsCached = 0;

    Search(const Container& cc, int d, int w, double dl) : c(cc), depth(d), W(w), deadline(dl)
    {
        slots = (Slot*)mmap(0, sizeof(Slot) * 256, PROT_READ | PROT_WRITE, MAP_SHARED | MAP_ANONYMOUS, -1, 0);
    }
    ~Search() { munmap(slots, sizeof(Slot) * 256); }

    // ---- worker side -------------------------------------------------------------------------------------------------
    void expandState(int level, uint32_t si, const std::set<int>& skip, int w, std::string& out, HashSet& local)
    {
        const uint8_t* h = level ? &fr[(size_t)si * level] : (const uint8_t*)"";
        slots[w].state = si; slots[w].op = -1;
        alarm(30);
        uint32_t nTrans = 0, nCmp = 0, nDis = 0, nPruned = 0;
        std::string recs;
        // 1. replay the state itself: same key as when it was first built? balances at destruction?
        std::vector<char> en;
        {
            resetWorld();
            Sys* s = c.make();
            Fail f;
            for (int i = 0; i < level; ++i) s->apply(h[i], f);
            std::string k; s->key(k);
            if (!(hashKey(k) == frh[si])) f.set("invariant", "replaying the history gave a different canonical key (uninitialised or address-dependent state): " + k);
            const int n = (int)s->ops().size();
            en.resize(n);
            for (int o = 0; o < n; ++o) en[o] = s->enabled(o) ? 1 : 0;
            if (!f.bad) s->finish(f);
            if (f.bad)
            {
                recs += 'V'; put<int32_t>(recs, level ? h[level - 1] : -1); putStr(recs, f.kind); putStr(recs, f.msg); put<uint8_t>(recs, 0);
            }
            else delete s;
        }
        // 2. every enabled successor
        for (int o = 0; o < (int)en.size(); ++o)
        {
            if (!en[o]) { ++nDis; continue; }
            if (skip.count(o)) continue;
            slots[w].op = o;
            resetWorld();
            Sys* s = c.make();
            Fail f;
            for (int i = 0; i < level; ++i) s->apply(h[i], f);
            s->events = frev[si];
            s->apply(o, f);
            ++nTrans;
            std::string k;
            if (!f.bad) { s->key(k); s->compare(f); ++nCmp; }
            if (!f.bad) s->finish(f);
            if (f.bad)
            {
                recs += 'V'; put<int32_t>(recs, o); putStr(recs, f.kind); putStr(recs, f.msg); put<uint8_t>(recs, 1);
                ++nPruned;
                continue;     // the object may be damaged: it is abandoned, the state is not expanded
            }
            const unsigned ev = s->events;
            delete s;
            const H128 hk = hashKey(k);
            if (seen.has(hk) || !local.insert(hk)) continue;
            recs += 'C'; put<uint8_t>(recs, (uint8_t)o); put<uint8_t>(recs, (uint8_t)ev); put<H128>(recs, hk);
        }
        alarm(0);
        out += 'S'; put<uint32_t>(out, si); put<uint32_t>(out, nTrans); put<uint32_t>(out, nCmp); put<uint32_t>(out, nDis); put<uint32_t>(out, nPruned);
        out += recs; out += 'E';
    }

    void workerMain(int level, int w, uint32_t start, const std::set<int>& skipFirst, int fd)
    {
        HashSet local;
        const uint32_t n = (uint32_t)frh.size();
        std::string out;
        static const std::set<int> none;
        for (uint32_t si = start; si < n; si += (uint32_t)W)
        {
            expandState(level, si, si == start ? skipFirst : none, w, out, local);
            if (out.size() > (1 << 15)) { if (!writeAll(fd, out)) _exit(3); out.clear(); }
        }
        if (!writeAll(fd, out)) _exit(3);
        slots[w].done = 1;
        close(fd);
        _exit(0);
    }

    // ---- master side -------------------------------------------------------------------------------------------------
    void addViol(int level, uint32_t parent, int op, const std::string& kind, const std::string& msg, bool atSuccessor)
    {
        const uint8_t* h = level ? &fr[(size_t)parent * level] : (const uint8_t*)"";
        Sys* s = c.make();
        const std::string opn = op >= 0 ? opBase(s->ops()[op].name) : std::string("construct");
        Viol v;
        v.level = (uint32_t)level; v.parent = parent; v.op = op;
        v.sig = std::string(c.name) + "|" + opn + "|" + kind;
        v.detail = "container=" + std::string(c.name) + " history=[" + histText(c, h, level, atSuccessor ? op : -1) + "] op=" + (op >= 0 ? s->ops()[op].name : "construct") + " kind=" + kind + " :: " + msg;
        viols.push_back(v);
        ++tot.violRaw;
    }

    bool runLevel(int level)   // expands the frontier of histories of length `level`
    {
        const uint32_t n = (uint32_t)frh.size();
        const int nw = (int)std::min<uint32_t>((uint32_t)W, n);
        std::vector<int> fds(nw, -1); std::vector<pid_t> pids(nw, 0);
        std::vector<std::string> bufs(nw);
        std::vector<uint32_t> start(nw);
        std::vector<std::set<int> > skip(nw);
        int restarts = 0;
        auto spawn = [&](int w)
        {
            int p[2];
            if (pipe(p) != 0) { perror("pipe"); exit(2); }
            slots[w].done = 0; slots[w].state = start[w]; slots[w].op = -1;
            fflush(stdout);
            pid_t pid = fork();
            if (pid < 0) { perror("fork"); exit(2); }
            if (pid == 0)
            {
                for (int j = 0; j < nw; ++j) if (fds[j] >= 0) close(fds[j]);
                close(p[0]);
                signal(SIGPIPE, SIG_DFL);
                workerMain(level, w, start[w], skip[w], p[1]);
            }
            close(p[1]);
            fds[w] = p[0]; pids[w] = pid;
        };
        const int WW = W; W = nw;   // slices are modulo the number of workers actually started
        for (int w = 0; w < nw; ++w) { start[w] = (uint32_t)w; spawn(w); }
        int open = nw;
        while (open > 0)
        {
            std::vector<pollfd> pf;
            std::vector<int> who;
            for (int w = 0; w < nw; ++w) if (fds[w] >= 0) { pf.push_back({ fds[w], POLLIN, 0 }); who.push_back(w); }
            if (poll(pf.data(), pf.size(), -1) < 0) { if (errno == EINTR) continue; perror("poll"); exit(2); }
            for (size_t i = 0; i < pf.size(); ++i)
            {
                if (!(pf[i].revents & (POLLIN | POLLHUP | POLLERR))) continue;
                const int w = who[i];
                char tmp[1 << 16];
                ssize_t k = read(fds[w], tmp, sizeof tmp);
                if (k > 0) { bufs[w].append(tmp, (size_t)k); continue; }
                if (k < 0 && errno == EINTR) continue;
                // EOF: worker ended
                close(fds[w]); fds[w] = -1;
                int st = 0; waitpid(pids[w], &st, 0);
                if (slots[w].done && WIFEXITED(st) && WEXITSTATUS(st) == 0) { --open; continue; }
                // abnormal end: the in-flight transition is a fatal outcome
                const uint32_t si = slots[w].state; const int op = slots[w].op;
                std::string how = WIFSIGNALED(st) ? ("signal " + istr(WTERMSIG(st))) : ("exit " + istr(WEXITSTATUS(st)));
                if (WIFSIGNALED(st) && WTERMSIG(st) == SIGALRM) how = "timeout";
                if (WIFSIGNALED(st) && WTERMSIG(st) == SIGABRT) how = "abort (sanitizer report or failed assertion)";
                ++tot.fatals;
                if (op < 0)
                {
                    addViol(level, si, level ? fr[(size_t)si * level + level - 1] : -1, "fatal", "replaying the history and destroying the objects ended the worker: " + how, false);
                    start[w] = si + (uint32_t)nw; skip[w].clear();
                }
                else
                {
                    addViol(level, si, op, "fatal", "the worker ended during this transition (op, comparison or destruction): " + how, true);
                    if (start[w] != si) skip[w].clear();
                    start[w] = si; skip[w].insert(op);
                }
                // drop the partial record of the state that was in flight (records are written per finished state, so nothing to drop)
                if (++restarts > 300) { capHit = true; --open; continue; }
                if (start[w] < n) spawn(w); else --open;
            }
        }
        W = WW;
        // parse results in a deterministic order: by state index
        std::vector<Cand> cands;
        std::vector<Viol> lv;
        for (int w = 0; w < nw; ++w)
        {
            const std::string& b = bufs[w]; size_t p = 0;
            auto rd32 = [&]() { uint32_t v; memcpy(&v, b.data() + p, 4); p += 4; return v; };
            auto rdS = [&]() { uint32_t l = rd32(); std::string s = b.substr(p, l); p += l; return s; };
            while (p < b.size())
            {
                if (b[p] != 'S') { fprintf(stderr, "c20: protocol error\n"); exit(2); }
                ++p;
                const uint32_t si = rd32(); tot.transitions += rd32(); tot.comparisons += rd32(); tot.disabled += rd32(); tot.prunedAfterViolation += rd32();
                while (b[p] != 'E')
                {
                    if (b[p] == 'C')
                    {
                        ++p; Cand cd; cd.parent = si; cd.op = (uint8_t)b[p++]; cd.ev = (uint8_t)b[p++]; memcpy(&cd.h, b.data() + p, sizeof(H128)); p += sizeof(H128);
                        cands.push_back(cd);
                    }
                    else if (b[p] == 'V')
                    {
                        ++p; int32_t op; memcpy(&op, b.data() + p, 4); p += 4;
                        std::string kind = rdS(), msg = rdS(); const bool succ = b[p++] != 0;
                        const size_t before = viols.size();
                        addViol(level, si, op, kind, msg, succ);
                        lv.push_back(viols.back()); viols.resize(before);
                    }
                    else { fprintf(stderr, "c20: protocol error 2\n"); exit(2); }
                }
                ++p;
            }
        }
        for (auto& v : lv) viols.push_back(v);
        std::sort(cands.begin(), cands.end(), [](const Cand& x, const Cand& y) { return x.parent != y.parent ? x.parent < y.parent : x.op < y.op; });
        std::vector<uint8_t> nf; std::vector<H128> nh; std::vector<uint8_t> nev;
        for (auto& cd : cands)
        {
            if (!seen.insert(cd.h)) continue;
            const size_t off = nf.size();
            nf.resize(off + level + 1);
            if (level) memcpy(&nf[off], &fr[(size_t)cd.parent * level], level);
            nf[off + level] = cd.op;
            nh.push_back(cd.h); nev.push_back(cd.ev);
            ++tot.states;
            if (cd.ev) ++tot.nontrivial;
        }
        fr.swap(nf); frh.swap(nh); frev.swap(nev);
        return true;
    }

    void run()
    {
        // root
        {
            resetWorld();
            Sys* s = c.make(); std::string k; s->key(k);
            nopsCached = (int)s->ops().size();
            Fail f; s->compare(f);
            if (!f.bad) s->finish(f);
            if (f.bad) { addViol(0, 0, -1, f.kind, f.msg, false); }
            frh.push_back(hashKey(k)); frev.push_back(0); seen.insert(frh[0]); tot.states = 1;
        }
        for (int level = 0; level < depth; ++level)
        {
            if (frh.empty()) { completed = depth; break; }
            if (nowS() > deadline) { capHit = true; break; }
            runLevel(level);
            completed = level + 1;
            tot.maxDepth = completed;
            if (capHit) break;
            // samples: first / middle / last new state of the deepest level reached so far
            if (!frh.empty() && (level + 1 == depth || level + 1 == 3))
            {
                const size_t L = level + 1, n = frh.size();
                size_t pick[3] = { 0, n / 2, n - 1 };
                for (int j = 0; j < (level + 1 == depth ? 3 : 1); ++j)
                    samples.push_back(std::string(c.name) + ": " + histText(c, &fr[pick[j] * L], L));
            }
        }
    }
};

// =====================================================================================================================
// registry, replay, main

static const Container g_containers[] = {
    { "map_int", 6, 8, &MapSys<IntCodec, 2, 2>::make, "XalanMap<int,int> x2, colliding hash (2 residues), loadFactor 0.75, minBuckets 2, eraseThreshold 2, 4 keys" },
    { "map_int_b", 5, 7, &MapSys<IntCodec, 1, 3>::make, "XalanMap<int,int> x2, colliding hash, minBuckets 1, eraseThreshold 3, 4 keys" },
    { "map_str", 5, 6, &MapSys<StrCodec, 2, 2>::make, "XalanMap<XalanDOMString,int> x2, minBuckets 2, eraseThreshold 2, keys '', 'a', 'b', 'ab'" },
    { "set_int", 6, 8, &SetSys::make, "XalanSet<int> x2 over a map rebuilt with minBuckets 2, eraseThreshold 2" },
};

static void runProbes(std::vector<Viol>& viols, std::map<std::string, long long>& counts)
{
    // XalanBitmap under debug assertions: set a bit, read it back
    fflush(stdout);
    pid_t pid = fork();
    if (pid == 0)
    {
        XalanBitmapDbg bm(g_mm, 10);
        bm.set(3);
        const bool r = bm.isSet(3) && !bm.isSet(4);
        _exit(r ? 0 : 1);
    }
    int st = 0; waitpid(pid, &st, 0);
    counts["probes"] += 1;
    if (!(WIFEXITED(st) && WEXITSTATUS(st) == 0))
    {
        Viol v; v.level = 0; v.parent = 0; v.op = 0;
        v.sig = "bitmap_debug|isSet|fatal";
        v.detail = std::string("container=bitmap_debug history=[set(3) isSet(3)] op=isSet kind=fatal :: XalanBitmap compiled with assertions enabled: ") +
                   (WIFSIGNALED(st) ? "isSet(3) on a 10-bit map aborted (signal " + istr(WTERMSIG(st)) + "); the assertion in XalanBitmap.hpp isSet() is inverted (theBit >= m_size)" : "isSet returned a wrong value");
        viols.push_back(v);
        counts["violations_raw"] += 1;
    }
}
//@@REGISTRY_END@@

static const Container* findContainer(const std::string& n)
{
    for (size_t i = 0; i < sizeof(g_containers) / sizeof(g_containers[0]); ++i) if (n == g_containers[i].name) return &g_containers[i];
    return 0;
}

static int replayMain(int argc, char** argv)
{
    if (argc < 3) { fprintf(stderr, "usage: c20 replay <container> <op> <op> ...\n"); return 2; }
    const Container* c = findContainer(argv[2]);
    if (!c) { fprintf(stderr, "unknown container %s\n", argv[2]); return 2; }
    std::vector<std::string> names;
    for (int i = 3; i < argc; ++i)
    {
        std::string a = argv[i]; size_t p = 0;
        while (p < a.size()) { size_t q = a.find(' ', p); if (q == std::string::npos) q = a.size(); if (q > p) names.push_back(a.substr(p, q - p)); p = q + 1; }
    }
    resetWorld();
    Sys* s = c->make();
    setvbuf(stdout, 0, _IONBF, 0);
    printf("replay container=%s (%s), %zu op(s); every oracle runs after every op\n", c->name, c->what, names.size());
    { std::string k; s->key(k); printf("  initial key: %s\n", k.c_str()); }
    int bad = 0;
    for (size_t i = 0; i < names.size(); ++i)
    {
        int op = -1;
        for (size_t j = 0; j < s->ops().size(); ++j) if (s->ops()[j].name == names[i]) op = (int)j;
        if (op < 0) { printf("  unknown op '%s'\n", names[i].c_str()); return 2; }
        if (!s->enabled(op)) { printf("  step %zu: %s is not enabled in this state (precondition)\n", i + 1, names[i].c_str()); return 2; }
        printf("  step %zu: %s\n", i + 1, names[i].c_str());
        Fail f;
        s->apply(op, f);
        std::string k; if (!f.bad) s->key(k);
        if (!f.bad) s->compare(f);
        printf("    key: %s\n", k.c_str());
        if (f.bad) { printf("    DISAGREEMENT kind=%s :: %s\n", f.kind.c_str(), f.msg.c_str()); bad = 1; break; }
        printf("    agrees with the model\n");
    }
    if (!bad)
    {
        Fail f; s->finish(f);
        if (f.bad) { printf("  at destruction: DISAGREEMENT kind=%s :: %s\n", f.kind.c_str(), f.msg.c_str()); bad = 1; }
        else printf("  destroyed: element and memory-manager balances are zero\n");
    }
    printf(bad ? "replay: VIOLATION reproduced\n" : "replay: no disagreement\n");
    return bad;
}

int main(int argc, char** argv)
{
    if (argc >= 2 && std::string(argv[1]) == "replay") { xercesc::XMLPlatformUtils::Initialize(); return replayMain(argc, argv); }
    const size_t NC = sizeof(g_containers) / sizeof(g_containers[0]);
    if (argc >= 2 && std::string(argv[1]) == "list")
    {
        for (size_t i = 0; i < NC; ++i)
        {
            Sys* s = g_containers[i].make();
            printf("%s\tquick depth %d\tthorough depth %d\t%zu ops\t%s\n   ", g_containers[i].name, g_containers[i].depthQuick, g_containers[i].depthThorough, s->ops().size(), g_containers[i].what);
            for (auto& o : s->ops()) printf(" %s", o.name.c_str());
            printf("\n");
        }
        return 0;
    }
    if (argc < 4) { fprintf(stderr, "usage: c20 <tier> <shard> <nshards>\n"); return 2; }
    const std::string tier = argv[1];
    const int shard = atoi(argv[2]), nshards = std::max(1, atoi(argv[3]));
    xercesc::XMLPlatformUtils::Initialize();
    int jobs = getenv("VERIF_JOBS") ? atoi(getenv("VERIF_JOBS")) : 16;
    if (getenv("C20_JOBS")) jobs = atoi(getenv("C20_JOBS"));
    const int W = std::max(1, std::min(200, jobs / nshards));
    const bool quick = tier != "thorough";
    const double t0 = nowS();
    const double budget = getenv("C20_BUDGET_S") ? atof(getenv("C20_BUDGET_S")) : (quick ? 150.0 : 1080.0);
    const char* only = getenv("C20_ONLY");
    const int depthDelta = getenv("C20_DEPTH_DELTA") ? atoi(getenv("C20_DEPTH_DELTA")) : 0;

    std::map<std::string, long long> counts;
    std::vector<Viol> allViols;
    std::vector<std::string> samples;
    bool anyCap = false;
    int maxDepth = 0;
    for (size_t ci = 0; ci < NC; ++ci)
    {
        if ((int)(ci % (size_t)nshards) != shard) continue;
        const Container& c = g_containers[ci];
        if (only && std::string(only).find(c.name) == std::string::npos) continue;
        const int depth = std::max(1, (quick ? c.depthQuick : c.depthThorough) + depthDelta);
        const double tc = nowS();
        Search s(c, depth, W, t0 + budget);
        s.run();
        const std::string n = c.name;
        counts["states"] += s.tot.states;
        counts["transitions"] += s.tot.transitions;
        counts["evaluations"] += s.tot.comparisons;
        counts["nontrivial"] += s.tot.nontrivial;
        counts["fatal_outcomes"] += s.tot.fatals;
        counts["ops_disabled_by_precondition"] += s.tot.disabled;
        counts["pruned_after_violation"] += s.tot.prunedAfterViolation;
        counts["violations_raw"] += s.tot.violRaw;
        counts["containers"] += 1;
        counts["states_" + n] = s.tot.states;
        counts["transitions_" + n] = s.tot.transitions;
        counts["nontrivial_" + n] = s.tot.nontrivial;
        counts["depth_" + n] = s.completed;
        counts["depth_wanted_" + n] = depth;
        counts["ms_" + n] = (long long)((nowS() - tc) * 1000);
        if (s.capHit || s.completed < depth) { anyCap = true; counts["cap_hit_" + n] = 1; }
        maxDepth = std::max(maxDepth, s.completed);
        // minimal history per signature: BFS order = (level, parent, op)
        std::stable_sort(s.viols.begin(), s.viols.end(), [](const Viol& x, const Viol& y)
        {
            if (x.level != y.level) return x.level < y.level;
            if (x.parent != y.parent) return x.parent < y.parent;
            return x.op < y.op;
        });
        std::set<std::string> sigs;
        for (auto& v : s.viols) if (sigs.insert(v.sig).second) allViols.push_back(v);
        for (auto& x : s.samples) samples.push_back(x);
    }
    // debug-assertion probes (run in a forked child each)
    if (shard == 0 && !(only && std::string(only).find("probe") == std::string::npos))
        runProbes(allViols, counts);
    counts["max_depth"] = maxDepth;
    if (anyCap) counts["cap_hit"] = 1;
    for (auto& kv : counts) printf("count\t%s\t%lld\n", kv.first.c_str(), kv.second);
    for (auto& v : allViols) printf("viol\t%s\t%s\n", escField(v.sig).c_str(), escField(v.detail).c_str());
    for (auto& x : samples) printf("sample\t%s\n", escField(x).c_str());
    fflush(stdout);
    return 0;
}
