// C20: Xalan's own containers and string class against their standard models.
// Bounded EXHAUSTIVE explicit-state search (engine E2): breadth-first over all operation histories up to a depth,
// canonical state hashing, lock-step comparison with std:: reference models. No sampling, no randomness.
//
// usage: c20 <tier> <shard> <nshards>          (isolate.hpp line protocol on stdout: count / viol / sample)
//        c20 replay <container> <op op op ...>   (re-runs one history with every oracle after every op, prints what happens)
//        c20 list                                (containers, alphabets, depths)
//
// A state is the history that reaches it. Successors are built by replaying history+[op] on FRESH objects. States are merged
// by a canonical key = reference-model contents + the implementation's internal shape (read with -fno-access-control), hashed
// to 128 bits. The key is taken right after the op and before any observation, because several observers of the library
// allocate lazily (XalanList::begin()). The master process owns the seen-set and the frontier; for every BFS level it forks
// VERIF_JOBS workers which expand disjoint slices of the frontier and stream candidates back; a worker that dies (ASan abort,
// assert, signal, timeout) turns into a `fatal` violation carrying the exact in-flight history and is restarted behind it.
//
// CXXFLAGS: -fno-access-control -O2
#include <cstdint>
#include <cstdio>
#include <cstdlib>
#include <cstring>
#include <cassert>
#include <string>
#include <vector>
#include <list>
#include <map>
#include <set>
#include <deque>
#include <algorithm>
#include <functional>
#include <stdexcept>
#include <unistd.h>
#include <signal.h>
#include <poll.h>
#include <time.h>
#include <sys/mman.h>
#include <sys/wait.h>

#include <xercesc/util/PlatformUtils.hpp>
#include <xercesc/framework/MemoryManager.hpp>

#include <xalanc/Include/PlatformDefinitions.hpp>
#include <xalanc/Include/XalanMemoryManagement.hpp>
#include <xalanc/Include/XalanVector.hpp>
#include <xalanc/Include/XalanList.hpp>
#include <xalanc/Include/XalanMap.hpp>
#include <xalanc/Include/XalanSet.hpp>
#include <xalanc/Include/XalanDeque.hpp>
#include <xalanc/Include/STLHelper.hpp>
#include <xalanc/Include/XalanObjectCache.hpp>
#include <xalanc/XalanDOM/XalanDOMString.hpp>
#include <xalanc/PlatformSupport/XalanDOMStringHashTable.hpp>
#include <xalanc/PlatformSupport/XalanDOMStringPool.hpp>

// XalanBitmap::isSet() carries an inverted debug assertion (assert(theBit >= m_size), XalanBitmap.hpp:65). The search over the
// bitmap uses the release semantics of the header (as the library itself is built); the debug-mode behaviour is probed
// separately on a renamed copy of the class (see BitmapDbgProbe below), so the assertion stays visible as a finding.
#define NDEBUG
#include <cassert>
#include <xalanc/PlatformSupport/XalanBitmap.hpp>
#undef NDEBUG
#include <cassert>

// debug-mode copy of XalanBitmap (header + implementation compiled here under another name, asserts enabled)
#undef XALANBITMAP_HEADER_GUARD_1357924680
#define XalanBitmap XalanBitmapDbg
#undef XALAN_PLATFORMSUPPORT_EXPORT
#define XALAN_PLATFORMSUPPORT_EXPORT
#include <xalanc/PlatformSupport/XalanBitmap.hpp>
#include "/repo/src/xalanc/PlatformSupport/XalanBitmap.cpp"
#undef XalanBitmap

using namespace xalanc;

// abandoned (possibly damaged) objects are leaked on purpose after a disagreement; leak checking is not part of this check
extern "C" const char* __asan_default_options() { return "detect_leaks=0:abort_on_error=1"; }

// =====================================================================================================================
// basics

static double nowS()
{
    struct timespec ts; clock_gettime(CLOCK_MONOTONIC, &ts);
    return ts.tv_sec + ts.tv_nsec * 1e-9;
}

static std::string escField(const std::string& s)
{
    std::string o;
    for (unsigned char c : s)
    {
        switch (c)
        {
        case '\\': o += "\\\\"; break;
        case '\t': o += "\\t"; break;
        case '\n': o += "\\n"; break;
        case '\r': o += "\\r"; break;
        case 0: o += "\\0"; break;
        default: o += (char)c;
        }
    }
    return o;
}

// memory manager that counts what is outstanding (malloc underneath, so ASan sees every block)
class CountingMM : public xercesc::MemoryManager
{
public:
    long live = 0, allocs = 0;
    void* allocate(XMLSize_t n) { ++live; ++allocs; return malloc(n ? n : 1); }
    void deallocate(void* p) { if (p) { --live; free(p); } }
    xercesc::MemoryManager* getExceptionMemoryManager() { return this; }
};
static CountingMM g_mm;       // everything under test allocates here
static CountingMM g_static;   // alphabets (key strings) live here

// element type: counts instances, knows whether it is alive, poisons itself on destruction
struct Tracked
{
    enum { ALIVE = 0x600DF00Du, DEAD = 0xDEADDEADu };
    static long live, ctors, dtors, errors;
    static std::string firstError;
    static void err(const char* what) { if (errors++ == 0) firstError = what; }
    static void resetCounters() { live = ctors = dtors = errors = 0; firstError.clear(); }
    int v;
    unsigned magic;
    Tracked() : v(0), magic(ALIVE) { ++live; ++ctors; }
    explicit Tracked(int x) : v(x), magic(ALIVE) { ++live; ++ctors; }
    Tracked(const Tracked& o) : v(o.v), magic(ALIVE)
    {
        if (o.magic != ALIVE) err("copy-constructed from an object that is not alive");
        ++live; ++ctors;
    }
    Tracked& operator=(const Tracked& o)
    {
        if (magic != ALIVE) err("assigned to raw/destroyed storage");
        if (o.magic != ALIVE) err("assigned from an object that is not alive");
        v = o.v;
        return *this;
    }
    ~Tracked()
    {
        if (magic != ALIVE) err("destroyed an object that is not alive (double destroy or raw storage)");
        magic = DEAD; v = -777;
        --live; ++dtors;
    }
    bool operator==(const Tracked& o) const { return v == o.v; }
    bool operator<(const Tracked& o) const { return v < o.v; }
};
long Tracked::live = 0, Tracked::ctors = 0, Tracked::dtors = 0, Tracked::errors = 0;
std::string Tracked::firstError;

// first disagreement of one replay
struct Fail
{
    bool bad = false;
    std::string kind, msg, obs;     // obs: the observer that disagreed, when it is not the mutating op itself
    void set(const char* k, const std::string& m) { if (!bad) { bad = true; kind = k; msg = m; } }
    void setObs(const char* o, const char* k, const std::string& m) { if (!bad) { bad = true; kind = k; msg = m; obs = o; } }
};
#define CHECK(f, cond, kind, msg) do { if (!(cond)) (f).set(kind, msg); } while (0)
#define CHECKO(f, cond, obs, kind, msg) do { if (!(cond)) (f).setObs(obs, kind, msg); } while (0)

static std::string istr(long long v) { return std::to_string(v); }
static inline void num(std::string& o, size_t v) { if (v < 10) { o += (char)('0' + v); return; } char b[24]; int n = 0; while (v) { b[n++] = (char)('0' + v % 10); v /= 10; } while (n) o += b[--n]; }

// position codes: 0 = begin, 1 = middle, 2 = end. A code that coincides with a lower code is disabled (-1).
static int insPos(int pc, size_t n) { size_t v[3] = { 0, n / 2, n }; for (int j = 0; j < pc; ++j) if (v[j] == v[pc]) return -1; return (int)v[pc]; }
static int elPos(int pc, size_t n) { if (n == 0) return -1; size_t v[3] = { 0, n / 2, n - 1 }; for (int j = 0; j < pc; ++j) if (v[j] == v[pc]) return -1; return (int)v[pc]; }

enum { EV_GROW = 1, EV_REHASH = 2, EV_COMPACT = 4, EV_REUSE = 8, EV_REALLOC = 16, EV_SHIFT = 32, EV_SELF = 64 };

struct OpDesc { std::string name; int code, a, b, c; };
static std::string opBase(const std::string& n) { size_t p = n.find('('); return p == std::string::npos ? n : n.substr(0, p); }

struct Sys
{
    unsigned events = 0;
    virtual ~Sys() {}
    virtual const std::vector<OpDesc>& ops() const = 0;
    virtual bool enabled(int op) const = 0;
    virtual void apply(int op, Fail& f) = 0;      // run op on implementation and model, compare the return value
    virtual void key(std::string& out) const = 0; // canonical key, reads fields only (never calls a lazily allocating observer)
    virtual void compare(Fail& f) = 0;            // the full oracle battery
    virtual void finish(Fail& f) = 0;             // destroy the implementation objects, check balances
    virtual std::string sigSuffix() const { return std::string(); }   // qualifies the signature by a property of the model state
};

struct Container
{
    const char* name;
    int depthQuick, depthThorough;
    Sys* (*make)();
    const char* what;
};

static void resetWorld() { Tracked::resetCounters(); g_mm.live = 0; g_mm.allocs = 0; }
static void checkWorld(Fail& f)
{
    CHECK(f, Tracked::errors == 0, "balance", "element lifetime error: " + Tracked::firstError);
    CHECK(f, Tracked::live == 0, "balance", "after destruction " + istr(Tracked::live) + " element(s) still alive (ctors " + istr(Tracked::ctors) + ", dtors " + istr(Tracked::dtors) + ")");
    CHECK(f, g_mm.live == 0, "balance", "after destruction " + istr(g_mm.live) + " block(s) of the memory manager not returned");
}

// =====================================================================================================================
// XalanMap (and XalanSet on top of it)

struct CollidingHash { size_t operator()(int k) const { return (size_t)(k & 1); } };   // keys fall onto 2 residues
struct CollidingTraits { typedef CollidingHash Hasher; typedef std::equal_to<int> Comparator; };

struct IntCodec
{
    typedef int K;
    typedef XalanMap<int, int, CollidingTraits> M;
    static const int& key(int i) { static const int k[6] = { 0, 1, 2, 3, 4, 5 }; return k[i]; }
    static int index(const int& k) { return (k >= 0 && k < 6) ? k : -1; }
    static std::string show(int i) { return istr(i); }
    static size_t hashOf(const M& m, const int& k) { return m.m_hash(k); }
};

static const XalanDOMString& strKey(int i)
{
    static std::vector<XalanDOMString*> keys;
    if (keys.empty())
    {
        static const XalanDOMChar t[4][3] = { { 0, 0, 0 }, { 'a', 0, 0 }, { 'b', 0, 0 }, { 'a', 'b', 0 } };
        for (int j = 0; j < 4; ++j) keys.push_back(new XalanDOMString(t[j], g_static));
    }
    return *keys[i];
}
struct StrCodec
{
    typedef XalanDOMString K;
    typedef XalanMap<XalanDOMString, int> M;
    static const XalanDOMString& key(int i) { return strKey(i); }
    static int index(const XalanDOMString& k) { for (int i = 0; i < 4; ++i) if (k.length() == strKey(i).length() && memcmp(k.c_str(), strKey(i).c_str(), k.length() * sizeof(XalanDOMChar)) == 0) return i; return -1; }
    static std::string show(int i) { static const char* n[4] = { "''", "'a'", "'b'", "'ab'" }; return n[i]; }
    static size_t hashOf(const M& m, const XalanDOMString& k) { return m.m_hash(k); }
};

struct MapModel
{
    std::map<int, int> ref;     // key index -> value (the std:: model)
    std::vector<int> order;     // key indices in insertion order (the order the entry list is specified to keep)
    bool has(int k) const { return ref.count(k) != 0; }
    void add(int k, int v) { ref[k] = v; order.push_back(k); }
    void del(int k) { ref.erase(k); order.erase(std::find(order.begin(), order.end(), k)); }
    void clear() { ref.clear(); order.clear(); }
    void text(std::string& o) const { for (int k : order) { o += (char)('0' + k); o += '='; o += (char)('0' + ref.find(k)->second); o += ','; } }
};

// raw walk of a XalanList without calling begin()/end() (which allocate the sentinel lazily)
template <class T>
struct SmallVec     // no heap traffic on the hot path
{
    T d[40]; size_t n = 0;
    void push_back(const T& x) { if (n < 40) d[n++] = x; }
    size_t size() const { return n; }
    const T* begin() const { return d; }
    const T* end() const { return d + n; }
    const T& operator[](size_t i) const { return d[i]; }
};
template <class L, class Out>
static void listNodes(const L& l, Out& out, bool& broken)
{
    broken = false;
    if (l.m_listHead == 0) return;
    size_t guard = 0;
    for (const typename L::Node* n = l.m_listHead->next; n != l.m_listHead; n = n->next)
    {
        if (n == 0 || ++guard > 39) { broken = true; return; }
        out.push_back(n);
    }
}
template <class L>
static size_t listFreeNodes(const L& l)
{
    size_t c = 0;
    for (const typename L::Node* n = l.m_freeListHeadPtr; n != 0 && c < 10000; n = n->next) ++c;
    return c;
}

template <class Codec>
struct MapShape
{
    typedef typename Codec::M M;
    // canonical shape; also verifies the structural invariants when f != 0
    static void shape(const M& m, const MapModel& mod, std::string& o, Fail* f, const char* which)
    {
        SmallVec<const typename M::EntryListType::Node*> live, freeN;
        bool b1, b2;
        listNodes(m.m_entries, live, b1);
        listNodes(m.m_freeEntries, freeN, b2);
        if (f) { CHECK(*f, !b1 && !b2, "invariant", std::string(which) + ": entry list links are broken"); }
        o += 'n'; num(o, m.m_buckets.m_size); o += 'c'; num(o, m.m_buckets.m_allocation); o += '|';
        for (size_t b = 0; b < m.m_buckets.m_size; ++b)
        {
            const typename M::BucketType& bk = m.m_buckets.m_data[b];
            o += '['; num(o, bk.m_allocation); o += ':';
            for (size_t j = 0; j < bk.m_size; ++j)
            {
                const typename M::EntryListType::Node* n = bk.m_data[j].currentNode;
                size_t li = std::find(live.begin(), live.end(), n) - live.begin();
                size_t fi = std::find(freeN.begin(), freeN.end(), n) - freeN.begin();
                if (li < live.size()) { o += 'L'; num(o, li); }
                else if (fi < freeN.size()) { o += 'F'; num(o, fi); }
                else { o += '?'; if (f) f->set("invariant", std::string(which) + ": bucket " + istr(b) + " refers to a node that is in neither the entry list nor the free list"); }
                o += ' ';
            }
            o += ']';
        }
        o += "|f"; num(o, freeN.size()); o += 'e'; num(o, m.m_eraseCount); o += 't'; num(o, m.m_eraseThreshold);
        o += 'l'; num(o, listFreeNodes(m.m_entries)); o += ','; num(o, listFreeNodes(m.m_freeEntries));
        o += (m.m_entries.m_listHead ? 'h' : '-'); o += (m.m_freeEntries.m_listHead ? 'h' : '-');
        if (f == 0) return;
        CHECK(*f, m.m_size == live.size(), "invariant", std::string(which) + ": m_size " + istr(m.m_size) + " but the entry list holds " + istr(live.size()));
        CHECK(*f, m.m_eraseCount < m.m_eraseThreshold, "invariant", std::string(which) + ": m_eraseCount reached the threshold without compaction");
        for (size_t i = 0; i < live.size() && !f->bad; ++i)
        {
            CHECK(*f, !live[i]->value.erased, "invariant", std::string(which) + ": live entry " + istr(i) + " is marked erased");
            if (m.m_buckets.m_size == 0) { f->set("invariant", std::string(which) + ": live entries but no buckets"); break; }
            const size_t b = Codec::hashOf(m, live[i]->value.value->first) % m.m_buckets.m_size;
            const typename M::BucketType& bk = m.m_buckets.m_data[b];
            bool found = false;
            for (size_t j = 0; j < bk.m_size; ++j) if (bk.m_data[j].currentNode == live[i]) found = true;
            CHECK(*f, found, "invariant", std::string(which) + ": live entry " + istr(i) + " is not referenced from its bucket " + istr(b));
        }
        for (size_t i = 0; i < freeN.size(); ++i)
            CHECK(*f, freeN[i]->value.erased, "invariant", std::string(which) + ": free entry " + istr(i) + " is not marked erased");
        (void)mod;
    }

    static void compare(M& m, const MapModel& mod, Fail& f, const char* which)
    {
        const std::string w(which);
        CHECK(f, m.size() == mod.ref.size(), "size", w + ": size() " + istr(m.size()) + " model " + istr(mod.ref.size()));
        CHECK(f, m.empty() == mod.ref.empty(), "size", w + ": empty() disagrees");
        if (f.bad) return;
        SmallVec<std::pair<int, int> > got;
        size_t guard = 0;
        for (typename M::iterator i = m.begin(); i != m.end(); ++i)
        {
            if (++guard > 64) { f.set("contents", w + ": iteration does not end"); return; }
            got.push_back(std::make_pair(Codec::index((*i).first), i->second));
        }
        {
            bool sameSet = got.size() == mod.ref.size(), sameOrder = got.size() == mod.order.size();
            for (size_t i = 0; i < got.size(); ++i)
            {
                std::map<int, int>::const_iterator r = mod.ref.find(got[i].first);
                if (r == mod.ref.end() || r->second != got[i].second) sameSet = false;
                for (size_t j = 0; j < i; ++j) if (got[j].first == got[i].first) sameSet = false;
                if (sameOrder && mod.order[i] != got[i].first) sameOrder = false;
            }
            if (!sameSet || !sameOrder)
            {
                std::string gs, ms;
                for (size_t q = 0; q < got.size(); ++q) gs += (got[q].first < 0 ? std::string("?") : Codec::show(got[q].first)) + "=" + istr(got[q].second) + " ";
                for (int k : mod.order) ms += Codec::show(k) + "=" + istr(mod.ref.find(k)->second) + " ";
                CHECK(f, sameSet, "contents", w + ": iteration yields {" + gs + "} model {" + ms + "}");
                CHECK(f, sameOrder, "contents", w + ": iteration order {" + gs + "} differs from insertion order {" + ms + "}");
            }
        }
        // const iteration
        {
            const M& cm = m;
            size_t n = 0;
            for (typename M::const_iterator i = cm.begin(); i != cm.end() && n < 64; ++i) ++n;
            CHECK(f, n == mod.ref.size(), "contents", w + ": const iteration visits " + istr(n) + " entries");
        }
        const int NK = (int)nkeys();
        for (int k = 0; k < NK && !f.bad; ++k)
        {
            typename M::iterator i = m.find(Codec::key(k));
            const bool found = i != m.end();
            CHECK(f, found == mod.has(k), "find", w + ": find(" + Codec::show(k) + ") " + (found ? "found" : "not found") + ", model " + (mod.has(k) ? "has it" : "does not"));
            if (found && mod.has(k))
            {
                CHECK(f, Codec::index(i->first) == k, "find", w + ": find(" + Codec::show(k) + ") points at another key");
                CHECK(f, i->second == mod.ref.find(k)->second, "find", w + ": find(" + Codec::show(k) + ")->second is " + istr(i->second) + ", model " + istr(mod.ref.find(k)->second));
            }
            const M& cm = m;
            CHECK(f, (cm.find(Codec::key(k)) != cm.end()) == mod.has(k), "find", w + ": const find(" + Codec::show(k) + ") disagrees");
        }
        std::string dummy; dummy.reserve(96);
        shape(m, mod, dummy, &f, which);
    }
    static size_t& nkeys() { static size_t n = 4; return n; }
};

enum { M_INSERT, M_SETSUB, M_GETSUB, M_ERASE, M_ERASEFIND, M_CLEAR, M_ASSIGN_SELF, M_ASSIGN_FROM_B, M_ASSIGN_TO_B, M_SWAP, M_COPY, M_INSERTPAIR };

template <class Codec, int MINB, int THRESH>
struct MapSys : Sys
{
    typedef typename Codec::M M;
    M* A; M* B;
    MapModel a, b;
    static std::vector<OpDesc>& table()
    {
        static std::vector<OpDesc> t;
        if (t.empty())
        {
            const int NK = 4;
            for (int k = 0; k < NK; ++k) t.push_back({ "insert(" + Codec::show(k) + ",1)", M_INSERT, k, 1, 0 });
            for (int k = 0; k < NK; ++k) t.push_back({ "subscript_set(" + Codec::show(k) + ",2)", M_SETSUB, k, 2, 0 });
            for (int k = 0; k < NK; ++k) t.push_back({ "subscript_get(" + Codec::show(k) + ")", M_GETSUB, k, 0, 0 });
            for (int k = 0; k < NK; ++k) t.push_back({ "erase(" + Codec::show(k) + ")", M_ERASE, k, 0, 0 });
            for (int k = 0; k < NK; ++k) t.push_back({ "erase_find(" + Codec::show(k) + ")", M_ERASEFIND, k, 0, 0 });
            t.push_back({ "insert_pair(" + Codec::show(0) + ",3)", M_INSERTPAIR, 0, 3, 0 });
            t.push_back({ "clear", M_CLEAR, 0, 0, 0 });
            t.push_back({ "assign_self", M_ASSIGN_SELF, 0, 0, 0 });
            t.push_back({ "assign_from_B", M_ASSIGN_FROM_B, 0, 0, 0 });
            t.push_back({ "assign_to_B", M_ASSIGN_TO_B, 0, 0, 0 });
            t.push_back({ "swap", M_SWAP, 0, 0, 0 });
            t.push_back({ "copy_construct", M_COPY, 0, 0, 0 });
        }
        return t;
    }
    MapSys()
    {
        A = new M(g_mm, 0.75, MINB, THRESH);
        B = new M(g_mm, 0.75, MINB, THRESH);
    }
    const std::vector<OpDesc>& ops() const { return table(); }
    bool enabled(int) const { return true; }
    struct Snap { size_t nb, freeN, ec, size; };
    static Snap snap(const M& m)
    {
        size_t fr = 0;
        if (m.m_freeEntries.m_listHead) for (const typename M::EntryListType::Node* n = m.m_freeEntries.m_listHead->next; n != m.m_freeEntries.m_listHead && fr < 10000; n = n->next) ++fr;
        return { m.m_buckets.m_size, fr, m.m_eraseCount, m.m_size };
    }
    void apply(int op, Fail& f)
    {
        const OpDesc& d = table()[op];
        const Snap s0 = snap(*A);
        bool erased = false;
        switch (d.code)
        {
        case M_INSERT:
            A->insert(Codec::key(d.a), d.b);
            if (!a.has(d.a)) a.add(d.a, d.b);
            break;
        case M_INSERTPAIR:
            A->insert(typename M::value_type(Codec::key(d.a), d.b));
            if (!a.has(d.a)) a.add(d.a, d.b);
            break;
        case M_SETSUB:
            (*A)[Codec::key(d.a)] = d.b;
            if (!a.has(d.a)) a.add(d.a, d.b); else a.ref[d.a] = d.b;
            break;
        case M_GETSUB:
        {
            const int r = (*A)[Codec::key(d.a)];
            if (!a.has(d.a)) a.add(d.a, 0);
            CHECK(f, r == a.ref[d.a], "return", "operator[] returned " + istr(r) + ", model " + istr(a.ref[d.a]));
            break;
        }
        case M_ERASE:
        {
            const size_t r = A->erase(Codec::key(d.a));
            const size_t e = a.has(d.a) ? 1 : 0;
            if (e) { a.del(d.a); erased = true; }
            CHECK(f, r == e, "return", "erase(key) returned " + istr(r) + ", model " + istr(e));
            break;
        }
        case M_ERASEFIND:
            A->erase(A->find(Codec::key(d.a)));     // erase(end()) is a defined no-op in XalanMap
            if (a.has(d.a)) { a.del(d.a); erased = true; }
            break;
        case M_CLEAR: A->clear(); a.clear(); break;
        case M_ASSIGN_SELF: *A = *A; events |= EV_SELF; break;
        case M_ASSIGN_FROM_B: *A = *B; a = b; break;
        case M_ASSIGN_TO_B: *B = *A; b = a; break;
        case M_SWAP: A->swap(*B); std::swap(a, b); break;
        case M_COPY:
        {
            M c(*A, g_mm);
            MapShape<Codec>::compare(c, a, f, "copy");
            break;
        }
        }
        if (d.code != M_SWAP && d.code != M_ASSIGN_FROM_B && d.code != M_ASSIGN_SELF)
        {
            const Snap s1 = snap(*A);
            if (s0.nb != 0 && s1.nb != s0.nb) events |= EV_REHASH;
            if (s1.size > s0.size && s0.freeN > 0 && s1.freeN < s0.freeN) events |= EV_REUSE;
            if (erased && s1.ec == 0) events |= EV_COMPACT;
        }
    }
    void key(std::string& o) const
    {
        o.reserve(160);
        a.text(o); o += '/'; MapShape<Codec>::shape(*A, a, o, 0, "A"); o += "//";
        b.text(o); o += '/'; MapShape<Codec>::shape(*B, b, o, 0, "B");
    }
    void compare(Fail& f)
    {
        MapShape<Codec>::compare(*A, a, f, "A");
        MapShape<Codec>::compare(*B, b, f, "B");
    }
    void finish(Fail& f)
    {
        delete A; delete B; A = B = 0;
        checkWorld(f);
    }
    static Sys* make() { return new MapSys(); }
};

// XalanSet<int>: the public constructor cannot pass bucket parameters, so the inner map is rebuilt in place with tiny ones.
namespace XALAN_CPP_NAMESPACE { template<> struct XalanMapKeyTraits<int> { typedef CollidingHash Hasher; typedef std::equal_to<int> Comparator; }; }
struct SetCodec
{
    typedef int K;
    typedef XalanMap<int, bool> M;
    static const int& key(int i) { return IntCodec::key(i); }
    static int index(const int& k) { return IntCodec::index(k); }
    static std::string show(int i) { return istr(i); }
    static size_t hashOf(const M& m, const int& k) { return m.m_hash(k); }
};

enum { S_INSERT, S_ERASE, S_CLEAR, S_ASSIGN_SELF, S_COPY, S_ASSIGN_FROM_B, S_ASSIGN_TO_B };
struct SetSys : Sys
{
    typedef XalanSet<int> S;
    S* A; S* B;
    std::set<int> a, b;
    std::vector<int> oa, ob;   // insertion order
    static void shrink(S* s)
    {
        typedef S::SetMapType MT;
        s->m_map.~MT();
        new (&s->m_map) MT(g_mm, 0.75, 2, 2);
    }
    SetSys() { A = new S(g_mm); shrink(A); B = new S(g_mm); shrink(B); }
    static std::vector<OpDesc>& table()
    {
        static std::vector<OpDesc> t;
        if (t.empty())
        {
            for (int k = 0; k < 4; ++k) t.push_back({ "insert(" + istr(k) + ")", S_INSERT, k, 0, 0 });
            for (int k = 0; k < 4; ++k) t.push_back({ "erase(" + istr(k) + ")", S_ERASE, k, 0, 0 });
            t.push_back({ "clear", S_CLEAR, 0, 0, 0 });
            t.push_back({ "assign_self", S_ASSIGN_SELF, 0, 0, 0 });
            t.push_back({ "assign_from_B", S_ASSIGN_FROM_B, 0, 0, 0 });
            t.push_back({ "assign_to_B", S_ASSIGN_TO_B, 0, 0, 0 });
            t.push_back({ "copy_construct", S_COPY, 0, 0, 0 });
        }
        return t;
    }
    const std::vector<OpDesc>& ops() const { return table(); }
    bool enabled(int) const { return true; }
    static void cmp(const S& s, const std::set<int>& m, const std::vector<int>& ord, Fail& f, const char* which)
    {
        const std::string w(which);
        CHECK(f, s.size() == m.size(), "size", w + ": size() " + istr(s.size()) + " model " + istr(m.size()));
        std::vector<int> got; size_t guard = 0;
        for (S::const_iterator i = s.begin(); i != s.end(); ++i) { if (++guard > 64) { f.set("contents", w + ": iteration does not end"); return; } got.push_back(*i); }
        std::string gs, ms; for (int k : got) gs += istr(k) + " "; for (int k : ord) ms += istr(k) + " ";
        CHECK(f, std::set<int>(got.begin(), got.end()) == m && got.size() == m.size(), "contents", w + ": iteration yields {" + gs + "} model {" + ms + "}");
        CHECK(f, got == ord, "contents", w + ": iteration order {" + gs + "} differs from insertion order {" + ms + "}");
        for (int k = 0; k < 4; ++k)
        {
            CHECK(f, s.count(k) == m.count(k), "find", w + ": count(" + istr(k) + ") " + istr(s.count(k)) + " model " + istr(m.count(k)));
            S::const_iterator i = s.find(k);
            CHECK(f, (i != s.end()) == (m.count(k) != 0), "find", w + ": find(" + istr(k) + ") disagrees");
            if (i != s.end()) CHECK(f, *i == k, "find", w + ": find(" + istr(k) + ") points at " + istr(*i));
        }
    }
    void apply(int op, Fail& f)
    {
        const OpDesc& d = table()[op];
        const size_t nb0 = A->m_map.m_buckets.m_size;
        switch (d.code)
        {
        case S_INSERT: A->insert(d.a); if (a.insert(d.a).second) oa.push_back(d.a); break;
        case S_ERASE:
        {
            const size_t r = A->erase(d.a);
            const size_t e = a.erase(d.a);
            if (e) { oa.erase(std::find(oa.begin(), oa.end(), d.a)); if (A->m_map.m_eraseCount == 0) events |= EV_COMPACT; }
            CHECK(f, r == e, "return", "erase returned " + istr(r) + ", model " + istr(e));
            break;
        }
        case S_CLEAR: A->clear(); a.clear(); oa.clear(); break;
        case S_ASSIGN_SELF: *A = *A; events |= EV_SELF; break;
        case S_ASSIGN_FROM_B: *A = *B; a = b; oa = ob; break;
        case S_ASSIGN_TO_B: *B = *A; b = a; ob = oa; break;
        case S_COPY: { S c(*A, g_mm); cmp(c, a, oa, f, "copy"); break; }
        }
        if (d.code == S_INSERT && nb0 != 0 && A->m_map.m_buckets.m_size != nb0) events |= EV_REHASH;
    }
    void key(std::string& o) const
    {
        MapModel dummy;
        for (int k : oa) o += (char)('0' + k); o += '/'; MapShape<SetCodec>::shape(A->m_map, dummy, o, 0, "A");
        o += "//";
        for (int k : ob) o += (char)('0' + k); o += '/'; MapShape<SetCodec>::shape(B->m_map, dummy, o, 0, "B");
    }
    void compare(Fail& f)
    {
        cmp(*A, a, oa, f, "A"); cmp(*B, b, ob, f, "B");
        MapModel dummy; std::string s;
        MapShape<SetCodec>::shape(A->m_map, dummy, s, &f, "A"); MapShape<SetCodec>::shape(B->m_map, dummy, s, &f, "B");
    }
    void finish(Fail& f) { delete A; delete B; A = B = 0; checkWorld(f); }
    static Sys* make() { return new SetSys(); }
};

// =====================================================================================================================
// XalanVector<Tracked>

static void vtext(const std::vector<int>& v, std::string& o) { for (int x : v) o += (char)('0' + x); }
static std::string vshow(const std::vector<int>& v) { std::string o = "["; for (size_t i = 0; i < v.size(); ++i) { if (i) o += ','; num(o, v[i]); } return o + "]"; }
template <class It> static std::string tshow(It b, It e) { std::string o = "["; size_t n = 0; for (; b != e && n < 64; ++b, ++n) { if (n) o += ','; o += ((*b).magic == Tracked::ALIVE ? istr((*b).v) : std::string("DEAD")); } return o + "]"; }

enum { V_PUSH, V_PUSH_ALIAS, V_POP, V_INSERT, V_INSERT_ALIAS, V_INSERT_N, V_INSERT_RANGE, V_ERASE, V_ERASE_RANGE, V_RESIZE, V_RESIZE_FILL,
       V_RESERVE, V_ASSIGN_RANGE, V_CLEAR, V_SWAP, V_COPY, V_ASSIGN_FROM_B, V_ASSIGN_TO_B, V_ASSIGN_SELF, V_INSERT_N_ALIAS };
static const char* const PN[3] = { "begin", "mid", "end" };
static const char* const EN[3] = { "first", "mid", "last" };

struct VecSys : Sys
{
    typedef XalanVector<Tracked> V;
    V* A; V* B;
    std::vector<int> a, b;
    static std::vector<OpDesc>& table()
    {
        static std::vector<OpDesc> t;
        if (t.empty())
        {
            for (int v = 0; v < 3; ++v) t.push_back({ "push_back(" + istr(v) + ")", V_PUSH, v, 0, 0 });
            t.push_back({ "push_back_alias(first)", V_PUSH_ALIAS, 0, 0, 0 });
            t.push_back({ "pop_back", V_POP, 0, 0, 0 });
            for (int p = 0; p < 3; ++p) for (int v = 0; v < 3; ++v) t.push_back({ std::string("insert(") + PN[p] + "," + istr(v) + ")", V_INSERT, p, v, 0 });
            for (int p = 0; p < 2; ++p) t.push_back({ std::string("insert_alias(") + PN[p] + ",last)", V_INSERT_ALIAS, p, 0, 0 });
            t.push_back({ "insert_alias_at_end(last)", V_INSERT_ALIAS, 2, 0, 0 });
            for (int p = 0; p < 3; ++p) t.push_back({ std::string("insert_n(") + PN[p] + ",2,1)", V_INSERT_N, p, 2, 1 });
            for (int p = 0; p < 3; ++p) t.push_back({ std::string("insert_n(") + PN[p] + ",3,2)", V_INSERT_N, p, 3, 2 });
            t.push_back({ "insert_n(mid,0,1)", V_INSERT_N, 1, 0, 1 });
            t.push_back({ "insert_n_alias(begin,2,last)", V_INSERT_N_ALIAS, 0, 2, 0 });
            for (int p = 0; p < 3; ++p) t.push_back({ std::string("insert_range(") + PN[p] + ",B)", V_INSERT_RANGE, p, 0, 0 });
            for (int p = 0; p < 3; ++p) t.push_back({ std::string("erase(") + EN[p] + ")", V_ERASE, p, 0, 0 });
            t.push_back({ "erase_range(begin,mid)", V_ERASE_RANGE, 0, 1, 0 });
            t.push_back({ "erase_range(mid,end)", V_ERASE_RANGE, 1, 2, 0 });
            t.push_back({ "erase_range(begin,end)", V_ERASE_RANGE, 0, 2, 0 });
            t.push_back({ "erase_range(mid,mid)", V_ERASE_RANGE, 1, 1, 0 });
            for (int n : { 0, 2, 4 }) t.push_back({ "resize(" + istr(n) + ")", V_RESIZE, n, 0, 0 });
            for (int n : { 1, 3, 5 }) t.push_back({ "resize_fill(" + istr(n) + ",1)", V_RESIZE_FILL, n, 1, 0 });
            for (int n : { 3, 6 }) t.push_back({ "reserve(" + istr(n) + ")", V_RESERVE, n, 0, 0 });
            t.push_back({ "assign_range(B)", V_ASSIGN_RANGE, 0, 0, 0 });
            t.push_back({ "clear", V_CLEAR, 0, 0, 0 });
            t.push_back({ "swap", V_SWAP, 0, 0, 0 });
            t.push_back({ "copy_construct", V_COPY, 0, 0, 0 });
            t.push_back({ "assign_from_B", V_ASSIGN_FROM_B, 0, 0, 0 });
            t.push_back({ "assign_to_B", V_ASSIGN_TO_B, 0, 0, 0 });
            t.push_back({ "assign_self", V_ASSIGN_SELF, 0, 0, 0 });
        }
        return t;
    }
    VecSys() { A = new V(g_mm); B = new V(g_mm); }
    const std::vector<OpDesc>& ops() const { return table(); }
    static int rangePos(int code, size_t n) { return code == 0 ? 0 : code == 1 ? (int)(n / 2) : (int)n; }
    bool enabled(int op) const
    {
        const OpDesc& d = table()[op];
        const size_t n = a.size();
        switch (d.code)
        {
        case V_PUSH_ALIAS: case V_POP: return n > 0;
        case V_INSERT: case V_INSERT_N: case V_INSERT_RANGE: return insPos(d.a, n) >= 0;
        case V_INSERT_ALIAS: case V_INSERT_N_ALIAS: return n > 0 && insPos(d.a, n) >= 0;
        case V_ERASE: return elPos(d.a, n) >= 0;
        case V_ERASE_RANGE: return n > 0 && (d.a == d.b || rangePos(d.a, n) < rangePos(d.b, n)) && !(d.a == 0 && d.b == 1 && n / 2 == n);
        default: return true;
        }
    }
    static void cmp(V& x, const std::vector<int>& m, Fail& f, const char* which)
    {
        const std::string w(which);
        CHECK(f, x.size() == m.size(), "size", w + ": size() " + istr(x.size()) + " model " + istr(m.size()));
        CHECK(f, x.empty() == m.empty(), "size", w + ": empty() disagrees");
        CHECK(f, x.capacity() >= x.size(), "invariant", w + ": capacity() < size()");
        if (f.bad) return;
        CHECK(f, (size_t)(x.end() - x.begin()) == m.size(), "size", w + ": end()-begin() is " + istr(x.end() - x.begin()));
        bool same = true;
        size_t i = 0;
        for (V::iterator it = x.begin(); it != x.end(); ++it, ++i) if (it->magic != Tracked::ALIVE || it->v != m[i]) same = false;
        CHECK(f, same, "contents", w + ": iteration yields " + tshow(x.begin(), x.end()) + " model " + vshow(m));
        if (f.bad) return;
        const V& cx = x;
        for (i = 0; i < m.size(); ++i)
        {
            CHECK(f, x[i].v == m[i] && cx[i].v == m[i] && x.at(i).v == m[i] && cx.at(i).v == m[i], "contents", w + ": operator[]/at(" + istr(i) + ") disagrees");
        }
        i = m.size();
        for (V::const_reverse_iterator r = cx.rbegin(); r != cx.rend(); ++r) { --i; if (r->v != m[i]) same = false; }
        CHECK(f, same && i == 0, "contents", w + ": reverse iteration disagrees");
        if (!m.empty()) CHECK(f, x.front().v == m.front() && x.back().v == m.back() && cx.front().v == m.front() && cx.back().v == m.back(), "contents", w + ": front()/back() disagree");
        bool threw = false;
        try { x.at(m.size()); } catch (const std::out_of_range&) { threw = true; }
        CHECK(f, threw, "return", w + ": at(size()) did not throw std::out_of_range");
    }
    void apply(int op, Fail& f)
    {
        const OpDesc& d = table()[op];
        const size_t n = a.size();
        const size_t cap0 = A->m_allocation; const Tracked* data0 = A->m_data;
        switch (d.code)
        {
        case V_PUSH: { Tracked t(d.a); A->push_back(t); a.push_back(d.a); break; }
        case V_PUSH_ALIAS: A->push_back((*A)[0]); a.push_back(a[0]); events |= EV_SELF; break;
        case V_POP: A->pop_back(); a.pop_back(); break;
        case V_INSERT:
        {
            const int p = insPos(d.a, n); Tracked t(d.b);
            V::iterator r = A->insert(A->begin() + p, t);
            a.insert(a.begin() + p, d.b);
            CHECK(f, r == A->begin() + p, "return", "insert(pos,x) returned begin()+" + istr(r - A->begin()) + ", expected begin()+" + istr(p));
            if ((size_t)p < n) events |= EV_SHIFT;
            break;
        }
        case V_INSERT_ALIAS:
        {
            const int p = insPos(d.a, n);
            V::iterator r = A->insert(A->begin() + p, (*A)[n - 1]);
            a.insert(a.begin() + p, int(a[n - 1]));
            CHECK(f, r == A->begin() + p, "return", "insert(pos,x) returned a wrong iterator");
            events |= EV_SELF;
            break;
        }
        case V_INSERT_N:
        {
            const int p = insPos(d.a, n); Tracked t(d.c);
            A->insert(A->begin() + p, (size_t)d.b, t);
            a.insert(a.begin() + p, (size_t)d.b, d.c);
            if ((size_t)p < n) events |= EV_SHIFT;
            break;
        }
        case V_INSERT_N_ALIAS:
        {
            const int p = insPos(d.a, n);
            A->insert(A->begin() + p, (size_t)d.b, (*A)[n - 1]);
            a.insert(a.begin() + p, (size_t)d.b, int(a[n - 1]));
            events |= EV_SELF;
            break;
        }
        case V_INSERT_RANGE:
        {
            const int p = insPos(d.a, n);
            const V& cb = *B;
            A->insert(A->begin() + p, cb.begin(), cb.end());
            a.insert(a.begin() + p, b.begin(), b.end());
            if ((size_t)p < n && !b.empty()) events |= EV_SHIFT;
            break;
        }
        case V_ERASE:
        {
            const int p = elPos(d.a, n);
            V::iterator r = A->erase(A->begin() + p);
            a.erase(a.begin() + p);
            CHECK(f, r == A->begin() + p, "return", "erase(pos) returned a wrong iterator");
            break;
        }
        case V_ERASE_RANGE:
        {
            const int p = rangePos(d.a, n), q = rangePos(d.b, n);
            V::iterator r = A->erase(A->begin() + p, A->begin() + q);
            a.erase(a.begin() + p, a.begin() + q);
            CHECK(f, r == A->begin() + p, "return", "erase(first,last) returned a wrong iterator");
            break;
        }
        case V_RESIZE: A->resize((size_t)d.a); a.resize((size_t)d.a, 0); break;
        case V_RESIZE_FILL: { Tracked t(d.b); A->resize((size_t)d.a, t); a.resize((size_t)d.a, d.b); break; }
        case V_RESERVE: A->reserve((size_t)d.a); CHECK(f, A->capacity() >= (size_t)d.a, "return", "capacity() below the reserved amount"); break;
        case V_ASSIGN_RANGE: { const V& cb = *B; A->assign(cb.begin(), cb.end()); a = b; break; }
        case V_CLEAR: A->clear(); a.clear(); break;
        case V_SWAP: A->swap(*B); a.swap(b); break;
        case V_COPY:
        {
            V c(*A, g_mm);
            cmp(c, a, f, "copy");
            CHECK(f, (c == *A) && !(c != *A) && !(c < *A) && (c <= *A), "return", "relational operators on a copy disagree");
            break;
        }
        case V_ASSIGN_FROM_B: *A = *B; a = b; break;
        case V_ASSIGN_TO_B: *B = *A; b = a; break;
        case V_ASSIGN_SELF: *A = *A; events |= EV_SELF; break;
        }
        if (d.code != V_SWAP && (A->m_allocation != cap0 || A->m_data != data0) && cap0 != 0) events |= EV_REALLOC;
        if (d.code != V_SWAP && cap0 != 0 && A->m_allocation > cap0) events |= EV_GROW;
    }
    void key(std::string& o) const
    {
        vtext(a, o); o += 'c'; num(o, A->m_allocation); o += '/'; vtext(b, o); o += 'c'; num(o, B->m_allocation);
    }
    void compare(Fail& f)
    {
        cmp(*A, a, f, "A"); cmp(*B, b, f, "B");
        CHECK(f, Tracked::errors == 0, "balance", "element lifetime error: " + Tracked::firstError);
        CHECK(f, Tracked::live == (long)(a.size() + b.size()), "balance", istr(Tracked::live) + " elements alive, the two vectors hold " + istr(a.size() + b.size()));
        CHECKO(f, (*A == *B) == (a == b) && (*A != *B) == (a != b) && (*A < *B) == (a < b) && (*A <= *B) == (a <= b) && (*A > *B) == (a > b) && (*A >= *B) == (a >= b),
              "relational_operators", "return", "relational operators between A and B disagree with the model");
    }
    void finish(Fail& f) { delete A; delete B; A = B = 0; checkWorld(f); }
    static Sys* make() { return new VecSys(); }
};

// =====================================================================================================================
// XalanList<Tracked>

enum { L_PUSH_BACK, L_PUSH_FRONT, L_POP_BACK, L_POP_FRONT, L_INSERT, L_ERASE, L_SPLICE1_FROM_B, L_SPLICE1_SELF, L_SPLICE_RANGE_FROM_B, L_SPLICE_TAIL_FROM_B,
       L_SPLICE_RANGE_SELF, L_SPLICE_TO_B, L_CLEAR, L_SWAP };
struct ListSys : Sys
{
    typedef XalanList<Tracked> L;
    L* A; L* B;
    std::list<int> a, b;
    static std::vector<OpDesc>& table()
    {
        static std::vector<OpDesc> t;
        if (t.empty())
        {
            for (int v = 0; v < 3; ++v) t.push_back({ "push_back(" + istr(v) + ")", L_PUSH_BACK, v, 0, 0 });
            for (int v = 0; v < 3; ++v) t.push_back({ "push_front(" + istr(v) + ")", L_PUSH_FRONT, v, 0, 0 });
            t.push_back({ "pop_back", L_POP_BACK, 0, 0, 0 });
            t.push_back({ "pop_front", L_POP_FRONT, 0, 0, 0 });
            for (int p = 0; p < 3; ++p) for (int v = 0; v < 3; ++v) t.push_back({ std::string("insert(") + PN[p] + "," + istr(v) + ")", L_INSERT, p, v, 0 });
            for (int p = 0; p < 3; ++p) t.push_back({ std::string("erase(") + EN[p] + ")", L_ERASE, p, 0, 0 });
            for (int p = 0; p < 3; ++p) for (int e = 0; e < 3; e += 2) t.push_back({ std::string("splice_one_from_B(") + PN[p] + "," + EN[e] + ")", L_SPLICE1_FROM_B, p, e, 0 });
            for (int p = 0; p < 3; ++p) for (int e = 0; e < 3; e += 2) t.push_back({ std::string("splice_one_self(") + PN[p] + "," + EN[e] + ")", L_SPLICE1_SELF, p, e, 0 });
            for (int p = 0; p < 3; ++p) t.push_back({ std::string("splice_all_from_B(") + PN[p] + ")", L_SPLICE_RANGE_FROM_B, p, 0, 0 });
            t.push_back({ "splice_tail_from_B(end)", L_SPLICE_TAIL_FROM_B, 2, 0, 0 });
            t.push_back({ "splice_range_self(end,begin,mid)", L_SPLICE_RANGE_SELF, 0, 0, 0 });
            t.push_back({ "splice_range_self(begin,mid,end)", L_SPLICE_RANGE_SELF, 1, 0, 0 });
            t.push_back({ "splice_first_to_B", L_SPLICE_TO_B, 0, 0, 0 });
            t.push_back({ "clear", L_CLEAR, 0, 0, 0 });
            t.push_back({ "swap", L_SWAP, 0, 0, 0 });
        }
        return t;
    }
    ListSys() { A = new L(g_mm); B = new L(g_mm); }
    const std::vector<OpDesc>& ops() const { return table(); }
    bool enabled(int op) const
    {
        const OpDesc& d = table()[op];
        const size_t n = a.size(), nb = b.size();
        switch (d.code)
        {
        case L_POP_BACK: case L_POP_FRONT: case L_SPLICE_TO_B: return n > 0;
        case L_INSERT: return insPos(d.a, n) >= 0;
        case L_ERASE: return elPos(d.a, n) >= 0;
        case L_SPLICE1_FROM_B: return insPos(d.a, n) >= 0 && elPos(d.b, nb) >= 0;
        case L_SPLICE1_SELF: return insPos(d.a, n) >= 0 && elPos(d.b, n) >= 0;
        case L_SPLICE_RANGE_FROM_B: return insPos(d.a, n) >= 0;
        case L_SPLICE_TAIL_FROM_B: return nb >= 2;
        case L_SPLICE_RANGE_SELF: return n >= 2;
        default: return true;
        }
    }
    static L::iterator at(L& l, int p) { L::iterator i = l.begin(); while (p-- > 0) ++i; return i; }
    static std::list<int>::iterator at(std::list<int>& l, int p) { std::list<int>::iterator i = l.begin(); std::advance(i, p); return i; }
    static void cmp(L& x, const std::list<int>& m, Fail& f, const char* which)
    {
        const std::string w(which);
        const L& cx = x;
        CHECK(f, x.empty() == m.empty(), "size", w + ": empty() disagrees");
        std::vector<int> mv(m.begin(), m.end());
        bool same = true; size_t i = 0;
        for (L::iterator it = x.begin(); it != x.end(); ++it, ++i)
        {
            if (i >= 64) { f.set("contents", w + ": iteration does not end"); return; }
            if (i >= mv.size() || it->magic != Tracked::ALIVE || it->v != mv[i]) same = false;
        }
        CHECK(f, same && i == mv.size(), "contents", w + ": iteration yields " + tshow(x.begin(), x.end()) + " model " + vshow(mv));
        if (f.bad) return;
        CHECK(f, x.size() == m.size() && cx.size() == m.size(), "size", w + ": size() " + istr(x.size()) + " model " + istr(m.size()));
        i = 0;
        for (L::const_iterator it = cx.begin(); it != cx.end() && i < 64; ++it, ++i) if (i >= mv.size() || it->v != mv[i]) same = false;
        CHECK(f, same && i == mv.size(), "contents", w + ": const iteration disagrees");
        i = mv.size();
        for (L::reverse_iterator r = x.rbegin(); r != x.rend(); ++r) { if (i == 0) { same = false; break; } --i; if ((*r).v != mv[i]) same = false; }
        CHECK(f, same && i == 0, "contents", w + ": reverse iteration (prev links) disagrees with the model");
        if (!m.empty()) CHECK(f, x.front().v == m.front() && x.back().v == m.back(), "contents", w + ": front()/back() disagree");
    }
    void apply(int op, Fail& f)
    {
        const OpDesc& d = table()[op];
        const size_t n = a.size();
        const size_t free0 = listFreeNodes(*A);
        switch (d.code)
        {
        case L_PUSH_BACK: { Tracked t(d.a); A->push_back(t); a.push_back(d.a); break; }
        case L_PUSH_FRONT: { Tracked t(d.a); A->push_front(t); a.push_front(d.a); break; }
        case L_POP_BACK: A->pop_back(); a.pop_back(); break;
        case L_POP_FRONT: A->pop_front(); a.pop_front(); break;
        case L_INSERT:
        {
            const int p = insPos(d.a, n); Tracked t(d.b);
            L::iterator r = A->insert(at(*A, p), t);
            a.insert(at(a, p), d.b);
            CHECK(f, (*r).v == d.b && r == at(*A, p), "return", "insert returned an iterator that is not the new element at position " + istr(p));
            break;
        }
        case L_ERASE: { const int p = elPos(d.a, n); A->erase(at(*A, p)); a.erase(at(a, p)); break; }
        case L_SPLICE1_FROM_B:
        {
            const int p = insPos(d.a, n), e = elPos(d.b, b.size());
            A->splice(at(*A, p), *B, at(*B, e));
            a.splice(at(a, p), b, at(b, e));
            break;
        }
        case L_SPLICE1_SELF:
        {
            const int p = insPos(d.a, n), e = elPos(d.b, n);
            A->splice(at(*A, p), *A, at(*A, e));
            a.splice(at(a, p), a, at(a, e));
            events |= EV_SELF;
            break;
        }
        case L_SPLICE_RANGE_FROM_B:
        {
            const int p = insPos(d.a, n);
            A->splice(at(*A, p), *B, B->begin(), B->end());
            a.splice(at(a, p), b, b.begin(), b.end());
            break;
        }
        case L_SPLICE_TAIL_FROM_B:
            A->splice(A->end(), *B, at(*B, 1), B->end());
            a.splice(a.end(), b, at(b, 1), b.end());
            break;
        case L_SPLICE_RANGE_SELF:
            if (d.a == 0) { A->splice(A->end(), *A, A->begin(), at(*A, (int)(n / 2))); a.splice(a.end(), a, a.begin(), at(a, (int)(n / 2))); }
            else { A->splice(A->begin(), *A, at(*A, (int)(n / 2)), A->end()); a.splice(a.begin(), a, at(a, (int)(n / 2)), a.end()); }
            events |= EV_SELF;
            break;
        case L_SPLICE_TO_B: B->splice(B->end(), *A, A->begin()); b.splice(b.end(), a, a.begin()); break;
        case L_CLEAR: A->clear(); a.clear(); break;
        case L_SWAP: A->swap(*B); a.swap(b); break;
        }
        if (d.code != L_SWAP && listFreeNodes(*A) < free0) events |= EV_REUSE;
    }
    void key(std::string& o) const
    {
        for (int x : a) o += (char)('0' + x); o += 'f'; num(o, listFreeNodes(*A)); o += (A->m_listHead ? 'h' : '-'); o += '/';
        for (int x : b) o += (char)('0' + x); o += 'f'; num(o, listFreeNodes(*B)); o += (B->m_listHead ? 'h' : '-');
    }
    void compare(Fail& f)
    {
        cmp(*A, a, f, "A"); cmp(*B, b, f, "B");
        CHECK(f, Tracked::errors == 0, "balance", "element lifetime error: " + Tracked::firstError);
        CHECK(f, Tracked::live == (long)(a.size() + b.size()), "balance", istr(Tracked::live) + " elements alive, the two lists hold " + istr(a.size() + b.size()));
    }
    void finish(Fail& f) { delete A; delete B; A = B = 0; checkWorld(f); }
    static Sys* make() { return new ListSys(); }
};

// =====================================================================================================================
// XalanDeque<Tracked>, block size 2

enum { D_PUSH, D_POP, D_CLEAR, D_RESIZE, D_SET, D_COPY, D_ASSIGN_FROM_B, D_ASSIGN_TO_B, D_ASSIGN_SELF, D_SWAP };
template <int BSB>
struct DequeSysT : Sys
{
    typedef XalanDeque<Tracked> D;
    D* A; D* B;
    std::deque<int> a, b;
    static std::vector<OpDesc>& table()
    {
        static std::vector<OpDesc> t;
        if (t.empty())
        {
            for (int v = 0; v < 3; ++v) t.push_back({ "push_back(" + istr(v) + ")", D_PUSH, v, 0, 0 });
            t.push_back({ "pop_back", D_POP, 0, 0, 0 });
            t.push_back({ "clear", D_CLEAR, 0, 0, 0 });
            for (int n : { 0, 1, 3, 4, 6 }) t.push_back({ "resize(" + istr(n) + ")", D_RESIZE, n, 0, 0 });
            for (int p = 0; p < 3; ++p) t.push_back({ std::string("set(") + EN[p] + ",2)", D_SET, p, 2, 0 });
            t.push_back({ "copy_construct", D_COPY, 0, 0, 0 });
            t.push_back({ "assign_from_B", D_ASSIGN_FROM_B, 0, 0, 0 });
            t.push_back({ "assign_to_B", D_ASSIGN_TO_B, 0, 0, 0 });
            t.push_back({ "assign_self", D_ASSIGN_SELF, 0, 0, 0 });
            t.push_back({ "swap", D_SWAP, 0, 0, 0 });
        }
        return t;
    }
    DequeSysT() { A = new D(g_mm, 0, 2); B = new D(g_mm, 3, BSB); b.assign(3, 0); }   // B: the initial-size constructor, its own block size
    const std::vector<OpDesc>& ops() const { return table(); }
    bool enabled(int op) const
    {
        const OpDesc& d = table()[op];
        if (d.code == D_POP) return !a.empty();
        if (d.code == D_SET) return elPos(d.a, a.size()) >= 0;
        return true;
    }
    static void cmp(D& x, const std::deque<int>& m, Fail& f, const char* which)
    {
        const std::string w(which);
        const D& cx = x;
        CHECK(f, x.size() == m.size(), "size", w + ": size() " + istr(x.size()) + " model " + istr(m.size()));
        CHECK(f, x.empty() == m.empty(), "size", w + ": empty() disagrees");
        if (f.bad) return;
        std::vector<int> mv(m.begin(), m.end());
        bool same = true; size_t i = 0;
        for (D::iterator it = x.begin(); it != x.end(); ++it, ++i) { if (i >= mv.size() || (*it).magic != Tracked::ALIVE || (*it).v != mv[i]) same = false; }
        CHECK(f, same && i == mv.size(), "contents", w + ": iteration yields " + tshow(x.begin(), x.end()) + " model " + vshow(mv));
        if (f.bad) return;
        for (i = 0; i < mv.size(); ++i) CHECK(f, x[i].v == mv[i] && cx[i].v == mv[i], "contents", w + ": operator[](" + istr(i) + ") disagrees");
        i = 0;
        for (D::const_iterator it = cx.begin(); it != cx.end(); ++it, ++i) if ((*it).v != mv[i]) same = false;
        CHECK(f, same, "contents", w + ": const iteration disagrees");
        i = mv.size();
        for (D::const_reverse_iterator r = cx.rbegin(); r != cx.rend(); ++r) { if (i == 0) { same = false; break; } --i; if ((*r).v != mv[i]) same = false; }
        CHECK(f, same && i == 0, "contents", w + ": reverse iteration disagrees");
        if (!m.empty()) CHECK(f, x.back().v == m.back(), "contents", w + ": back() disagrees");
        for (size_t k = 0; k + 1 < x.m_blockIndex.size(); ++k) CHECK(f, x.m_blockIndex[k]->size() == x.m_blockSize, "invariant", w + ": an inner block is not full");
        if (!x.m_blockIndex.empty()) CHECK(f, !x.m_blockIndex.back()->empty(), "invariant", w + ": the last block is empty");
    }
    void apply(int op, Fail& f)
    {
        const OpDesc& d = table()[op];
        const size_t free0 = A->m_freeBlockVector.m_size, nb0 = A->m_blockIndex.m_size, cap0 = A->m_blockIndex.m_allocation;
        switch (d.code)
        {
        case D_PUSH: { Tracked t(d.a); A->push_back(t); a.push_back(d.a); break; }
        case D_POP: A->pop_back(); a.pop_back(); break;
        case D_CLEAR: A->clear(); a.clear(); break;
        case D_RESIZE: A->resize((size_t)d.a); a.resize((size_t)d.a, 0); break;
        case D_SET: { const int p = elPos(d.a, a.size()); (*A)[p] = Tracked(d.b); a[p] = d.b; break; }
        case D_COPY: { D c(*A, g_mm); cmp(c, a, f, "copy"); break; }
        case D_ASSIGN_FROM_B: *A = *B; a = b; break;
        case D_ASSIGN_TO_B: *B = *A; b = a; break;
        case D_ASSIGN_SELF: *A = *A; events |= EV_SELF; break;
        case D_SWAP: A->swap(*B); a.swap(b); break;
        }
        if (d.code != D_SWAP)
        {
            if (A->m_freeBlockVector.m_size < free0 && A->m_blockIndex.m_size > 0) events |= EV_REUSE;
            if (A->m_blockIndex.m_allocation != cap0 && cap0 != 0) events |= EV_REALLOC;
            if (A->m_blockIndex.m_size > nb0 && nb0 > 0) events |= EV_GROW;
        }
    }
    static void shape(const D& x, std::string& o)
    {
        o += 'n'; num(o, x.m_blockIndex.m_size); o += 'c'; num(o, x.m_blockIndex.m_allocation);
        o += 'f'; num(o, x.m_freeBlockVector.m_size); o += 'c'; num(o, x.m_freeBlockVector.m_allocation);
        for (size_t i = 0; i < x.m_blockIndex.m_size; ++i) { o += 'b'; num(o, x.m_blockIndex.m_data[i]->m_allocation); }
    }
    void key(std::string& o) const
    {
        for (int x : a) o += (char)('0' + x); shape(*A, o); o += '/';
        for (int x : b) o += (char)('0' + x); shape(*B, o);
    }
    void compare(Fail& f)
    {
        cmp(*A, a, f, "A"); cmp(*B, b, f, "B");
        CHECK(f, Tracked::errors == 0, "balance", "element lifetime error: " + Tracked::firstError);
        CHECK(f, Tracked::live == (long)(a.size() + b.size()), "balance", istr(Tracked::live) + " elements alive, the two deques hold " + istr(a.size() + b.size()));
    }
    void finish(Fail& f) { delete A; delete B; A = B = 0; checkWorld(f); }
    static Sys* make() { return new DequeSysT<BSB>(); }
};
typedef DequeSysT<2> DequeSys;

// =====================================================================================================================
// XalanDOMString against std::u16string

typedef std::u16string U;
static const XalanDOMChar CH[3] = { 'a', 'b', 0xD83D };          // the third is an unpaired high surrogate
static const char* const CHN[3] = { "a", "b", "hs" };
static const XalanDOMChar LIT_AB[] = { 'a', 'b', 0 }, LIT_BA[] = { 'b', 'a', 0 }, LIT_A[] = { 'a', 0 }, LIT_E[] = { 0 };
static char uch(char16_t c) { return c == 0 ? '0' : c < 128 ? (char)c : 'S'; }
static std::string ushow(const U& u) { std::string o = "\""; for (char16_t c : u) { if (c == 0) o += "\\0"; else if (c < 128) o += (char)c; else o += "<hs>"; } return o + "\""; }
static std::string xshow(const XalanDOMChar* p, size_t n) { U u; for (size_t i = 0; i < n; ++i) u += (char16_t)p[i]; return ushow(u); }
static int sgn(int x) { return x < 0 ? -1 : x > 0 ? 1 : 0; }

enum { X_APPEND_NC, X_APPEND_PTR_N, X_APPEND_CSTR, X_APPEND_STR, X_APPEND_SELF, X_APPEND_SUB, X_APPEND_SUB_SELF, X_PUSH_BACK, X_INSERT_NC, X_INSERT_PTR, X_INSERT_CSTR,
       X_INSERT_STR, X_INSERT_SELF, X_INSERT_SUB_SELF, X_INSERT_SUB, X_INSERT_IT, X_INSERT_IT_N, X_INSERT_IT_RANGE, X_INSERT_IT_RANGE_SELF, X_ERASE_PC, X_ERASE_IT,
       X_ERASE_IT_RANGE, X_ASSIGN_STR, X_ASSIGN_SELF, X_ASSIGN_CSTR, X_ASSIGN_PTR_N, X_ASSIGN_NC, X_ASSIGN_SUB, X_ASSIGN_SUB_SELF, X_ASSIGN_IT, X_ASSIGN_IT_SELF,
       X_ASSIGN_CHAR, X_RESIZE, X_RESIZE_FILL, X_RESERVE, X_CLEAR, X_SWAP, X_SUBSTR_TO_B, X_SUBSTR_SELF, X_COPY, X_COPY_SUB, X_SET_CHAR, X_RESET };
static const size_t NPOS = (size_t)-1;

struct StrSys : Sys
{
    typedef XalanDOMString S;
    S* A; S* B;
    U a, b;
    static std::vector<OpDesc>& table()
    {
        static std::vector<OpDesc> t;
        if (t.empty())
        {
            t.push_back({ "append_n_char(0,a)", X_APPEND_NC, 0, 0, 0 });
            t.push_back({ "append_n_char(1,a)", X_APPEND_NC, 1, 0, 0 });
            t.push_back({ "append_n_char(1,hs)", X_APPEND_NC, 1, 2, 0 });
            t.push_back({ "append_n_char(2,b)", X_APPEND_NC, 2, 1, 0 });
            t.push_back({ "append_ptr_n(ab,2)", X_APPEND_PTR_N, 2, 0, 0 });
            t.push_back({ "append_ptr_n(ab,1)", X_APPEND_PTR_N, 1, 0, 0 });
            t.push_back({ "append_ptr_n(ab,0)", X_APPEND_PTR_N, 0, 0, 0 });
            t.push_back({ "append_cstr(ba)", X_APPEND_CSTR, 0, 0, 0 });
            t.push_back({ "append_cstr()", X_APPEND_CSTR, 1, 0, 0 });
            t.push_back({ "append_str(B)", X_APPEND_STR, 0, 0, 0 });
            t.push_back({ "append_self", X_APPEND_SELF, 0, 0, 0 });
            t.push_back({ "append_sub(B,0,npos)", X_APPEND_SUB, 0, -1, 0 });
            t.push_back({ "append_sub(B,1,1)", X_APPEND_SUB, 1, 1, 0 });
            t.push_back({ "append_sub(B,0,1)", X_APPEND_SUB, 0, 1, 0 });
            t.push_back({ "append_sub_self(mid,npos)", X_APPEND_SUB_SELF, 0, 0, 0 });
            t.push_back({ "push_back(b)", X_PUSH_BACK, 1, 0, 0 });
            for (int p = 0; p < 3; ++p) for (int n = 1; n <= 2; ++n) t.push_back({ std::string("insert_n_char(") + PN[p] + "," + istr(n) + ",b)", X_INSERT_NC, p, n, 1 });
            for (int p = 0; p < 3; ++p) t.push_back({ std::string("insert_ptr_n(") + PN[p] + ",ab,2)", X_INSERT_PTR, p, 2, 0 });
            t.push_back({ "insert_cstr(mid,a)", X_INSERT_CSTR, 1, 0, 0 });
            for (int p = 0; p < 3; ++p) t.push_back({ std::string("insert_str(") + PN[p] + ",B)", X_INSERT_STR, p, 0, 0 });
            for (int p = 0; p < 3; ++p) t.push_back({ std::string("insert_self(") + PN[p] + ")", X_INSERT_SELF, p, 0, 0 });
            t.push_back({ "insert_sub_self(begin,mid,rest)", X_INSERT_SUB_SELF, 0, 0, 0 });
            t.push_back({ "insert_sub(mid,B,1,1)", X_INSERT_SUB, 1, 0, 0 });
            for (int p = 0; p < 3; ++p) t.push_back({ std::string("insert_iter_char(") + PN[p] + ",a)", X_INSERT_IT, p, 0, 0 });
            t.push_back({ "insert_iter_n_char(mid,2,hs)", X_INSERT_IT_N, 1, 2, 2 });
            t.push_back({ "insert_iter_range(mid,B)", X_INSERT_IT_RANGE, 1, 0, 0 });
            t.push_back({ "insert_iter_range_self(begin,mid,end)", X_INSERT_IT_RANGE_SELF, 0, 0, 0 });
            t.push_back({ "erase_all", X_ERASE_PC, 0, 0, 0 });
            t.push_back({ "erase(0,1)", X_ERASE_PC, 1, 0, 0 });
            t.push_back({ "erase(mid,1)", X_ERASE_PC, 2, 0, 0 });
            t.push_back({ "erase(mid,npos)", X_ERASE_PC, 3, 0, 0 });
            t.push_back({ "erase(last,1)", X_ERASE_PC, 4, 0, 0 });
            t.push_back({ "erase(0,length)", X_ERASE_PC, 5, 0, 0 });
            for (int p = 0; p < 3; ++p) t.push_back({ std::string("erase_iter(") + EN[p] + ")", X_ERASE_IT, p, 0, 0 });
            t.push_back({ "erase_iter_range(begin,mid)", X_ERASE_IT_RANGE, 0, 1, 0 });
            t.push_back({ "erase_iter_range(mid,end)", X_ERASE_IT_RANGE, 1, 2, 0 });
            t.push_back({ "erase_iter_range(begin,end)", X_ERASE_IT_RANGE, 0, 2, 0 });
            t.push_back({ "assign_str(B)", X_ASSIGN_STR, 0, 0, 0 });
            t.push_back({ "assign_self", X_ASSIGN_SELF, 0, 0, 0 });
            t.push_back({ "assign_cstr(ab)", X_ASSIGN_CSTR, 0, 0, 0 });
            t.push_back({ "assign_ptr_n(ab,1)", X_ASSIGN_PTR_N, 1, 0, 0 });
            t.push_back({ "assign_n_char(2,a)", X_ASSIGN_NC, 2, 0, 0 });
            t.push_back({ "assign_n_char(0,a)", X_ASSIGN_NC, 0, 0, 0 });
            t.push_back({ "assign_sub(B,1,1)", X_ASSIGN_SUB, 1, 1, 0 });
            t.push_back({ "assign_sub_self(0,mid)", X_ASSIGN_SUB_SELF, 0, 0, 0 });
            t.push_back({ "assign_sub_self(mid,rest)", X_ASSIGN_SUB_SELF, 1, 0, 0 });
            t.push_back({ "assign_sub_self(0,length)", X_ASSIGN_SUB_SELF, 2, 0, 0 });
            t.push_back({ "assign_iter(B)", X_ASSIGN_IT, 0, 0, 0 });
            t.push_back({ "assign_iter_self(mid,end)", X_ASSIGN_IT_SELF, 0, 0, 0 });
            t.push_back({ "assign_char(b)", X_ASSIGN_CHAR, 1, 0, 0 });
            for (int n : { 0, 1, 3 }) t.push_back({ "resize(" + istr(n) + ")", X_RESIZE, n, 0, 0 });
            for (int n : { 0, 2, 4 }) t.push_back({ "resize_fill(" + istr(n) + ",a)", X_RESIZE_FILL, n, 0, 0 });
            t.push_back({ "reserve(0)", X_RESERVE, 0, 0, 0 });
            t.push_back({ "reserve(5)", X_RESERVE, 5, 0, 0 });
            t.push_back({ "clear", X_CLEAR, 0, 0, 0 });
            t.push_back({ "swap", X_SWAP, 0, 0, 0 });
            t.push_back({ "substr_to_B(0,npos)", X_SUBSTR_TO_B, 0, 0, 0 });
            t.push_back({ "substr_to_B(mid,npos)", X_SUBSTR_TO_B, 1, 0, 0 });
            t.push_back({ "substr_to_B(mid,1)", X_SUBSTR_TO_B, 2, 0, 0 });
            t.push_back({ "substr_to_B(0,0)", X_SUBSTR_TO_B, 3, 0, 0 });
            t.push_back({ "substr_self(mid,rest)", X_SUBSTR_SELF, 0, 0, 0 });
            t.push_back({ "copy_construct", X_COPY, 0, 0, 0 });
            t.push_back({ "copy_construct_sub(mid,npos)", X_COPY_SUB, 0, 0, 0 });
            t.push_back({ "copy_construct_sub(0,1)", X_COPY_SUB, 1, 0, 0 });
            t.push_back({ "set_char(mid,b)", X_SET_CHAR, 1, 0, 0 });
            t.push_back({ "reset(ab)", X_RESET, 0, 0, 0 });
        }
        return t;
    }
    StrSys() { A = new S(g_mm); B = new S(g_mm); }
    const std::vector<OpDesc>& ops() const { return table(); }
    // preconditions follow the library's own assertions (position < length for substring sources, ranges inside the string)
    bool enabled(int op) const
    {
        const OpDesc& d = table()[op];
        const size_t n = a.size(), nb = b.size();
        switch (d.code)
        {
        case X_APPEND_SUB: return (size_t)d.a < nb && (d.b < 0 || (size_t)(d.a + d.b) <= nb);
        case X_APPEND_SUB_SELF: case X_INSERT_SUB_SELF: case X_INSERT_IT_RANGE_SELF: case X_ASSIGN_IT_SELF: case X_SUBSTR_SELF: return n >= 2;
        case X_INSERT_NC: case X_INSERT_PTR: case X_INSERT_STR: case X_INSERT_SELF: case X_INSERT_IT: return insPos(d.a, n) >= 0 && (d.code != X_INSERT_SELF || n > 0);
        case X_INSERT_CSTR: case X_INSERT_IT_N: case X_INSERT_IT_RANGE: return n >= 2;
        case X_INSERT_SUB: return n >= 2 && nb >= 2;
        case X_ERASE_PC: return d.a == 0 || d.a == 5 ? true : d.a == 1 ? n >= 1 : d.a == 4 ? n >= 2 : n >= 3;
        case X_ERASE_IT: return elPos(d.a, n) >= 0;
        case X_ERASE_IT_RANGE: return n >= 1 && (d.a == 0 && d.b == 2 ? true : n >= 2);
        case X_ASSIGN_SUB: return nb >= 2;
        case X_ASSIGN_SUB_SELF: return d.a == 2 ? n >= 1 : n >= 2;
        case X_SUBSTR_TO_B: return d.a == 0 || d.a == 3 ? n >= 1 : n >= 2;    // assign(src,pos,count) asserts pos < src.size()
        case X_COPY_SUB: return d.a == 0 ? n >= 2 : n >= 1;
        case X_SET_CHAR: return n >= 1;
        default: return true;
        }
    }
    static void cmp(S& x, const U& m, Fail& f, const char* which)
    {
        const std::string w(which);
        const S& cx = x;
        // structural invariants first (what XalanDOMString::invariants() asserts), read from the fields
        if (x.m_data.m_size == 0) CHECK(f, x.m_size == 0, "invariant", w + ": empty buffer but m_size " + istr(x.m_size));
        else
        {
            CHECK(f, x.m_size == x.m_data.m_size - 1, "invariant", w + ": m_size " + istr(x.m_size) + " but the buffer holds " + istr(x.m_data.m_size) + " units (length+1 expected); model length " + istr(m.size()));
            CHECK(f, x.m_data.m_data[x.m_data.m_size - 1] == 0, "invariant", w + ": the buffer does not end with the terminator");
        }
        if (f.bad) return;
        CHECK(f, x.length() == m.size() && x.size() == m.size(), "size", w + ": length() " + istr(x.length()) + " model " + istr(m.size()) + " " + ushow(m));
        CHECK(f, x.empty() == m.empty(), "size", w + ": empty() disagrees");
        if (f.bad) return;
        const XalanDOMChar* p = cx.c_str();
        CHECK(f, p[m.size()] == 0, "invariant", w + ": c_str()[length()] is not the terminator");
        CHECK(f, memcmp(p, m.data(), m.size() * sizeof(XalanDOMChar)) == 0, "contents", w + ": c_str() is " + xshow(p, m.size()) + " model " + ushow(m));
        if (f.bad) return;
        CHECK(f, cx.data() == p, "return", w + ": data() != c_str()");
        CHECK(f, (size_t)(x.end() - x.begin()) == m.size() && (size_t)(cx.end() - cx.begin()) == m.size(), "size", w + ": end()-begin() disagrees with length()");
        bool same = true; size_t i = 0;
        for (S::iterator it = x.begin(); it != x.end(); ++it, ++i) if (*it != m[i]) same = false;
        i = m.size();
        for (S::const_reverse_iterator r = cx.rbegin(); r != cx.rend(); ++r) { if (i == 0) { same = false; break; } --i; if (*r != m[i]) same = false; }
        CHECK(f, same && i == 0, "contents", w + ": forward/reverse iteration disagrees with the model");
        for (i = 0; i < m.size(); ++i) CHECK(f, x[i] == m[i] && cx[i] == m[i] && cx.at(i) == m[i], "contents", w + ": operator[]/at(" + istr(i) + ") disagrees");
        if (!m.empty()) CHECK(f, x.capacity() >= m.size(), "invariant", w + ": capacity() below length()");
    }
    void apply(int op, Fail& f)
    {
        const OpDesc& d = table()[op];
        const size_t n = a.size(), nb = b.size(), mid = n / 2;
        const size_t cap0 = A->m_data.m_allocation; const XalanDOMChar* data0 = A->m_data.m_data;
        switch (d.code)
        {
        case X_APPEND_NC: A->append((S::size_type)d.a, CH[d.b]); a.append((size_t)d.a, (char16_t)CH[d.b]); break;
        case X_APPEND_PTR_N: A->append(LIT_AB, (S::size_type)d.a); a.append((const char16_t*)LIT_AB, (size_t)d.a); break;
        case X_APPEND_CSTR: { const XalanDOMChar* s = d.a == 0 ? LIT_BA : LIT_E; A->append(s); a.append((const char16_t*)s); break; }
        case X_APPEND_STR: A->append(*B); a.append(b); break;
        case X_APPEND_SELF: A->append(*A); a.append(U(a)); events |= EV_SELF; break;
        case X_APPEND_SUB: A->append(*B, (S::size_type)d.a, d.b < 0 ? S::npos : (S::size_type)d.b); a.append(b, (size_t)d.a, d.b < 0 ? U::npos : (size_t)d.b); break;
        case X_APPEND_SUB_SELF: A->append(*A, (S::size_type)mid, S::npos); a.append(U(a), mid, U::npos); events |= EV_SELF; break;
        case X_PUSH_BACK: A->push_back(CH[d.a]); a.push_back((char16_t)CH[d.a]); break;
        case X_INSERT_NC: { const size_t p = insPos(d.a, n); A->insert((S::size_type)p, (S::size_type)d.b, CH[d.c]); a.insert(p, (size_t)d.b, (char16_t)CH[d.c]); break; }
        case X_INSERT_PTR: { const size_t p = insPos(d.a, n); A->insert((S::size_type)p, LIT_AB, (S::size_type)d.b); a.insert(p, (const char16_t*)LIT_AB, (size_t)d.b); break; }
        case X_INSERT_CSTR: A->insert((S::size_type)mid, LIT_A); a.insert(mid, (const char16_t*)LIT_A); break;
        case X_INSERT_STR: { const size_t p = insPos(d.a, n); A->insert((S::size_type)p, *B); a.insert(p, b); break; }
        case X_INSERT_SELF: { const size_t p = insPos(d.a, n); A->insert((S::size_type)p, *A); a.insert(p, U(a)); events |= EV_SELF; break; }
        case X_INSERT_SUB_SELF: A->insert(0, *A, (S::size_type)mid, (S::size_type)(n - mid)); a.insert(0, U(a), mid, n - mid); events |= EV_SELF; break;
        case X_INSERT_SUB: A->insert((S::size_type)mid, *B, 1, 1); a.insert(mid, b, 1, 1); break;
        case X_INSERT_IT:
        {
            const size_t p = insPos(d.a, n);
            S::iterator r = A->insert(A->begin() + p, CH[d.b]);
            a.insert(a.begin() + p, (char16_t)CH[d.b]);
            CHECK(f, r == A->begin() + p, "return", "insert(iterator,char) returned begin()+" + istr(r - A->begin()) + ", expected begin()+" + istr(p));
            break;
        }
        case X_INSERT_IT_N: A->insert(A->begin() + mid, (S::size_type)d.b, CH[d.c]); a.insert(a.begin() + mid, (size_t)d.b, (char16_t)CH[d.c]); break;
        case X_INSERT_IT_RANGE: A->insert(A->begin() + mid, B->begin(), B->end()); a.insert(a.begin() + mid, b.begin(), b.end()); break;
        case X_INSERT_IT_RANGE_SELF: { A->insert(A->begin(), A->begin() + mid, A->end()); const U t(a, mid); a.insert(a.begin(), t.begin(), t.end()); events |= EV_SELF; break; }
        case X_ERASE_PC:
        {
            size_t p = 0, c = 0; bool np = false;
            switch (d.a) { case 0: np = true; break; case 1: c = 1; break; case 2: p = mid; c = 1; break; case 3: p = mid; np = true; break; case 4: p = n - 1; c = 1; break; case 5: c = n; break; }
            if (d.a == 0) A->erase(); else A->erase((S::size_type)p, np ? S::npos : (S::size_type)c);
            a.erase(p, np ? U::npos : c);
            break;
        }
        case X_ERASE_IT:
        {
            const size_t p = elPos(d.a, n);
            S::iterator r = A->erase(A->begin() + p);
            a.erase(a.begin() + p);
            CHECK(f, r == A->begin() + p, "return", "erase(iterator) returned a wrong iterator");
            break;
        }
        case X_ERASE_IT_RANGE:
        {
            const size_t p = d.a == 0 ? 0 : mid, q = d.b == 1 ? mid : n;
            S::iterator r = A->erase(A->begin() + p, A->begin() + q);
            a.erase(a.begin() + p, a.begin() + q);
            CHECK(f, r == A->begin() + p, "return", "erase(first,last) returned a wrong iterator");
            break;
        }
        case X_ASSIGN_STR: A->assign(*B); a.assign(b); break;
        case X_ASSIGN_SELF: *A = *A; events |= EV_SELF; break;
        case X_ASSIGN_CSTR: A->assign(LIT_AB); a.assign((const char16_t*)LIT_AB); break;
        case X_ASSIGN_PTR_N: A->assign(LIT_AB, (S::size_type)d.a); a.assign((const char16_t*)LIT_AB, (size_t)d.a); break;
        case X_ASSIGN_NC: A->assign((S::size_type)d.a, CH[d.b]); a.assign((size_t)d.a, (char16_t)CH[d.b]); break;
        case X_ASSIGN_SUB: A->assign(*B, 1, 1); a.assign(b, 1, 1); break;
        case X_ASSIGN_SUB_SELF:
        {
            const size_t p = d.a == 1 ? mid : 0, c = d.a == 0 ? mid : d.a == 1 ? n - mid : n;
            A->assign(*A, (S::size_type)p, (S::size_type)c); a.assign(U(a), p, c); events |= EV_SELF;
            break;
        }
        case X_ASSIGN_IT: A->assign(B->begin(), B->end()); a.assign(b.begin(), b.end()); break;
        case X_ASSIGN_IT_SELF: { A->assign(A->begin() + mid, A->end()); const U t(a, mid); a = t; events |= EV_SELF; break; }
        case X_ASSIGN_CHAR: *A = CH[d.a]; a.assign(1, (char16_t)CH[d.a]); break;
        case X_RESIZE: A->resize((S::size_type)d.a); a.resize((size_t)d.a); break;
        case X_RESIZE_FILL: A->resize((S::size_type)d.a, CH[0]); a.resize((size_t)d.a, (char16_t)CH[0]); break;
        case X_RESERVE: A->reserve((S::size_type)d.a); if (d.a) CHECK(f, A->capacity() >= (size_t)d.a, "return", "capacity() below the reserved amount"); break;
        case X_CLEAR: A->clear(); a.clear(); break;
        case X_SWAP: A->swap(*B); a.swap(b); break;
        case X_SUBSTR_TO_B:
        {
            size_t p = 0, c = 0; bool np = false;
            switch (d.a) { case 0: np = true; break; case 1: p = mid; np = true; break; case 2: p = mid; c = 1; break; case 3: break; }
            S& r = A->substr(*B, (S::size_type)p, np ? S::npos : (S::size_type)c);
            b = a.substr(p, np ? U::npos : c);
            CHECK(f, &r == B, "return", "substr did not return its output argument");
            break;
        }
        case X_SUBSTR_SELF: A->substr(*A, (S::size_type)mid, (S::size_type)(n - mid)); a = a.substr(mid, n - mid); events |= EV_SELF; break;
        case X_COPY:
        {
            S c(*A, g_mm);
            cmp(c, a, f, "copy");
            CHECK(f, c == *A && !(c != *A) && c.compare(*A) == 0 && S::equals(c, *A) && c.hash() == A->hash(), "return", "a copy does not compare equal to its source");
            break;
        }
        case X_COPY_SUB:
        {
            if (d.a == 0) { S c(*A, g_mm, (S::size_type)mid, S::npos); cmp(c, a.substr(mid), f, "copy"); }
            else { S c(*A, g_mm, 0, 1); cmp(c, a.substr(0, 1), f, "copy"); }
            break;
        }
        case X_SET_CHAR: (*A)[mid] = CH[d.a]; a[mid] = (char16_t)CH[d.a]; break;
        case X_RESET: A->reset(g_mm, LIT_AB); a.assign((const char16_t*)LIT_AB); break;
        }
        (void)nb;
        if (d.code != X_SWAP && cap0 != 0 && (A->m_data.m_allocation != cap0 || A->m_data.m_data != data0)) events |= EV_REALLOC;
        if (d.code != X_SWAP && cap0 != 0 && A->m_data.m_allocation > cap0) events |= EV_GROW;
    }
    void key(std::string& o) const
    {
        for (char16_t c : a) o += uch(c); o += '|'; num(o, A->m_data.m_size); o += 'c'; num(o, A->m_data.m_allocation); o += '/';
        for (char16_t c : b) o += uch(c); o += '|'; num(o, B->m_data.m_size); o += 'c'; num(o, B->m_data.m_allocation);
    }
    void compare(Fail& f)
    {
        cmp(*A, a, f, "A"); cmp(*B, b, f, "B");
        if (f.bad) return;
        const S& ca = *A; const S& cb = *B;
        CHECKO(f, sgn(ca.compare(cb)) == sgn(a.compare(b)), "compare", "return", "compare(B) is " + istr(ca.compare(cb)) + ", model sign " + istr(sgn(a.compare(b))) + " for " + ushow(a) + " vs " + ushow(b));
        CHECKO(f, sgn(ca.compare(cb.c_str())) == sgn(a.compare(b.c_str())), "compare", "return", "compare(const XalanDOMChar*) disagrees for " + ushow(a) + " vs " + ushow(b));
        CHECKO(f, S::equals(ca, cb) == (a == b) && (ca == cb) == (a == b) && (ca != cb) == (a != b), "equals", "return", "equals()/operator== disagree for " + ushow(a) + " vs " + ushow(b));
        if (a == b) CHECKO(f, ca.hash() == cb.hash(), "hash", "return", "equal strings hash differently");
        if (a.size() >= 1 && b.size() >= 1)
        {
            const size_t p = a.size() / 2, c = a.size() - p;
            CHECKO(f, sgn(ca.compare((S::size_type)p, (S::size_type)c, cb)) == sgn(a.compare(p, c, b)), "compare_sub", "return", "compare(pos,count,B) disagrees for " + ushow(a) + " vs " + ushow(b));
            CHECKO(f, sgn(ca.compare(0, 1, cb, (S::size_type)(b.size() - 1), 1)) == sgn(a.compare(0, 1, b, b.size() - 1, 1)), "compare_sub", "return", "compare(pos1,n1,B,pos2,n2) disagrees for " + ushow(a) + " vs " + ushow(b));
        }
    }
    void finish(Fail& f) { delete A; delete B; A = B = 0; checkWorld(f); }
    std::string sigSuffix() const { return (a.find(char16_t(0)) != U::npos || b.find(char16_t(0)) != U::npos) ? "+embedded_nul" : ""; }
    static Sys* make() { return new StrSys(); }
};

// =====================================================================================================================
// XalanDOMStringPool (+ XalanDOMStringHashTable): block size 2, bucket count 2, bucket size 1

enum { P_GET_STR, P_GET_PTR_N, P_GET_CSTR, P_CLEAR };
struct PoolSys : Sys
{
    XalanDOMStringPool* P;
    std::vector<std::pair<U, const XalanDOMString*> > m;     // insertion order
    static const U& word(int i) { static const U w[5] = { U(), U(u"a"), U(u"b"), U(u"ab"), U(u"ba") }; return w[i]; }
    static std::vector<OpDesc>& table()
    {
        static std::vector<OpDesc> t;
        if (t.empty())
        {
            static const char* n[5] = { "''", "a", "b", "ab", "ba" };
            for (int i = 0; i < 5; ++i) t.push_back({ std::string("get_str(") + n[i] + ")", P_GET_STR, i, 0, 0 });
            for (int i = 1; i < 4; ++i) t.push_back({ std::string("get_ptr_n(") + n[i] + ")", P_GET_PTR_N, i, 0, 0 });
            t.push_back({ "get_cstr(ba)", P_GET_CSTR, 4, 0, 0 });
            t.push_back({ "clear", P_CLEAR, 0, 0, 0 });
        }
        return t;
    }
    PoolSys() { P = new XalanDOMStringPool(g_mm, 2, 2, 1); }
    const std::vector<OpDesc>& ops() const { return table(); }
    bool enabled(int) const { return true; }
    void apply(int op, Fail& f)
    {
        const OpDesc& d = table()[op];
        if (d.code == P_CLEAR) { P->clear(); m.clear(); return; }
        const U& w = word(d.a);
        const size_t blocks0 = P->m_stringAllocator.getBlockCount();
        const XalanDOMString* r = 0;
        if (d.code == P_GET_STR) { XalanDOMString s((const XalanDOMChar*)w.c_str(), g_static); r = &P->get(s); }
        else if (d.code == P_GET_PTR_N) { U buf = w + u"zz"; r = &P->get((const XalanDOMChar*)buf.data(), (XalanDOMString::size_type)w.size()); }   // not terminated at the length
        else r = &P->get((const XalanDOMChar*)w.c_str());
        CHECK(f, r->length() == w.size() && memcmp(r->c_str(), w.data(), w.size() * 2) == 0, "return", "get(" + ushow(w) + ") returned " + xshow(r->c_str(), r->length()));
        if (w.empty()) return;
        size_t i = 0;
        for (; i < m.size(); ++i) if (m[i].first == w) break;
        if (i < m.size()) CHECK(f, r == m[i].second, "return", "get(" + ushow(w) + ") returned a different object for a string that is already pooled");
        else
        {
            for (auto& e : m) CHECK(f, e.second != r, "return", "get(" + ushow(w) + ") returned the object of another pooled string");
            m.push_back(std::make_pair(w, r));
            if (P->m_stringAllocator.getBlockCount() > blocks0 && blocks0 > 0) events |= EV_GROW;
        }
    }
    void key(std::string& o) const
    {
        for (auto& e : m) { for (char16_t c : e.first) o += uch(c); o += ','; }
        o += '|'; num(o, P->m_stringAllocator.getBlockCount());
        const XalanDOMStringHashTable& h = P->m_hashTable;
        for (size_t i = 0; i < h.m_buckets.m_size; ++i) { o += 'b'; num(o, h.m_buckets.m_data[i].m_size); o += 'c'; num(o, h.m_buckets.m_data[i].m_allocation); }
    }
    void compare(Fail& f)
    {
        CHECK(f, P->size() == m.size(), "size", "size() " + istr(P->size()) + " model " + istr(m.size()));
        CHECK(f, P->getHashTable().size() == m.size(), "size", "hash table size() " + istr(P->getHashTable().size()) + " model " + istr(m.size()));
        XalanDOMStringHashTable::BucketCountsType bc(g_mm);
        P->getHashTable().getBucketCounts(bc);
        size_t sum = 0; for (size_t i = 0; i < bc.size(); ++i) sum += bc[i];
        CHECK(f, bc.size() == 2 && sum == m.size(), "size", "bucket counts sum to " + istr(sum) + ", model " + istr(m.size()));
        for (auto& e : m)
        {
            CHECK(f, e.second->length() == e.first.size() && memcmp(e.second->c_str(), e.first.data(), e.first.size() * 2) == 0, "contents", "pooled string " + ushow(e.first) + " changed to " + xshow(e.second->c_str(), e.second->length()));
            const XalanDOMString* r = P->getHashTable().find((const XalanDOMChar*)e.first.c_str());
            CHECK(f, r == e.second, "find", "hash table find(" + ushow(e.first) + ") does not return the pooled object");
        }
        for (int i = 1; i < 5; ++i)
        {
            bool in = false; for (auto& e : m) if (e.first == word(i)) in = true;
            if (!in) CHECK(f, P->getHashTable().find((const XalanDOMChar*)word(i).c_str()) == 0, "find", "hash table finds " + ushow(word(i)) + " which is not pooled");
        }
    }
    void finish(Fail& f) { delete P; P = 0; checkWorld(f); }
    static Sys* make() { return new PoolSys(); }
};

// =====================================================================================================================
// XalanBitmap (10 bits = 2 units), release semantics of the header

enum { B_SET, B_CLEAR, B_TOGGLE, B_CLEARALL };
struct BitmapSys : Sys
{
    XalanBitmap* P;
    bool m[10];
    static std::vector<OpDesc>& table()
    {
        static std::vector<OpDesc> t;
        if (t.empty())
        {
            for (int b : { 0, 7, 8, 9 }) { t.push_back({ "set(" + istr(b) + ")", B_SET, b, 0, 0 }); t.push_back({ "clear(" + istr(b) + ")", B_CLEAR, b, 0, 0 }); t.push_back({ "toggle(" + istr(b) + ")", B_TOGGLE, b, 0, 0 }); }
            t.push_back({ "clearAll", B_CLEARALL, 0, 0, 0 });
        }
        return t;
    }
    BitmapSys() { P = new XalanBitmap(g_mm, 10); for (bool& x : m) x = false; }
    const std::vector<OpDesc>& ops() const { return table(); }
    bool enabled(int) const { return true; }
    void apply(int op, Fail&)
    {
        const OpDesc& d = table()[op];
        switch (d.code)
        {
        case B_SET: P->set(d.a); m[d.a] = true; break;
        case B_CLEAR: P->clear(d.a); m[d.a] = false; break;
        case B_TOGGLE: P->toggle(d.a); m[d.a] = !m[d.a]; break;
        case B_CLEARALL: P->clearAll(); for (bool& x : m) x = false; break;
        }
    }
    void key(std::string& o) const { for (bool x : m) o += x ? '1' : '0'; o += '|'; for (size_t i = 0; i < P->m_bitmap.m_size; ++i) num(o, (unsigned char)P->m_bitmap.m_data[i]), o += ','; }
    void compare(Fail& f)
    {
        CHECK(f, P->getSize() == 10, "size", "getSize() " + istr(P->getSize()));
        for (int b = 0; b < 10; ++b) CHECK(f, P->isSet(b) == m[b], "contents", "isSet(" + istr(b) + ") is " + istr(P->isSet(b)) + ", model " + istr(m[b]));
    }
    void finish(Fail& f) { delete P; P = 0; checkWorld(f); }
    static Sys* make() { return new BitmapSys(); }
};

// =====================================================================================================================
// XalanObjectCache<Tracked> (default configuration: no busy list)

enum { C_GET, C_RELEASE, C_RESET };
struct CacheSys : Sys
{
    typedef XalanObjectCache<Tracked> C;
    C* P;
    std::vector<Tracked*> avail, out;
    std::vector<Tracked*> born;    // creation order, for a canonical naming of the objects
    static std::vector<OpDesc>& table()
    {
        static std::vector<OpDesc> t;
        if (t.empty())
        {
            t.push_back({ "get", C_GET, 0, 0, 0 });
            t.push_back({ "release(first)", C_RELEASE, 0, 0, 0 });
            t.push_back({ "release(last)", C_RELEASE, 2, 0, 0 });
            t.push_back({ "reset", C_RESET, 0, 0, 0 });
        }
        return t;
    }
    CacheSys() { P = new C(g_mm, 1); }
    const std::vector<OpDesc>& ops() const { return table(); }
    bool enabled(int op) const
    {
        const OpDesc& d = table()[op];
        if (d.code == C_GET) return out.size() < 3;
        if (d.code == C_RELEASE) return elPos(d.a, out.size()) >= 0;
        return true;
    }
    void apply(int op, Fail& f)
    {
        const OpDesc& d = table()[op];
        switch (d.code)
        {
        case C_GET:
        {
            const long c0 = Tracked::ctors;
            Tracked* r = P->get();
            if (!avail.empty())
            {
                CHECK(f, r == avail.back(), "return", "get() did not return the most recently released object");
                CHECK(f, Tracked::ctors == c0, "balance", "get() constructed an object although one was available");
                avail.pop_back(); events |= EV_REUSE;
            }
            else
            {
                CHECK(f, Tracked::ctors == c0 + 1, "balance", "get() on an empty cache constructed " + istr(Tracked::ctors - c0) + " objects");
                CHECK(f, std::find(born.begin(), born.end(), r) == born.end(), "return", "get() returned an object that is already handed out");
                born.push_back(r);
            }
            CHECK(f, r != 0 && r->magic == Tracked::ALIVE, "return", "get() returned an object that is not alive");
            out.push_back(r);
            break;
        }
        case C_RELEASE:
        {
            const int p = elPos(d.a, out.size());
            const bool r = P->release(out[p]);
            CHECK(f, r, "return", "release() returned false");
            avail.push_back(out[p]); out.erase(out.begin() + p);
            break;
        }
        case C_RESET: P->reset(); break;
        }
    }
    void key(std::string& o) const
    {
        for (Tracked* t : avail) num(o, std::find(born.begin(), born.end(), t) - born.begin()); o += '/';
        for (Tracked* t : out) num(o, std::find(born.begin(), born.end(), t) - born.begin());
        o += 'c'; num(o, P->m_availableList.m_allocation);
    }
    void compare(Fail& f)
    {
        CHECK(f, P->m_availableList.size() == avail.size(), "size", "the cache holds " + istr(P->m_availableList.size()) + " available objects, model " + istr(avail.size()));
        for (size_t i = 0; i < avail.size() && !f.bad; ++i) CHECK(f, P->m_availableList[i] == avail[i], "contents", "available list differs from the model at " + istr(i));
        CHECK(f, Tracked::live == (long)born.size() && Tracked::errors == 0, "balance", istr(Tracked::live) + " objects alive, " + istr(born.size()) + " created");
    }
    void finish(Fail& f)
    {
        for (Tracked* t : out) XalanDestroy(g_mm, t);    // objects still handed out belong to the caller
        delete P; P = 0; checkWorld(f);
    }
    static Sys* make() { return new CacheSys(); }
};

//@@SYSTEMS@@

// =====================================================================================================================
// engine E2: level-synchronous BFS, master owns seen-set and frontier, forked workers expand slices

struct H128
{
    uint64_t a, b;
    bool operator==(const H128& o) const { return a == o.a && b == o.b; }
};
static H128 hashKey(const std::string& s)
{
    uint64_t a = 1469598103934665603ull, b = 0x9E3779B97F4A7C15ull;
    for (unsigned char c : s)
    {
        a = (a ^ c) * 1099511628211ull;
        b = (b + c + 0x632BE59BD9B4E019ull) * 0xD6E8FEB86659FD93ull; b ^= b >> 29;
    }
    a ^= a >> 32; a *= 0xD6E8FEB86659FD93ull; a ^= a >> 32;
    b ^= b >> 31; b *= 0x9FB21C651E98DF25ull; b ^= b >> 33;
    if (a == 0 && b == 0) b = 1;
    return { a, b };
}
struct HashSet   // open addressing, {0,0} = empty
{
    std::vector<H128> t; size_t n = 0;
    HashSet() { t.assign(1 << 12, H128{ 0, 0 }); }
    bool has(const H128& h) const
    {
        size_t m = t.size() - 1, i = (size_t)h.a & m;
        while (t[i].a | t[i].b) { if (t[i] == h) return true; i = (i + 1) & m; }
        return false;
    }
    bool insert(const H128& h)
    {
        if ((n + 1) * 2 > t.size()) grow();
        size_t m = t.size() - 1, i = (size_t)h.a & m;
        while (t[i].a | t[i].b) { if (t[i] == h) return false; i = (i + 1) & m; }
        t[i] = h; ++n; return true;
    }
    void grow()
    {
        std::vector<H128> o; o.swap(t); t.assign(o.size() * 2, H128{ 0, 0 }); n = 0;
        for (auto& h : o) if (h.a | h.b) insert(h);
    }
};

struct Slot { volatile uint32_t state; volatile int32_t op; volatile uint32_t done; volatile uint32_t pad; };

static std::string histText(const Container& c, const uint8_t* h, size_t n, int extra = -1)
{
    Sys* s = c.make();
    std::string o;
    for (size_t i = 0; i < n; ++i) { if (i) o += ' '; o += s->ops()[h[i]].name; }
    if (extra >= 0) { if (n) o += ' '; o += s->ops()[extra].name; }
    return o;
}

struct Cand { uint32_t parent; uint8_t op; uint8_t ev; H128 h; };
struct Viol { uint32_t level, parent; int op; std::string sig, detail; };

struct Totals
{
    long long states = 0, transitions = 0, comparisons = 0, nontrivial = 0, fatals = 0, disabled = 0, prunedAfterViolation = 0, violRaw = 0, evtTransitions = 0, skippedOff = 0, opsOff = 0;
    int maxDepth = 0;
};

static void putBytes(std::string& b, const void* p, size_t n) { b.append((const char*)p, n); }
template <class T> static void put(std::string& b, T v) { putBytes(b, &v, sizeof v); }
static void putStr(std::string& b, const std::string& s) { put<uint32_t>(b, (uint32_t)s.size()); b += s; }
static bool writeAll(int fd, const std::string& b)
{
    size_t off = 0;
    while (off < b.size())
    {
        ssize_t k = write(fd, b.data() + off, b.size() - off);
        if (k <= 0) { if (errno == EINTR) continue; return false; }
        off += (size_t)k;
    }
    return true;
}

struct Search
{
    const Container& c;
    int depth;               // maximum history length
    int W;                   // workers
    double deadline;         // absolute monotonic seconds; checked between levels
    std::vector<uint8_t> fr; // frontier histories, stride = level
    std::vector<H128> frh;
    std::vector<uint8_t> frev;
    HashSet seen;
    Totals tot;
    std::vector<Viol> viols;
    std::vector<std::string> samples;
    bool capHit = false;
    int completed = 0;
    Slot* slots;
    int nopsCached = 0;
    std::vector<char> opOff;                 // ops switched off after repeated fatal outcomes (the run is then not exhaustive)
    std::map<std::string, int> fatalBySig;

    Search(const Container& cc, int d, int w, double dl) : c(cc), depth(d), W(w), deadline(dl)
    {
        slots = (Slot*)mmap(0, sizeof(Slot) * 256, PROT_READ | PROT_WRITE, MAP_SHARED | MAP_ANONYMOUS, -1, 0);
    }
    ~Search() { munmap(slots, sizeof(Slot) * 256); }

    // ---- worker side -------------------------------------------------------------------------------------------------
    void expandState(int level, uint32_t si, const std::set<int>& skip, int w, std::string& out, HashSet& local)
    {
        const uint8_t* h = level ? &fr[(size_t)si * level] : (const uint8_t*)"";
        slots[w].state = si; slots[w].op = -1;
        alarm(30);
        uint32_t nTrans = 0, nCmp = 0, nDis = 0, nPruned = 0, nEvt = 0, nOff = 0;
        std::string recs;
        // 1. replay the state itself: same key as when it was first built? balances at destruction?
        std::vector<char> en;
        {
            resetWorld();
            Sys* s = c.make();
            Fail f;
            for (int i = 0; i < level; ++i) s->apply(h[i], f);
            std::string k; s->key(k);
            if (!(hashKey(k) == frh[si])) f.set("invariant", "replaying the history gave a different canonical key (uninitialised or address-dependent state): " + k);
            const int n = (int)s->ops().size();
            en.resize(n);
            for (int o = 0; o < n; ++o) en[o] = s->enabled(o) ? 1 : 0;
            if (!f.bad) s->finish(f);
            if (f.bad)
            {
                recs += 'V'; put<int32_t>(recs, level ? h[level - 1] : -1); putStr(recs, f.kind); putStr(recs, f.msg); put<uint8_t>(recs, 0); putStr(recs, "");
            }
            else delete s;
        }
        // 2. every enabled successor
        for (int o = 0; o < (int)en.size(); ++o)
        {
            if (!en[o]) { ++nDis; continue; }
            if (skip.count(o)) continue;
            if (opOff[o]) { ++nOff; continue; }
            slots[w].op = o;
            resetWorld();
            Sys* s = c.make();
            Fail f;
            for (int i = 0; i < level; ++i) s->apply(h[i], f);
            s->events = 0;
            s->apply(o, f);
            if (s->events) ++nEvt;
            s->events |= frev[si];
            ++nTrans;
            std::string k;
            if (!f.bad) { s->key(k); s->compare(f); ++nCmp; }
            if (!f.bad) s->finish(f);
            if (f.bad)
            {
                recs += 'V'; put<int32_t>(recs, o); putStr(recs, f.kind); putStr(recs, f.msg); put<uint8_t>(recs, 1);
                putStr(recs, (f.obs.empty() ? opBase(s->ops()[o].name) : f.obs) + s->sigSuffix());
                ++nPruned;
                continue;     // the object may be damaged: it is abandoned, the state is not expanded
            }
            const unsigned ev = s->events;
            delete s;
            const H128 hk = hashKey(k);
            if (seen.has(hk) || !local.insert(hk)) continue;
            recs += 'C'; put<uint8_t>(recs, (uint8_t)o); put<uint8_t>(recs, (uint8_t)ev); put<H128>(recs, hk);
        }
        alarm(0);
        out += 'S'; put<uint32_t>(out, si); put<uint32_t>(out, nTrans); put<uint32_t>(out, nCmp); put<uint32_t>(out, nDis); put<uint32_t>(out, nPruned); put<uint32_t>(out, nEvt); put<uint32_t>(out, nOff);
        out += recs; out += 'E';
    }

    void workerMain(int level, int w, uint32_t start, const std::set<int>& skipFirst, int fd)
    {
        HashSet local;
        const uint32_t n = (uint32_t)frh.size();
        std::string out;
        static const std::set<int> none;
        for (uint32_t si = start; si < n; si += (uint32_t)W)
        {
            expandState(level, si, si == start ? skipFirst : none, w, out, local);
            if (out.size() > (1 << 15)) { if (!writeAll(fd, out)) _exit(3); out.clear(); }
        }
        if (!writeAll(fd, out)) _exit(3);
        slots[w].done = 1;
        close(fd);
        _exit(0);
    }

    // ---- master side -------------------------------------------------------------------------------------------------
    void addViol(int level, uint32_t parent, int op, const std::string& kind, const std::string& msg, bool atSuccessor, const std::string& sigOp = std::string())
    {
        const uint8_t* h = level ? &fr[(size_t)parent * level] : (const uint8_t*)"";
        Sys* s = c.make();
        const std::string opn = !sigOp.empty() ? sigOp : op >= 0 ? opBase(s->ops()[op].name) : std::string("construct");
        Viol v;
        v.level = (uint32_t)level; v.parent = parent; v.op = op;
        v.sig = std::string(c.name) + "|" + opn + "|" + kind;
        v.detail = "container=" + std::string(c.name) + " history=[" + histText(c, h, level, atSuccessor ? op : -1) + "] op=" + (op >= 0 ? s->ops()[op].name : "construct") + " kind=" + kind + " :: " + msg;
        viols.push_back(v);
        ++tot.violRaw;
    }

    bool runLevel(int level)   // expands the frontier of histories of length `level`
    {
        const uint32_t n = (uint32_t)frh.size();
        const int nw = (int)std::min<uint32_t>((uint32_t)W, n);
        std::vector<int> fds(nw, -1); std::vector<pid_t> pids(nw, 0);
        std::vector<std::string> bufs(nw);
        std::vector<uint32_t> start(nw);
        std::vector<std::set<int> > skip(nw);
        int restarts = 0;
        auto spawn = [&](int w)
        {
            int p[2];
            if (pipe(p) != 0) { perror("pipe"); exit(2); }
            slots[w].done = 0; slots[w].state = start[w]; slots[w].op = -1;
            fflush(stdout);
            pid_t pid = fork();
            if (pid < 0) { perror("fork"); exit(2); }
            if (pid == 0)
            {
                for (int j = 0; j < nw; ++j) if (fds[j] >= 0) close(fds[j]);
                close(p[0]);
                signal(SIGPIPE, SIG_DFL);
                workerMain(level, w, start[w], skip[w], p[1]);
            }
            close(p[1]);
            fds[w] = p[0]; pids[w] = pid;
        };
        const int WW = W; W = nw;   // slices are modulo the number of workers actually started
        for (int w = 0; w < nw; ++w) { start[w] = (uint32_t)w; spawn(w); }
        int open = nw;
        while (open > 0)
        {
            std::vector<pollfd> pf;
            std::vector<int> who;
            for (int w = 0; w < nw; ++w) if (fds[w] >= 0) { pf.push_back({ fds[w], POLLIN, 0 }); who.push_back(w); }
            if (poll(pf.data(), pf.size(), -1) < 0) { if (errno == EINTR) continue; perror("poll"); exit(2); }
            for (size_t i = 0; i < pf.size(); ++i)
            {
                if (!(pf[i].revents & (POLLIN | POLLHUP | POLLERR))) continue;
                const int w = who[i];
                char tmp[1 << 16];
                ssize_t k = read(fds[w], tmp, sizeof tmp);
                if (k > 0) { bufs[w].append(tmp, (size_t)k); continue; }
                if (k < 0 && errno == EINTR) continue;
                // EOF: worker ended
                close(fds[w]); fds[w] = -1;
                int st = 0; waitpid(pids[w], &st, 0);
                if (slots[w].done && WIFEXITED(st) && WEXITSTATUS(st) == 0) { --open; continue; }
                // abnormal end: the in-flight transition is a fatal outcome
                const uint32_t si = slots[w].state; const int op = slots[w].op;
                std::string how = WIFSIGNALED(st) ? ("signal " + istr(WTERMSIG(st))) : ("exit " + istr(WEXITSTATUS(st)));
                if (WIFSIGNALED(st) && WTERMSIG(st) == SIGALRM) how = "timeout";
                if (WIFSIGNALED(st) && WTERMSIG(st) == SIGABRT) how = "abort (sanitizer report or failed assertion)";
                ++tot.fatals;
                if (op < 0)
                {
                    addViol(level, si, level ? fr[(size_t)si * level + level - 1] : -1, "fatal", "replaying the history and destroying the objects ended the worker: " + how, false);
                    start[w] = si + (uint32_t)nw; skip[w].clear();
                }
                else
                {
                    addViol(level, si, op, "fatal", "the worker ended during this transition (op, comparison or destruction): " + how, true);
                    if (start[w] != si) skip[w].clear();
                    start[w] = si; skip[w].insert(op);
                    if (++fatalBySig[viols.back().sig] >= 3)
                    {
                        // the same op keeps killing workers: switch every variant of it off for the rest of this container
                        Sys* t = c.make();
                        const std::string base = opBase(t->ops()[op].name);
                        for (int j = 0; j < nopsCached; ++j) if (opBase(t->ops()[j].name) == base && !opOff[j]) { opOff[j] = 1; ++tot.opsOff; }
                    }
                }
                // drop the partial record of the state that was in flight (records are written per finished state, so nothing to drop)
                if (++restarts > 300) { capHit = true; --open; continue; }
                if (start[w] < n) spawn(w); else --open;
            }
        }
        W = WW;
        // parse results in a deterministic order: by state index
        std::vector<Cand> cands;
        std::vector<Viol> lv;
        for (int w = 0; w < nw; ++w)
        {
            const std::string& b = bufs[w]; size_t p = 0;
            auto rd32 = [&]() { uint32_t v; memcpy(&v, b.data() + p, 4); p += 4; return v; };
            auto rdS = [&]() { uint32_t l = rd32(); std::string s = b.substr(p, l); p += l; return s; };
            while (p < b.size())
            {
                if (b[p] != 'S') { fprintf(stderr, "c20: protocol error\n"); exit(2); }
                ++p;
                const uint32_t si = rd32(); tot.transitions += rd32(); tot.comparisons += rd32(); tot.disabled += rd32(); tot.prunedAfterViolation += rd32(); tot.evtTransitions += rd32(); tot.skippedOff += rd32();
                while (b[p] != 'E')
                {
                    if (b[p] == 'C')
                    {
                        ++p; Cand cd; cd.parent = si; cd.op = (uint8_t)b[p++]; cd.ev = (uint8_t)b[p++]; memcpy(&cd.h, b.data() + p, sizeof(H128)); p += sizeof(H128);
                        cands.push_back(cd);
                    }
                    else if (b[p] == 'V')
                    {
                        ++p; int32_t op; memcpy(&op, b.data() + p, 4); p += 4;
                        std::string kind = rdS(), msg = rdS(); const bool succ = b[p++] != 0;
                        const std::string sigOp = rdS();
                        const size_t before = viols.size();
                        addViol(level, si, op, kind, msg, succ, sigOp);
                        lv.push_back(viols.back()); viols.resize(before);
                    }
                    else { fprintf(stderr, "c20: protocol error 2\n"); exit(2); }
                }
                ++p;
            }
        }
        for (auto& v : lv) viols.push_back(v);
        std::sort(cands.begin(), cands.end(), [](const Cand& x, const Cand& y) { return x.parent != y.parent ? x.parent < y.parent : x.op < y.op; });
        std::vector<uint8_t> nf; std::vector<H128> nh; std::vector<uint8_t> nev;
        for (auto& cd : cands)
        {
            if (!seen.insert(cd.h)) continue;
            const size_t off = nf.size();
            nf.resize(off + level + 1);
            if (level) memcpy(&nf[off], &fr[(size_t)cd.parent * level], level);
            nf[off + level] = cd.op;
            nh.push_back(cd.h); nev.push_back(cd.ev);
            ++tot.states;
            if (cd.ev) ++tot.nontrivial;
        }
        fr.swap(nf); frh.swap(nh); frev.swap(nev);
        return true;
    }

    void run()
    {
        // root
        {
            resetWorld();
            Sys* s = c.make(); std::string k; s->key(k);
            nopsCached = (int)s->ops().size();
            opOff.assign(nopsCached, 0);
            Fail f; s->compare(f);
            if (!f.bad) s->finish(f);
            if (f.bad) { addViol(0, 0, -1, f.kind, f.msg, false); }
            frh.push_back(hashKey(k)); frev.push_back(0); seen.insert(frh[0]); tot.states = 1;
        }
        for (int level = 0; level < depth; ++level)
        {
            if (frh.empty()) { completed = depth; break; }
            if (nowS() > deadline) { capHit = true; break; }
            runLevel(level);
            completed = level + 1;
            tot.maxDepth = completed;
            if (capHit) break;
            // samples: first / middle / last new state of the deepest level reached so far
            if (!frh.empty() && (level + 1 == depth || level + 1 == 3))
            {
                const size_t L = level + 1, n = frh.size();
                size_t pick[3] = { 0, n / 2, n - 1 };
                for (int j = 0; j < (level + 1 == depth ? 3 : 1); ++j)
                    samples.push_back(std::string(c.name) + ": " + histText(c, &fr[pick[j] * L], L));
            }
        }
    }
};

// =====================================================================================================================
// registry, replay, main

static const Container g_containers[] = {
    { "map_int", 6, 7, &MapSys<IntCodec, 2, 2>::make, "XalanMap<int,int> x2, colliding hash (2 residues), loadFactor 0.75, minBuckets 2, eraseThreshold 2, 4 keys" },
    { "map_int_b", 5, 6, &MapSys<IntCodec, 1, 3>::make, "XalanMap<int,int> x2, colliding hash, minBuckets 1, eraseThreshold 3, 4 keys" },
    { "map_str", 5, 6, &MapSys<StrCodec, 2, 2>::make, "XalanMap<XalanDOMString,int> x2, minBuckets 2, eraseThreshold 2, keys '', 'a', 'b', 'ab'" },
    { "vector", 5, 6, &VecSys::make, "XalanVector<Tracked> x2, values 0..2, positions begin/mid/end" },
    { "list", 7, 10, &ListSys::make, "XalanList<Tracked> x2, values 0..2, positions begin/mid/end" },
    { "deque", 7, 9, &DequeSys::make, "XalanDeque<Tracked> block size 2 (A empty, B built with initialSize 3)" },
    { "deque_mixed", 6, 8, &DequeSysT<3>::make, "XalanDeque<Tracked> A block size 2, B block size 3 (assignment and swap between deques of different block sizes)" },
    { "string", 5, 6, &StrSys::make, "XalanDOMString x2 against std::u16string, chars a, b, unpaired high surrogate; positions begin/mid/end; counts 0,1,2" },
    { "string_pool", 6, 8, &PoolSys::make, "XalanDOMStringPool block size 2 over XalanDOMStringHashTable with 2 buckets of initial size 1" },
    { "bitmap", 5, 6, &BitmapSys::make, "XalanBitmap of 10 bits (2 units), bits 0,7,8,9" },
    { "object_cache", 8, 10, &CacheSys::make, "XalanObjectCache<Tracked>, at most 3 objects handed out" },
    { "set_int", 7, 9, &SetSys::make, "XalanSet<int> x2 over a map rebuilt with minBuckets 2, eraseThreshold 2" },
};

static void runProbes(std::vector<Viol>& viols, std::map<std::string, long long>& counts)
{
    // XalanBitmap under debug assertions: set a bit, read it back
    fflush(stdout);
    pid_t pid = fork();
    if (pid == 0)
    {
        XalanBitmapDbg bm(g_mm, 10);
        bm.set(3);
        const bool r = bm.isSet(3) && !bm.isSet(4);
        _exit(r ? 0 : 1);
    }
    int st = 0; waitpid(pid, &st, 0);
    counts["probes"] += 1;
    if (!(WIFEXITED(st) && WEXITSTATUS(st) == 0))
    {
        Viol v; v.level = 0; v.parent = 0; v.op = 0;
        v.sig = "bitmap_debug|isSet|fatal";
        v.detail = std::string("container=bitmap_debug history=[set(3) isSet(3)] op=isSet kind=fatal :: XalanBitmap compiled with assertions enabled: ") +
                   (WIFSIGNALED(st) ? "isSet(3) on a 10-bit map aborted (signal " + istr(WTERMSIG(st)) + "); the assertion in XalanBitmap.hpp isSet() is inverted (theBit >= m_size)" : "isSet returned a wrong value");
        viols.push_back(v);
        counts["violations_raw"] += 1;
    }
}
//@@REGISTRY_END@@

static const Container* findContainer(const std::string& n)
{
    for (size_t i = 0; i < sizeof(g_containers) / sizeof(g_containers[0]); ++i) if (n == g_containers[i].name) return &g_containers[i];
    return 0;
}

static int replayMain(int argc, char** argv)
{
    if (argc < 3) { fprintf(stderr, "usage: c20 replay <container> <op> <op> ...\n"); return 2; }
    const Container* c = findContainer(argv[2]);
    if (!c) { fprintf(stderr, "unknown container %s\n", argv[2]); return 2; }
    std::vector<std::string> names;
    for (int i = 3; i < argc; ++i)
    {
        std::string a = argv[i]; size_t p = 0;
        while (p < a.size()) { size_t q = a.find(' ', p); if (q == std::string::npos) q = a.size(); if (q > p) names.push_back(a.substr(p, q - p)); p = q + 1; }
    }
    resetWorld();
    Sys* s = c->make();
    setvbuf(stdout, 0, _IONBF, 0);
    printf("replay container=%s (%s), %zu op(s); every oracle runs after every op\n", c->name, c->what, names.size());
    { std::string k; s->key(k); printf("  initial key: %s\n", k.c_str()); }
    int bad = 0;
    for (size_t i = 0; i < names.size(); ++i)
    {
        int op = -1;
        for (size_t j = 0; j < s->ops().size(); ++j) if (s->ops()[j].name == names[i]) op = (int)j;
        if (op < 0) { printf("  unknown op '%s'\n", names[i].c_str()); return 2; }
        if (!s->enabled(op)) { printf("  step %zu: %s is not enabled in this state (precondition)\n", i + 1, names[i].c_str()); return 2; }
        printf("  step %zu: %s\n", i + 1, names[i].c_str());
        Fail f;
        s->apply(op, f);
        std::string k; if (!f.bad) s->key(k);
        if (!f.bad) s->compare(f);
        printf("    key: %s\n", k.c_str());
        if (f.bad) { printf("    DISAGREEMENT kind=%s :: %s\n", f.kind.c_str(), f.msg.c_str()); bad = 1; break; }
        printf("    agrees with the model\n");
    }
    if (!bad)
    {
        Fail f; s->finish(f);
        if (f.bad) { printf("  at destruction: DISAGREEMENT kind=%s :: %s\n", f.kind.c_str(), f.msg.c_str()); bad = 1; }
        else printf("  destroyed: element and memory-manager balances are zero\n");
    }
    printf(bad ? "replay: VIOLATION reproduced\n" : "replay: no disagreement\n");
    return bad;
}

int main(int argc, char** argv)
{
    if (argc >= 2 && std::string(argv[1]) == "replay") { xercesc::XMLPlatformUtils::Initialize(); return replayMain(argc, argv); }
    const size_t NC = sizeof(g_containers) / sizeof(g_containers[0]);
    if (argc >= 2 && std::string(argv[1]) == "list")
    {
        for (size_t i = 0; i < NC; ++i)
        {
            Sys* s = g_containers[i].make();
            printf("%s\tquick depth %d\tthorough depth %d\t%zu ops\t%s\n   ", g_containers[i].name, g_containers[i].depthQuick, g_containers[i].depthThorough, s->ops().size(), g_containers[i].what);
            for (auto& o : s->ops()) printf(" %s", o.name.c_str());
            printf("\n");
        }
        return 0;
    }
    if (argc < 4) { fprintf(stderr, "usage: c20 <tier> <shard> <nshards>\n"); return 2; }
    const std::string tier = argv[1];
    const int shard = atoi(argv[2]), nshards = std::max(1, atoi(argv[3]));
    xercesc::XMLPlatformUtils::Initialize();
    int jobs = getenv("VERIF_JOBS") ? atoi(getenv("VERIF_JOBS")) : 16;
    if (getenv("C20_JOBS")) jobs = atoi(getenv("C20_JOBS"));
    const int W = std::max(1, std::min(200, jobs / nshards));
    const bool quick = tier != "thorough";
    const double t0 = nowS();
    const double budget = getenv("C20_BUDGET_S") ? atof(getenv("C20_BUDGET_S")) : (quick ? 150.0 : 1080.0);
    const char* only = getenv("C20_ONLY");
    const int depthDelta = getenv("C20_DEPTH_DELTA") ? atoi(getenv("C20_DEPTH_DELTA")) : 0;

    std::map<std::string, long long> counts;
    std::vector<Viol> allViols;
    std::vector<std::string> samples;
    bool anyCap = false;
    int maxDepth = 0;
    struct Summary { volatile int completed, cap, done; };
    Summary* sum = (Summary*)mmap(0, 4096, PROT_READ | PROT_WRITE, MAP_SHARED | MAP_ANONYMOUS, -1, 0);
    for (size_t ci = 0; ci < NC; ++ci)
    {
        if ((int)(ci % (size_t)nshards) != shard) continue;
        const Container& c = g_containers[ci];
        if (only && (std::string(",") + only + ",").find(std::string(",") + c.name + ",") == std::string::npos) continue;
        const int depth = std::max(1, (quick ? c.depthQuick : c.depthThorough) + depthDelta);
        // one process per container: its seen-set and frontier are gone when it ends, so the next container forks from a small parent
        sum->completed = 0; sum->cap = 0; sum->done = 0;
        fflush(stdout);
        const pid_t cpid = fork();
        if (cpid < 0) { perror("fork"); return 2; }
        if (cpid == 0)
        {
            std::map<std::string, long long> cc;
            const double tc = nowS();
            Search s(c, depth, W, t0 + budget);
            s.run();
            const std::string n = c.name;
            cc["states"] = s.tot.states;
            cc["transitions"] = s.tot.transitions;
            cc["evaluations"] = s.tot.comparisons;
            cc["nontrivial"] = s.tot.nontrivial;
            cc["fatal_outcomes"] = s.tot.fatals;
            cc["ops_disabled_by_precondition"] = s.tot.disabled;
            cc["pruned_after_violation"] = s.tot.prunedAfterViolation;
            cc["nontrivial_transitions"] = s.tot.evtTransitions;
            cc["ops_switched_off_after_fatal"] = s.tot.opsOff;
            cc["transitions_skipped_op_off"] = s.tot.skippedOff;
            cc["violations_raw"] = s.tot.violRaw;
            cc["containers"] = 1;
            cc["states_" + n] = s.tot.states;
            cc["transitions_" + n] = s.tot.transitions;
            cc["nontrivial_" + n] = s.tot.nontrivial;
            cc["depth_" + n] = s.completed;
            cc["depth_wanted_" + n] = depth;
            cc["ms_" + n] = (long long)((nowS() - tc) * 1000);
            const bool cap = s.capHit || s.completed < depth || s.tot.opsOff;
            if (cap) cc["cap_hit_" + n] = 1;
            // minimal history per signature: BFS order = (level, parent, op)
            std::stable_sort(s.viols.begin(), s.viols.end(), [](const Viol& x, const Viol& y)
            {
                if (x.level != y.level) return x.level < y.level;
                if (x.parent != y.parent) return x.parent < y.parent;
                return x.op < y.op;
            });
            for (auto& kv : cc) printf("count\t%s\t%lld\n", kv.first.c_str(), kv.second);
            std::set<std::string> sigs;
            for (auto& v : s.viols) if (sigs.insert(v.sig).second) printf("viol\t%s\t%s\n", escField(v.sig).c_str(), escField(v.detail).c_str());
            for (auto& x : s.samples) printf("sample\t%s\n", escField(x).c_str());
            fflush(stdout);
            sum->completed = s.completed; sum->cap = cap ? 1 : 0; sum->done = 1;
            _exit(0);
        }
        int st = 0; waitpid(cpid, &st, 0);
        if (!sum->done)
        {
            // the per-container master itself ended abnormally: a verdict too, and certainly not exhaustive
            Viol v; v.level = 0; v.parent = 0; v.op = 0;
            v.sig = std::string("harness|") + c.name + "|abnormal-exit";
            v.detail = std::string("container=") + c.name + " history=[] :: the search process for this container ended abnormally (status " + istr(st) + ")";
            allViols.push_back(v);
            anyCap = true; counts["cap_hit_" + std::string(c.name)] = 1;
        }
        else
        {
            if (sum->cap) anyCap = true;
            maxDepth = std::max(maxDepth, (int)sum->completed);
        }
    }
    // debug-assertion probes (run in a forked child each)
    if (shard == 0 && !(only && std::string(only).find("probe") == std::string::npos))
        runProbes(allViols, counts);
    counts["max_depth"] = maxDepth;
    if (anyCap) counts["cap_hit"] = 1;
    for (auto& kv : counts) printf("count\t%s\t%lld\n", kv.first.c_str(), kv.second);
    for (auto& v : allViols) printf("viol\t%s\t%s\n", escField(v.sig).c_str(), escField(v.detail).c_str());
    for (auto& x : samples) printf("sample\t%s\n", escField(x).c_str());
    fflush(stdout);
    return 0;
}
