// c07free: the thread bodies of harness/c07.cpp under the REAL ThreadSanitizer runtime, free running (no scheduler).
// Companion race-visibility pass for C07 (a serialising scheduler's hand-offs would blind the detector); not the deciding step.
// usage: c07free <scenario> <nthreads> <reps> <srckind>
// VARIANT: tsan
// LDLIBS: -ldl -lpthread
// CXXFLAGS: -fsanitize=thread -DC07_FREE_RUNNING
#include "c07.cpp"
