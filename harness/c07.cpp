// C07: preemption-bounded schedule exploration of concurrent transformations that share a compiled stylesheet and a
// parsed source. This executable is linked against the TSan-INSTRUMENTED libxalan-c but NOT against the TSan runtime:
// it implements the __tsan_* entry points itself (own scheduler + happens-before race detector) and interposes the
// pthread / __cxa_guard synchronisation operations.
//
// Protocol (stdin/stdout, one line each), after setup:
//   seq                       -> "seq <rc> <hexhash> <len>"            sequential reference run in a forked child
//   run <wfile|-> <c0,c1,...> -> one execution in a forked child following the given choices, then defaults:
//        "res <status> | <per-thread rc:hash,...> | <trace r:k:mask:pick;...> | <races site1~site2;...> | <new shared writes addr:site;...> | <stats>"
//   quit
// usage: c07 <scenario> <nthreads> <reps> <srckind: st|xw|xn>
// VARIANT: tsan
// LDLIBS: -ldl -lpthread -rdynamic
// CXXFLAGS: -fno-sanitize=thread
#include "common.hpp"

#include <atomic>
#include <set>
#include <unordered_map>
#include <unordered_set>
#include <algorithm>
#include <dlfcn.h>
#include <link.h>
#include <pthread.h>
#include <errno.h>
#include <unistd.h>
#include <signal.h>
#include <sys/mman.h>
#include <sys/wait.h>
#include <sys/syscall.h>
#include <linux/futex.h>

#include <xalanc/XalanTransformer/XalanTransformer.hpp>
#include <xalanc/XalanTransformer/XalanCompiledStylesheet.hpp>
#include <xalanc/XalanTransformer/XalanParsedSource.hpp>
#include <xalanc/XalanTransformer/XercesDOMWrapperParsedSource.hpp>
#include <xalanc/XalanTransformer/XercesDOMParsedSource.hpp>
#include <xalanc/XercesParserLiaison/XercesParserLiaison.hpp>
#include <xalanc/XercesParserLiaison/XercesDOMSupport.hpp>
#include <xalanc/XSLT/XSLTInputSource.hpp>
#include <xalanc/XSLT/XSLTResultTarget.hpp>
#include <xercesc/parsers/XercesDOMParser.hpp>
#include <xercesc/sax/EntityResolver.hpp>

using namespace xalanc;

#ifndef C07_FREE_RUNNING
// =============================================================================================================
// runtime state (plain C, no allocation inside hooks where avoidable)
// =============================================================================================================
namespace rt {

const int MAXT = 4;
enum St { ST_NONE, ST_RUN, ST_BLOCK_MUTEX, ST_BLOCK_COND, ST_BLOCK_ONCE, ST_DONE };

static volatile int g_active = 0;          // concurrent phase under the scheduler
static __thread int t_tid = -1;
static int g_nthreads = 0;

static volatile int g_current = -1;        // baton
static St g_st[MAXT];
static void* g_wait[MAXT];
static bool g_condSignalled[MAXT];

static std::vector<int> g_choices;
static size_t g_nextChoice = 0;
static std::string g_trace;
static long g_points = 0;
static bool g_diverged = false;
static const long MAX_POINTS = 200000;

// shared memory ranges
struct Range { uintptr_t lo, hi; };
static Range g_ranges[16];
static int g_nranges = 0;
static uintptr_t g_libBase = 0;            // load address of libxalan-c for symbolisation

static std::unordered_set<uintptr_t>* g_W = 0;          // learned written shared addresses (8-byte granules)
static std::unordered_map<uintptr_t, uintptr_t>* g_newW = 0;   // granule -> pc
static long g_sharedReads = 0, g_sharedWrites = 0;

// happens-before
typedef unsigned VC[MAXT];
static VC g_vc[MAXT];
struct Shadow { int wt; unsigned wc; uintptr_t wpc; unsigned rc[MAXT]; uintptr_t rpc[MAXT]; };
static std::unordered_map<uintptr_t, Shadow>* g_shadow = 0;
static std::unordered_map<void*, std::vector<unsigned> >* g_syncVC = 0;   // mutex / once / guard -> released clock
static std::set<std::pair<uintptr_t, uintptr_t> >* g_races = 0;

struct MutexState { int owner; int count; };
static std::unordered_map<void*, MutexState>* g_mutex = 0;
static std::unordered_map<void*, int>* g_once = 0;      // 1 in progress, 2 done (value>>8 = owner)

static int (*real_mutex_lock)(pthread_mutex_t*) = 0;
static int (*real_mutex_trylock)(pthread_mutex_t*) = 0;
static int (*real_mutex_unlock)(pthread_mutex_t*) = 0;
static int (*real_once)(pthread_once_t*, void (*)(void)) = 0;
static int (*real_cond_wait)(pthread_cond_t*, pthread_mutex_t*) = 0;
static int (*real_cond_timedwait)(pthread_cond_t*, pthread_mutex_t*, const struct timespec*) = 0;
static int (*real_cond_signal)(pthread_cond_t*) = 0;
static int (*real_cond_broadcast)(pthread_cond_t*) = 0;
static int (*real_guard_acquire)(long long*) = 0;
static void (*real_guard_release)(long long*) = 0;
static void (*real_guard_abort)(long long*) = 0;

static void resolveReal()
{
    if (real_mutex_lock) return;
    real_mutex_lock = (int (*)(pthread_mutex_t*))dlsym(RTLD_NEXT, "pthread_mutex_lock");
    real_mutex_trylock = (int (*)(pthread_mutex_t*))dlsym(RTLD_NEXT, "pthread_mutex_trylock");
    real_mutex_unlock = (int (*)(pthread_mutex_t*))dlsym(RTLD_NEXT, "pthread_mutex_unlock");
    real_once = (int (*)(pthread_once_t*, void (*)(void)))dlsym(RTLD_NEXT, "pthread_once");
    real_cond_wait = (int (*)(pthread_cond_t*, pthread_mutex_t*))dlsym(RTLD_NEXT, "pthread_cond_wait");
    real_cond_timedwait = (int (*)(pthread_cond_t*, pthread_mutex_t*, const struct timespec*))dlsym(RTLD_NEXT, "pthread_cond_timedwait");
    real_cond_signal = (int (*)(pthread_cond_t*))dlsym(RTLD_NEXT, "pthread_cond_signal");
    real_cond_broadcast = (int (*)(pthread_cond_t*))dlsym(RTLD_NEXT, "pthread_cond_broadcast");
    real_guard_acquire = (int (*)(long long*))dlsym(RTLD_NEXT, "__cxa_guard_acquire");
    real_guard_release = (void (*)(long long*))dlsym(RTLD_NEXT, "__cxa_guard_release");
    real_guard_abort = (void (*)(long long*))dlsym(RTLD_NEXT, "__cxa_guard_abort");
}

static void futexWait(volatile int* a, int v) { syscall(SYS_futex, a, FUTEX_WAIT, v, 0, 0, 0); }
static void futexWakeAll(volatile int* a) { syscall(SYS_futex, a, FUTEX_WAKE, 1 << 30, 0, 0, 0); }

static void die(const char* why)
{
    // the child reports through its result pipe; here we only have stderr + exit code
    fprintf(stderr, "c07-runtime: %s\n", why);
    _exit(70);
}

static bool enabled(int i)
{
    switch (g_st[i])
    {
    case ST_RUN: return true;
    case ST_BLOCK_MUTEX: { MutexState& m = (*g_mutex)[g_wait[i]]; return m.owner < 0 || m.count == 0; }
    case ST_BLOCK_COND: return g_condSignalled[i];
    case ST_BLOCK_ONCE: { int v = (*g_once)[g_wait[i]]; return (v & 0xff) != 1; }
    default: return false;
    }
}

static int g_outcomeDeadlock = 0;
static int g_resultFd = -1;
static void writeResultAndExit(const char* status);

// kind: 'L' lock 'U' unlock 'T' trylock 'B' blocked 'C' cond 'S' signal 'O' once 'G' guard 'M' memory 'X' thread exit 'I' initial
static void schedPoint(char kind, int self)
{
    if (++g_points > MAX_POINTS) { writeResultAndExit("horizon"); }
    unsigned mask = 0;
    for (int i = 0; i < g_nthreads; ++i) if (enabled(i)) mask |= 1u << i;
    if (mask == 0)
    {
        bool allDone = true;
        for (int i = 0; i < g_nthreads; ++i) if (g_st[i] != ST_DONE) allDone = false;
        if (allDone) { g_current = -2; futexWakeAll(&g_current); return; }
        writeResultAndExit("deadlock");
    }
    int pick;
    if (g_nextChoice < g_choices.size())
    {
        pick = g_choices[g_nextChoice++];
        if (pick < 0 || pick >= g_nthreads || !(mask & (1u << pick))) { g_diverged = true; writeResultAndExit("diverged"); }
    }
    else
    {
        if (self >= 0 && (mask & (1u << self))) pick = self;
        else { pick = 0; while (!(mask & (1u << pick))) ++pick; }
    }
    char buf[64];
    snprintf(buf, sizeof buf, "%d:%c:%x:%d;", self, kind, mask, pick);
    g_trace += buf;
    if (pick != self)
    {
        g_current = pick;
        futexWakeAll(&g_current);
        if (self >= 0 && g_st[self] != ST_DONE)
            for (;;) { const int v = g_current; if (v == self) break; futexWait(&g_current, v); }
    }
}

static void joinVC(int t, const std::vector<unsigned>& o) { for (int i = 0; i < MAXT; ++i) if (o[i] > g_vc[t][i]) g_vc[t][i] = o[i]; }
static void releaseVC(int t, void* obj)
{
    std::vector<unsigned>& v = (*g_syncVC)[obj];
    v.assign(g_vc[t], g_vc[t] + MAXT);
    g_vc[t][t]++;
}
static void acquireVC(int t, void* obj)
{
    std::unordered_map<void*, std::vector<unsigned> >::iterator i = g_syncVC->find(obj);
    if (i != g_syncVC->end()) joinVC(t, i->second);
}

static inline bool isShared(uintptr_t a)
{
    for (int i = 0; i < g_nranges; ++i) if (a >= g_ranges[i].lo && a < g_ranges[i].hi) return true;
    return false;
}

static void access(uintptr_t addr, bool isWrite, uintptr_t pc)
{
    const int t = t_tid;
    const uintptr_t g = addr >> 3;
    if (isWrite)
    {
        ++g_sharedWrites;
        if (!g_W->count(g) && !g_newW->count(g)) (*g_newW)[g] = pc;
    }
    else ++g_sharedReads;
    if (g_W->count(g)) schedPoint('M', t);
    Shadow& s = (*g_shadow)[g];
    if (s.wc != 0 && s.wt != t && s.wc > g_vc[t][s.wt])
        g_races->insert(std::make_pair(std::min(s.wpc, pc), std::max(s.wpc, pc)));
    if (isWrite)
    {
        for (int i = 0; i < g_nthreads; ++i)
            if (i != t && s.rc[i] != 0 && s.rc[i] > g_vc[t][i])
                g_races->insert(std::make_pair(std::min(s.rpc[i], pc), std::max(s.rpc[i], pc)));
        s.wt = t; s.wc = g_vc[t][t]; s.wpc = pc;
    }
    else { s.rc[t] = g_vc[t][t]; s.rpc[t] = pc; }
}

} // namespace rt

// =============================================================================================================
// __tsan_* entry points
// =============================================================================================================
#define TSAN_HOOK(name, W) \
    extern "C" void name(void* a) { if (rt::g_active && rt::t_tid >= 0 && rt::isShared((uintptr_t)a)) rt::access((uintptr_t)a, W, (uintptr_t)__builtin_return_address(0)); }
TSAN_HOOK(__tsan_read1, false) TSAN_HOOK(__tsan_read2, false) TSAN_HOOK(__tsan_read4, false) TSAN_HOOK(__tsan_read8, false) TSAN_HOOK(__tsan_read16, false)
TSAN_HOOK(__tsan_write1, true) TSAN_HOOK(__tsan_write2, true) TSAN_HOOK(__tsan_write4, true) TSAN_HOOK(__tsan_write8, true) TSAN_HOOK(__tsan_write16, true)
TSAN_HOOK(__tsan_unaligned_read2, false) TSAN_HOOK(__tsan_unaligned_read4, false) TSAN_HOOK(__tsan_unaligned_read8, false) TSAN_HOOK(__tsan_unaligned_read16, false)
TSAN_HOOK(__tsan_unaligned_write2, true) TSAN_HOOK(__tsan_unaligned_write4, true) TSAN_HOOK(__tsan_unaligned_write8, true) TSAN_HOOK(__tsan_unaligned_write16, true)
TSAN_HOOK(__tsan_vptr_read, false)
extern "C" void __tsan_vptr_update(void* a, void*) { if (rt::g_active && rt::t_tid >= 0 && rt::isShared((uintptr_t)a)) rt::access((uintptr_t)a, true, (uintptr_t)__builtin_return_address(0)); }
extern "C" void __tsan_func_entry(void*) {}
extern "C" void __tsan_func_exit() {}
extern "C" void __tsan_init() {}

// =============================================================================================================
// interposed synchronisation
// =============================================================================================================
#define MANAGED() (rt::g_active && rt::t_tid >= 0)

extern "C" int pthread_mutex_lock(pthread_mutex_t* m)
{
    rt::resolveReal();
    if (!MANAGED()) return rt::real_mutex_lock(m);
    const int t = rt::t_tid;
    rt::schedPoint('L', t);
    rt::MutexState& ms = (*rt::g_mutex)[m];
    if (ms.count == 0) ms.owner = -1;
    while (ms.count > 0 && ms.owner != t)
    {
        rt::g_st[t] = rt::ST_BLOCK_MUTEX; rt::g_wait[t] = m;
        rt::schedPoint('B', t);
        rt::g_st[t] = rt::ST_RUN;
    }
    ms.owner = t; ms.count++;
    rt::acquireVC(t, m);
    return rt::real_mutex_lock(m);
}

extern "C" int pthread_mutex_trylock(pthread_mutex_t* m)
{
    rt::resolveReal();
    if (!MANAGED()) return rt::real_mutex_trylock(m);
    const int t = rt::t_tid;
    rt::schedPoint('T', t);
    rt::MutexState& ms = (*rt::g_mutex)[m];
    if (ms.count > 0 && ms.owner != t) return EBUSY;
    int r = rt::real_mutex_trylock(m);
    if (r == 0) { ms.owner = t; ms.count++; rt::acquireVC(t, m); }
    return r;
}

extern "C" int pthread_mutex_unlock(pthread_mutex_t* m)
{
    rt::resolveReal();
    if (!MANAGED()) return rt::real_mutex_unlock(m);
    const int t = rt::t_tid;
    rt::MutexState& ms = (*rt::g_mutex)[m];
    if (ms.count > 0) ms.count--;
    if (ms.count == 0) ms.owner = -1;
    rt::releaseVC(t, m);
    // no scheduling point after an unlock: preempting here is equivalent to preempting at the thread's next point,
    // because nothing visible to other threads happens in between (waiters become enabled and can be chosen there)
    return rt::real_mutex_unlock(m);
}

static int condWaitCommon(pthread_cond_t* c, pthread_mutex_t* m)
{
    const int t = rt::t_tid;
    // release the mutex
    rt::MutexState& ms = (*rt::g_mutex)[m];
    int saved = ms.count;
    ms.count = 0; ms.owner = -1;
    rt::releaseVC(t, m);
    for (int i = 0; i < saved; ++i) rt::real_mutex_unlock(m);
    rt::g_condSignalled[t] = false;
    rt::g_st[t] = rt::ST_BLOCK_COND; rt::g_wait[t] = c;
    rt::schedPoint('C', t);
    rt::g_st[t] = rt::ST_RUN;
    rt::acquireVC(t, c);
    // re-acquire
    while (ms.count > 0 && ms.owner != t)
    {
        rt::g_st[t] = rt::ST_BLOCK_MUTEX; rt::g_wait[t] = m;
        rt::schedPoint('B', t);
        rt::g_st[t] = rt::ST_RUN;
    }
    ms.owner = t; ms.count = saved;
    rt::acquireVC(t, m);
    for (int i = 0; i < saved; ++i) rt::real_mutex_lock(m);
    return 0;
}

extern "C" int pthread_cond_wait(pthread_cond_t* c, pthread_mutex_t* m)
{
    rt::resolveReal();
    if (!MANAGED()) return rt::real_cond_wait(c, m);
    return condWaitCommon(c, m);
}

extern "C" int pthread_cond_timedwait(pthread_cond_t* c, pthread_mutex_t* m, const struct timespec* ts)
{
    rt::resolveReal();
    if (!MANAGED()) return rt::real_cond_timedwait(c, m, ts);
    return condWaitCommon(c, m);
}

static int condSignalCommon(pthread_cond_t* c, bool all)
{
    const int t = rt::t_tid;
    rt::releaseVC(t, c);
    for (int i = 0; i < rt::g_nthreads; ++i)
        if (rt::g_st[i] == rt::ST_BLOCK_COND && rt::g_wait[i] == c && !rt::g_condSignalled[i])
        {
            rt::g_condSignalled[i] = true;
            if (!all) break;
        }
    rt::schedPoint('S', t);
    return 0;
}

extern "C" int pthread_cond_signal(pthread_cond_t* c)
{
    rt::resolveReal();
    if (!MANAGED()) return rt::real_cond_signal(c);
    return condSignalCommon(c, false);
}

extern "C" int pthread_cond_broadcast(pthread_cond_t* c)
{
    rt::resolveReal();
    if (!MANAGED()) return rt::real_cond_broadcast(c);
    return condSignalCommon(c, true);
}

static void noopOnce() {}

extern "C" int pthread_once(pthread_once_t* ctrl, void (*fn)(void))
{
    rt::resolveReal();
    if (!MANAGED()) return rt::real_once(ctrl, fn);
    const int t = rt::t_tid;
    rt::schedPoint('O', t);
    int& v = (*rt::g_once)[ctrl];
    while ((v & 0xff) == 1 && (v >> 8) != t)
    {
        rt::g_st[t] = rt::ST_BLOCK_ONCE; rt::g_wait[t] = ctrl;
        rt::schedPoint('B', t);
        rt::g_st[t] = rt::ST_RUN;
    }
    if ((v & 0xff) == 2) { rt::acquireVC(t, ctrl); return 0; }
    if (v == 0)
    {
        // was it completed before the concurrent phase? ask the real implementation with a probe that tells us
        static __thread bool probeRan;
        probeRan = false;
        struct P { static void probe() { probeRan = true; } };
        // we cannot run fn through real_once without risking a real block, so: run the probe; if it ran, the control was fresh
        // and is now marked done by libc, and we run fn ourselves
        rt::real_once(ctrl, P::probe);
        if (!probeRan) { v = 2; return 0; }
        v = 1 | (t << 8);
        fn();
        v = 2;
        rt::releaseVC(t, ctrl);
    }
    return 0;
}

extern "C" int __cxa_guard_acquire(long long* g)
{
    rt::resolveReal();
    if (!MANAGED()) return rt::real_guard_acquire(g);
    if (*(volatile char*)g != 0) { rt::acquireVC(rt::t_tid, g); return 0; }
    const int t = rt::t_tid;
    rt::schedPoint('G', t);
    int& v = (*rt::g_once)[g];
    while ((v & 0xff) == 1 && (v >> 8) != t)
    {
        rt::g_st[t] = rt::ST_BLOCK_ONCE; rt::g_wait[t] = g;
        rt::schedPoint('B', t);
        rt::g_st[t] = rt::ST_RUN;
    }
    if (*(volatile char*)g != 0 || (v & 0xff) == 2) { rt::acquireVC(t, g); return 0; }
    v = 1 | (t << 8);
    return 1;
}

extern "C" void __cxa_guard_release(long long* g)
{
    rt::resolveReal();
    if (!MANAGED()) { rt::real_guard_release(g); return; }
    *(volatile char*)g = 1;
    (*rt::g_once)[g] = 2;
    rt::releaseVC(rt::t_tid, g);
}

extern "C" void __cxa_guard_abort(long long* g)
{
    rt::resolveReal();
    if (!MANAGED()) { rt::real_guard_abort(g); return; }
    (*rt::g_once)[g] = 0;
}

#else
namespace rt { const int MAXT = 4; }
#endif // C07_FREE_RUNNING

// =============================================================================================================
// arena memory manager: everything the owner transformer and Xalan's global initialisation allocate lives here
// =============================================================================================================
class ArenaManager : public xercesc::MemoryManager
{
public:
    ArenaManager(size_t bytes) : m_lo(0), m_cur(0), m_hi(0)
    {
        m_lo = (char*)mmap(0, bytes, PROT_READ | PROT_WRITE, MAP_PRIVATE | MAP_ANONYMOUS, -1, 0);
        m_cur = m_lo; m_hi = m_lo + bytes;
    }
    void* allocate(XMLSize_t n)
    {
        n = (n + 15) & ~(XMLSize_t)15;
        // free-list by size class for reuse (the owner frees little); a lock is not needed: the arena is only used by the
        // setup thread -- any use during the concurrent phase is itself a finding (shared write)
        std::map<size_t, std::vector<void*> >::iterator i = m_free.find(n);
        if (i != m_free.end() && !i->second.empty()) { void* p = i->second.back(); i->second.pop_back(); return p; }
        if (m_cur + n + 16 > m_hi) throw std::bad_alloc();
        *(size_t*)m_cur = n;
        void* p = m_cur + 16;
        m_cur += n + 16;
        return p;
    }
    void deallocate(void* p)
    {
        if (!p) return;
        size_t n = *(size_t*)((char*)p - 16);
        m_free[n].push_back(p);
    }
    xercesc::MemoryManager* getExceptionMemoryManager() { return this; }
    uintptr_t lo() const { return (uintptr_t)m_lo; }
    uintptr_t hi() const { return (uintptr_t)m_hi; }
private:
    char* m_lo; char* m_cur; char* m_hi;
    std::map<size_t, std::vector<void*> > m_free;
};

// =============================================================================================================
// scenarios
// =============================================================================================================
static const char* XSL_HEAD = "<xsl:stylesheet version=\"1.0\" xmlns:xsl=\"http://www.w3.org/1999/XSL/Transform\" xmlns:xalan=\"http://xml.apache.org/xalan\" "
                              "xmlns:dyn=\"http://exslt.org/dynamic\" exclude-result-prefixes=\"xalan dyn\">";

static std::string scenarioXsl(const std::string& s)
{
    std::string b;
    const bool all = s == "all";
    std::string top, body;
    if (all || s == "keys") { top += "<xsl:key name=\"k\" match=\"i\" use=\"@g\"/>"; body += "<k><xsl:value-of select=\"count(key('k','1'))\"/>:<xsl:value-of select=\"key('k','2')[last()]/@n\"/></k>"; }
    if (all || s == "number") body += "<n><xsl:for-each select=\"//i\"><xsl:number level=\"any\" count=\"i\"/>,<xsl:number level=\"multiple\" count=\"i|r\" format=\"1.a\"/>;</xsl:for-each></n>";
    if (all || s == "document") body += "<d><xsl:value-of select=\"count(document('ext.xml')//v)\"/><xsl:value-of select=\"document('ext.xml')//v[2]\"/></d>";
    if (all || s == "format") { top += "<xsl:decimal-format name=\"f\" decimal-separator=\",\" grouping-separator=\".\"/>"; body += "<f><xsl:value-of select=\"format-number(1234567.891,'#.##0,00','f')\"/>|<xsl:value-of select=\"format-number(0.5,'0.0%')\"/></f>"; }
    if (all || s == "sort") body += "<s><xsl:for-each select=\"//i\"><xsl:sort select=\"@n\" lang=\"sv\"/><xsl:sort select=\"@g\" data-type=\"number\" order=\"descending\"/><xsl:value-of select=\"@n\"/></xsl:for-each></s>";
    if (all || s == "id") body += "<i><xsl:value-of select=\"id('b')/@n\"/><xsl:value-of select=\"count(id('a c'))\"/></i>";
    if (all || s == "strip") { top += "<xsl:strip-space elements=\"*\"/>"; body += "<w><xsl:value-of select=\"count(//text())\"/></w>"; }
    if (all || s == "rtf") body += "<t><xsl:variable name=\"v\"><x><y>1</y><y>2</y></x></xsl:variable><xsl:value-of select=\"sum(xalan:nodeset($v)//y)\"/><xsl:copy-of select=\"$v\"/></t>";
    if (all || s == "genid") body += "<g><xsl:value-of select=\"generate-id(//i[1]) = generate-id(//i[1])\"/><xsl:value-of select=\"generate-id(//i[1]) != generate-id(//i[2])\"/></g>";
    if (all || s == "dyn") body += "<e><xsl:value-of select=\"dyn:evaluate('count(//i) + 1')\"/></e>";
    if (all || s == "attrsets") { top += "<xsl:attribute-set name=\"as\"><xsl:attribute name=\"a\"><xsl:value-of select=\"count(//i)\"/></xsl:attribute></xsl:attribute-set>"; body += "<q xsl:use-attribute-sets=\"as\"/>"; }
    if (all || s == "params") { top += "<xsl:param name=\"p\" select=\"//i[2]/@n\"/><xsl:variable name=\"gv\" select=\"count(//i[@g=1])\"/>"; body += "<p><xsl:value-of select=\"$p\"/><xsl:value-of select=\"$gv\"/></p>"; }
    if (all || s == "templates") { top += "<xsl:template match=\"i[@g='1']\" priority=\"2\"><a><xsl:value-of select=\"@n\"/></a></xsl:template><xsl:template match=\"i\"><b><xsl:value-of select=\"position()\"/></b></xsl:template>"; body += "<m><xsl:apply-templates select=\"//i\"/></m>"; }
    if (all || s == "avt") body += "<v a=\"{count(//i)}-{//i[1]/@n}\" b=\"{{x}}\"><xsl:text>t</xsl:text><xsl:comment>c</xsl:comment></v>";
    return std::string(XSL_HEAD) + top + "<xsl:template match=\"/\"><out>" + body + "</out></xsl:template></xsl:stylesheet>";
}

static const char* SOURCE_XML =
    "<?xml version=\"1.0\"?><!DOCTYPE r [<!ATTLIST i id ID #IMPLIED>]>\n"
    "<r>\n <i id=\"a\" n=\"z\" g=\"1\">1</i>\n <i id=\"b\" n=\"\xc3\xa4\" g=\"2\">2</i>\n <i id=\"c\" n=\"a\" g=\"1\">3</i>\n <i n=\"b\" g=\"2\"><i n=\"c\" g=\"1\"/></i>\n</r>\n";
static const char* EXT_XML = "<e><v>one</v><v>two</v></e>";

struct MemResolver : public xercesc::EntityResolver
{
    virtual xercesc::InputSource* resolveEntity(const XMLCh* const, const XMLCh* const systemId)
    {
        std::string s = vh::toUtf8(systemId, XalanDOMString::length(systemId));
        if (s.find("ext.xml") == std::string::npos) return 0;
        return new xercesc::MemBufInputSource((const XMLByte*)EXT_XML, strlen(EXT_XML), systemId, false);
    }
};

struct StringSink
{
    std::string out;
    static CallbackSizeType write(const char* p, CallbackSizeType n, void* h) { static_cast<StringSink*>(h)->out.append(p, n); return n; }
    static void flush(void*) {}
};

static unsigned long long fnv(const std::string& s)
{
    unsigned long long h = 1469598103934665603ull;
    for (unsigned char c : s) { h ^= c; h *= 1099511628211ull; }
    return h;
}

// =============================================================================================================
// globals of the harness
// =============================================================================================================
static int g_T = 2, g_reps = 1;
static XalanTransformer* g_threadTransformers[rt::MAXT];
static MemResolver* g_resolvers[rt::MAXT];
static const XalanCompiledStylesheet* g_stylesheet = 0;

// a parsed source around a wrapper the caller made himself with XercesParserLiaison::createDocument(doc, threadSafe, buildWrapper, buildMaps)
class OwnWrapperSource : public XalanParsedSource
{
public:
    OwnWrapperSource(XalanDocument* d, MemoryManager& m) : m_document(d), m_uri("file:///vmem/doc.xml", m) {}
    virtual XalanDocument* getDocument() const { return m_document; }
    virtual XalanParsedSourceHelper* createHelper(MemoryManager& m) const { return XercesDOMParsedSourceHelper::create(m); }
    virtual const XalanDOMString& getURI() const { return m_uri; }
private:
    XalanDocument* const m_document;
    const XalanDOMString m_uri;
};

static const XalanParsedSource* g_source = 0;
static std::string g_expected;
static bool g_haveExpected = false;

struct ThreadResult { int rc; unsigned long long hash; bool equal; std::string err; };
static ThreadResult g_results[rt::MAXT];

static int runTransform(XalanTransformer& t, std::string& out, std::string& err)
{
    StringSink sink;
    int rc = t.transform(*g_source, g_stylesheet, &sink, StringSink::write, StringSink::flush);
    out.swap(sink.out);
    if (rc != 0 && t.getLastError()) err = t.getLastError();
    return rc;
}

#ifndef C07_FREE_RUNNING

static void* threadMain(void* arg)
{
    const int tid = (int)(intptr_t)arg;
    rt::t_tid = tid;
    // wait for the baton
    for (;;) { const int v = rt::g_current; if (v == tid) break; rt::futexWait(&rt::g_current, v); }
    ThreadResult& r = g_results[tid];
    r.rc = 0; r.equal = true; r.hash = 0;
    try
    {
        for (int k = 0; k < g_reps; ++k)
        {
            std::string out, err;
            int rc = runTransform(*g_threadTransformers[tid], out, err);
            if (rc != 0) { r.rc = rc; r.err = err; }
            r.hash = fnv(out);
            if (g_haveExpected && out != g_expected) r.equal = false;
        }
    }
    catch (...) { r.rc = -99; r.err = "exception escaped transform()"; }
    rt::g_st[tid] = rt::ST_DONE;
    rt::schedPoint('X', tid);
    return 0;
}

static std::string symbolise(uintptr_t pc)
{
    char b[64];
    if (pc >= rt::g_libBase) snprintf(b, sizeof b, "+0x%lx", (unsigned long)(pc - rt::g_libBase));
    else snprintf(b, sizeof b, "0x%lx", (unsigned long)pc);
    return b;
}

static void rt::writeResultAndExit(const char* status)
{
    std::string o = "res ";
    o += status;
    o += " | ";
    for (int i = 0; i < g_T; ++i)
    {
        char b[96];
        snprintf(b, sizeof b, "%d:%016llx:%d,", g_results[i].rc, g_results[i].hash, g_results[i].equal ? 1 : 0);
        o += b;
    }
    o += " | " + rt::g_trace + " | ";
    for (std::set<std::pair<uintptr_t, uintptr_t> >::iterator i = rt::g_races->begin(); i != rt::g_races->end(); ++i)
        o += symbolise(i->first) + "~" + symbolise(i->second) + ";";
    o += " | ";
    for (std::unordered_map<uintptr_t, uintptr_t>::iterator i = rt::g_newW->begin(); i != rt::g_newW->end(); ++i)
    {
        char b[64];
        snprintf(b, sizeof b, "%lx:", (unsigned long)i->first);
        o += b + symbolise(i->second) + ";";
    }
    char st[160];
    snprintf(st, sizeof st, " | points=%ld sharedReads=%ld sharedWrites=%ld mutexes=%zu", rt::g_points, rt::g_sharedReads, rt::g_sharedWrites, rt::g_mutex->size());
    o += st;
    for (int i = 0; i < g_T; ++i) if (!g_results[i].err.empty()) o += " err" + std::to_string(i) + "=" + vh::esc(g_results[i].err.substr(0, 200));
    o += "\n";
    size_t off = 0;
    while (off < o.size()) { ssize_t n = write(rt::g_resultFd, o.data() + off, o.size() - off); if (n <= 0) break; off += n; }
    _exit(0);
}

static int phdrCb(struct dl_phdr_info* info, size_t, void*)
{
    const std::string name = info->dlpi_name ? info->dlpi_name : "";
    if (name.find("libxalan-c") == std::string::npos && name.find("libxalanMsg") == std::string::npos) return 0;
    if (name.find("libxalan-c") != std::string::npos) rt::g_libBase = info->dlpi_addr;
    for (int i = 0; i < info->dlpi_phnum; ++i)
    {
        const ElfW(Phdr)& p = info->dlpi_phdr[i];
        if (p.p_type == PT_LOAD && (p.p_flags & PF_W) && rt::g_nranges < 15)
        {
            rt::g_ranges[rt::g_nranges].lo = info->dlpi_addr + p.p_vaddr;
            rt::g_ranges[rt::g_nranges].hi = info->dlpi_addr + p.p_vaddr + p.p_memsz;
            ++rt::g_nranges;
        }
    }
    return 0;
}

static void childRun(const std::string& wfile, const std::vector<int>& choices, int fd)
{
    rt::g_resultFd = fd;
    rt::g_W = new std::unordered_set<uintptr_t>();
    rt::g_newW = new std::unordered_map<uintptr_t, uintptr_t>();
    rt::g_shadow = new std::unordered_map<uintptr_t, rt::Shadow>();
    rt::g_syncVC = new std::unordered_map<void*, std::vector<unsigned> >();
    rt::g_races = new std::set<std::pair<uintptr_t, uintptr_t> >();
    rt::g_mutex = new std::unordered_map<void*, rt::MutexState>();
    rt::g_once = new std::unordered_map<void*, int>();
    if (wfile != "-")
    {
        FILE* f = fopen(wfile.c_str(), "r");
        if (f) { unsigned long a; while (fscanf(f, "%lx", &a) == 1) rt::g_W->insert((uintptr_t)a); fclose(f); }
    }
    rt::g_choices = choices;
    rt::g_nthreads = g_T;
    for (int i = 0; i < g_T; ++i) { rt::g_st[i] = rt::ST_RUN; for (int j = 0; j < rt::MAXT; ++j) rt::g_vc[i][j] = 0; rt::g_vc[i][i] = 1; g_results[i].rc = -1; g_results[i].hash = 0; g_results[i].equal = false; }
    rt::resolveReal();
    alarm(120);
    pthread_t th[rt::MAXT];
    for (int i = 0; i < g_T; ++i) pthread_create(&th[i], 0, threadMain, (void*)(intptr_t)i);
    rt::g_active = 1;
    rt::schedPoint('I', -1);        // who starts
    for (int i = 0; i < g_T; ++i) pthread_join(th[i], 0);
    rt::g_active = 0;
    rt::writeResultAndExit("ok");
}

#else // C07_FREE_RUNNING: the same bodies under the real TSan runtime, no scheduler (companion pass, not the deciding one)
static std::atomic<int> g_go(0);
static std::atomic<int> g_bad(0);
static void* freeThread(void* arg)
{
    const int tid = (int)(intptr_t)arg;
    while (g_go.load() == 0) {}
    for (int k = 0; k < g_reps; ++k)
    {
        std::string out, err;
        int rc = runTransform(*g_threadTransformers[tid], out, err);
        if (rc != 0 || out != g_expected) g_bad.fetch_add(1);
        if (tid & 1) usleep(50 * (k % 3));
    }
    return 0;
}
#endif

int main(int argc, char** argv)
{
    const std::string scenario = argc > 1 ? argv[1] : "all";
    g_T = argc > 2 ? atoi(argv[2]) : 2;
    g_reps = argc > 3 ? atoi(argv[3]) : 1;
    const std::string srckind = argc > 4 ? argv[4] : "st";
    if (g_T > rt::MAXT) g_T = rt::MAXT;

    ArenaManager* arena = new ArenaManager(256u << 20);
    xercesc::XMLPlatformUtils::Initialize();
    XalanTransformer::initialize(*arena);
#ifndef C07_FREE_RUNNING
    dl_iterate_phdr(phdrCb, 0);
    rt::g_ranges[rt::g_nranges].lo = arena->lo(); rt::g_ranges[rt::g_nranges].hi = arena->hi(); ++rt::g_nranges;
#endif
    {
        XalanTransformer owner(*arena);
        MemResolver ownerResolver;
        owner.setEntityResolver(&ownerResolver);
        const std::string xsl = scenarioXsl(scenario);
        std::istringstream xslStream(xsl);
        XSLTInputSource xslIn(&xslStream);
        xslIn.setSystemId(vh::dom("file:///vmem/main.xsl").c_str());
        if (owner.compileStylesheet(xslIn, g_stylesheet) != 0) { printf("setup-error compile %s\n", owner.getLastError()); return 2; }
        std::string src(SOURCE_XML);
        std::istringstream srcStream(src);
        XSLTInputSource srcIn(&srcStream);
        srcIn.setSystemId(vh::dom("file:///vmem/doc.xml").c_str());
        XercesParserLiaison* liaison = 0; XercesDOMSupport* dsup = 0; xercesc::XercesDOMParser* parser = 0; XercesDOMWrapperParsedSource* wrapped = 0;
        if (srckind == "st")
        {
            if (owner.parseSource(srcIn, g_source, false) != 0) { printf("setup-error parse %s\n", owner.getLastError()); return 2; }
        }
        else if (srckind == "xn")
        {
            // parseSource(..., useXercesDOM=true): the liaison's default is NOT thread safe (outside the property's quantifier; positive control)
            if (owner.parseSource(srcIn, g_source, true) != 0) { printf("setup-error parse %s\n", owner.getLastError()); return 2; }
        }
        else if (srckind == "xt")
        {
            // the caller wraps the DOM himself and asks for a thread-safe wrapper WITHOUT asking for the nodes to be built up front:
            // thread safety implies that they are (XercesDocumentWrapper: "threadSafe ... buildWrapper is forced")
            parser = new xercesc::XercesDOMParser;
            parser->setDoNamespaces(true);
            xercesc::MemBufInputSource mb((const XMLByte*)src.data(), src.size(), "file:///vmem/doc.xml", false);
            parser->parse(mb);
            liaison = new XercesParserLiaison(*arena);
            g_source = new OwnWrapperSource(liaison->createDocument(parser->getDocument(), true, false, true), *arena);
        }
        else
        {
            parser = new xercesc::XercesDOMParser;
            parser->setDoNamespaces(true);
            xercesc::MemBufInputSource mb((const XMLByte*)src.data(), src.size(), "file:///vmem/doc.xml", false);
            parser->parse(mb);
            liaison = new XercesParserLiaison(*arena);
            liaison->setThreadSafe(true);
            liaison->setBuildWrapperNodes(true);
            liaison->setBuildMaps(true);
            dsup = new XercesDOMSupport(*liaison);
            wrapped = new XercesDOMWrapperParsedSource(parser->getDocument(), *liaison, *dsup, XalanDOMString("file:///vmem/doc.xml", *arena), *arena);
            g_source = wrapped;
        }
        for (int i = 0; i < g_T; ++i)
        {
            g_threadTransformers[i] = new XalanTransformer;
            g_resolvers[i] = new MemResolver;
            g_threadTransformers[i]->setEntityResolver(g_resolvers[i]);
            g_threadTransformers[i]->setWarningStream(0);
            g_threadTransformers[i]->setErrorStream(0);
        }
#ifdef C07_FREE_RUNNING
        {
            // reference output from a third transformer, then the free-running threads
            XalanTransformer ref;
            MemResolver refResolver;
            ref.setEntityResolver(&refResolver);
            ref.setWarningStream(0);
            std::string err;
            if (runTransform(ref, g_expected, err) != 0) { printf("free setup-error %s\n", err.c_str()); return 2; }
            pthread_t th[rt::MAXT];
            for (int i = 0; i < g_T; ++i) pthread_create(&th[i], 0, freeThread, (void*)(intptr_t)i);
            g_go.store(1);
            for (int i = 0; i < g_T; ++i) pthread_join(th[i], 0);
            printf("free done bad=%d\n", g_bad.load());
            return g_bad.load() ? 3 : 0;
        }
#else
        printf("ready ranges=%d libbase=%lx arena=%lx-%lx\n", rt::g_nranges, (unsigned long)rt::g_libBase, (unsigned long)arena->lo(), (unsigned long)arena->hi());
        fflush(stdout);

        std::string line;
        while (std::getline(std::cin, line))
        {
            if (line == "quit") break;
            std::vector<std::string> f = vh::splitTabs(line);
            if (f[0] == "seq")
            {
                int pfd[2]; if (pipe(pfd) != 0) return 3;
                pid_t pid = fork();
                if (pid == 0)
                {
                    close(pfd[0]);
                    std::string out, err;
                    int rc = runTransform(*g_threadTransformers[0], out, err);
                    std::string o = "seq " + std::to_string(rc) + " " + vh::esc(out) + "\n";
                    write(pfd[1], o.data(), o.size());
                    _exit(0);
                }
                close(pfd[1]);
                std::string got; char buf[65536]; ssize_t n;
                while ((n = read(pfd[0], buf, sizeof buf)) > 0) got.append(buf, n);
                close(pfd[0]);
                int st; waitpid(pid, &st, 0);
                if (got.compare(0, 4, "seq ") == 0)
                {
                    size_t sp = got.find(' ', 4);
                    g_expected = vh::unesc(got.substr(sp + 1, got.size() - sp - 2));
                    g_haveExpected = true;
                    printf("seq %s %016llx %zu\n", got.substr(4, sp - 4).c_str(), fnv(g_expected), g_expected.size());
                }
                else printf("seq-failed status=%d\n", st);
                fflush(stdout);
            }
            else if (f[0] == "run")
            {
                std::vector<int> choices;
                if (f.size() > 2 && !f[2].empty())
                {
                    std::stringstream ss(f[2]); std::string tok;
                    while (std::getline(ss, tok, ',')) if (!tok.empty()) choices.push_back(atoi(tok.c_str()));
                }
                int pfd[2]; if (pipe(pfd) != 0) return 3;
                fflush(stdout);
                pid_t pid = fork();
                if (pid == 0) { close(pfd[0]); childRun(f.size() > 1 ? f[1] : "-", choices, pfd[1]); _exit(0); }
                close(pfd[1]);
                std::string got; char buf[65536]; ssize_t n;
                while ((n = read(pfd[0], buf, sizeof buf)) > 0) got.append(buf, n);
                close(pfd[0]);
                int st; waitpid(pid, &st, 0);
                if (got.empty())
                {
                    if (WIFSIGNALED(st)) printf("res signal%d | | | | | \n", WTERMSIG(st));
                    else printf("res exit%d | | | | | \n", WEXITSTATUS(st));
                }
                else fputs(got.c_str(), stdout);
                fflush(stdout);
            }
        }
#endif
    }
    return 0;
}
