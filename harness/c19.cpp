// c19: property C19 - pluggable memory manager: balanced use, and allocation failure is survivable.
// Engine E3 (DESIGN 2.4): EXHAUSTIVE fault enumeration, no sampling.
//
//   c19 <tier> <shard> <nshards>     isolate.hpp protocol on stdout (count / viol / sample lines)
//   c19 replay <case> <k>            one fault run alone: outcome, signature, symbolised throw site / crash site
//   c19 list <tier>                  N (allocations through the supplied manager) per case
//
// A *case* is one scenario ("tr_key"), or two scenarios back to back on ONE manager and ONE transformer
// ("tr_key+params"), or "init" (XalanTransformer::initialize(manager)/terminate(), run before the process-wide
// initialisation). For every case: one fault-free run in a forked child gives N, the reference result and the balance
// verdict (outstanding == 0 after ~XalanTransformer, no foreign / double free). Then for EVERY k in 1..N (global
// index = shard mod nshards) a forked child arms the manager to throw std::bad_alloc from the k-th allocate(), runs the
// case inside try/catch, destroys the transformer, discards the manager, and runs a golden transformation on a new
// transformer with a fresh manager. Outcome classes:
//   surfaced           exception reached the caller, or an error status with a message                      (fine)
//   swallowed-ok       no exception, every status and every output equal to the fault-free run             (fine)
//   swallowed-wrong    no exception, same statuses, different output                                       VIOLATION
//   silent-error       error status with an empty getLastError()                                           VIOLATION
//   terminate          std::terminate (throw out of a noexcept function / during unwinding)                VIOLATION
//   signal N / asan / abort / timeout / exit                                                               VIOLATION
//   foreign-free / double-free   the manager was handed a pointer it does not own / twice                  VIOLATION
//   leak-outside-manager         heap bytes not owned by the manager grew more than in the fault-free run  VIOLATION
//   ubsan              UndefinedBehaviorSanitizer reported a runtime error during the run (no other verdict)  VIOLATION
//   golden-failed      the new transformer did not produce the exact golden output                         VIOLATION
//   not-reached        the run made fewer than k allocations (allocation sequence not deterministic)       VIOLATION
// Signature of a violation (stable across runs, independent of k and of addresses): outcome + the THROW SITE = the
// innermost library frames (inlined frames included, template arguments stripped) of the stack captured inside
// allocate() when it throws: all leading container/allocator plumbing frames plus the first frame that is not
// plumbing, e.g.  terminate|XalanList::getListHead<-XalanList::begin<-ArenaAllocator::reset<-XObjectFactoryDefault::reset
// Frames are classified by their qualified NAME (xalanc_*/xercesc_* = library, anonymous namespace/main = harness).
//   terminate        + |in=<frame that called __clang_call_terminate>  (the noexcept barrier; "unwinder" if none)
//   signal N         signalN|at=<crash site, 3 library frames>|after-throw-at=<throw site>
//   swallowed-wrong  swallowed-wrong|caught-in=<function whose handler caught the injected bad_alloc last>
//   ubsan            ubsan|<File:line: runtime error: message, addresses removed>
//   foreign/double   foreign-free|at=<library frames calling deallocate()>
//   fault-free run   fault-free|<case>|unbalanced|outstanding=<n>, fault-free|<case>|foreign-free|at=..., fault-free|ubsan|<line>
//   init case        every signature is prefixed with "init[<step in flight: initialize|golden|terminate|re-initialize>]:"
// Symbolisation: llvm-symbolizer --inlines, one batch per process, against the file that is actually mapped (a library
// rebuilt on disk during the run is read through /proc/<pid>/map_files).
// Development aids (never set by checks/c19.py): C19_ONLY=case[,case] restricts a run; C19_SYMDEBUG=<prefix> keeps the
// symboliser request/response; C19_LSAN=1 with ASAN_OPTIONS=detect_leaks=1 LSAN_OPTIONS=leak_check_at_exit=0 lets a
// replay name the allocation site of a block leaked outside the manager (checks/c19.py --replay sets these).
// LDLIBS: -ldl
// CXXFLAGS: -DNDEBUG -fvisibility=hidden -fvisibility-inlines-hidden
// (Inline/template code of the library headers that gets instantiated in this executable would otherwise be exported and
//  REPLACE the library's own copies at load time - with assert() enabled and different inlining. Hidden visibility keeps
//  the library running its own code, so throw sites symbolise against libxalan-c.so; -DNDEBUG matches the library build.)
#include "common.hpp"
#include "isolate.hpp"

#include <execinfo.h>
#include <dlfcn.h>
#include <cxxabi.h>
#include <fcntl.h>
#include <sys/stat.h>
#include <exception>
#include <new>
#include <set>
#include <unordered_map>
#include <unordered_set>
#include <sanitizer/allocator_interface.h>
#include <sanitizer/lsan_interface.h>

#include <xercesc/framework/MemoryManager.hpp>
#include <xercesc/sax/EntityResolver.hpp>
#include <xercesc/sax/InputSource.hpp>
#include <xercesc/sax/SAXException.hpp>
#include <xercesc/util/XMLException.hpp>
#include <xercesc/util/OutOfMemoryException.hpp>
#include <xercesc/dom/DOMException.hpp>

#include <xalanc/XalanDOM/XalanDOMException.hpp>
#include <xalanc/XalanTransformer/XalanTransformer.hpp>
#include <xalanc/XSLT/XSLTInputSource.hpp>
#include <xalanc/XSLT/XSLTResultTarget.hpp>

using namespace xalanc;
using namespace vh;

namespace {

// ---------------------------------------------------------------------------------------------------------------
// shared report page (child -> parent)

enum Outcome
{
    O_NONE = 0, O_SURFACED, O_SWALLOWED_OK, O_SWALLOWED_WRONG, O_SILENT_ERROR, O_TERMINATE, O_SIGNAL, O_ASAN,
    O_FOREIGN, O_DOUBLE, O_LEAK_OUTSIDE, O_GOLDEN, O_NOT_REACHED, O_UNBALANCED, O_TIMEOUT, O_EXIT, O_BASELINE_OK, O_UBSAN, O_COUNT_
};

const char* const kOutcomeName[] = {
    "none", "surfaced", "swallowed-ok", "swallowed-wrong", "silent-error", "terminate", "signal", "asan",
    "foreign-free", "double-free", "leak-outside-manager", "golden-failed", "not-reached", "unbalanced", "timeout", "exit", "baseline-ok", "ubsan" };

bool isViolation(int o)
{
    return !(o == O_SURFACED || o == O_SWALLOWED_OK || o == O_BASELINE_OK);
}

const int MAXBT = 72;

struct Report
{
    volatile int        outcome;
    volatile int        sig;
    volatile int        fired;              // the armed allocation was reached
    volatile int        asanSeen;
    volatile long long  allocs;             // allocations made through the manager under test
    volatile long long  outstanding;        // blocks still live when the transformer was gone
    volatile long long  heapDelta;          // heap bytes not owned by the manager: after - before
    volatile int        nThrow;  void* throwBt[MAXBT];     // stack inside allocate() at the injected throw
    volatile int        nCrash;  void* crashBt[MAXBT];     // stack at terminate / signal / foreign free
    volatile int        nCatch;  void* catchBt[12];        // stack at the LAST catch of a std::bad_alloc after the injected throw
    volatile int        catches;                           // number of such catches (catch + rethrow counts each time)
    char                step[48];           // step in flight
    char                exc[96];            // exception type that reached the caller
    char                msg[600];           // free text
    volatile int        resultLen;
    char                result[24000];      // serialised step results (fault-free run only)
};

Report* g_rep = 0;
volatile int g_recordCatches = 0;     // child: the case body is running
int g_timeoutScale = 1;               // 10 when a timed-out case is re-run alone (DESIGN 2.6)

void setStr(char* dst, size_t cap, const char* s)
{
    size_t n = strlen(s);
    if (n >= cap) n = cap - 1;
    memcpy(dst, s, n);
    dst[n] = 0;
}

// ---------------------------------------------------------------------------------------------------------------
// the memory manager under test

class FailingManager : public xercesc::MemoryManager
{
public:
    long long   m_allocs;
    long long   m_failAt;       // 0 = never
    bool        m_fired;
    long        m_foreign, m_double, m_nullFree;
    size_t      m_liveBytes;
    std::unordered_map<void*, size_t>   m_live;
    std::unordered_set<void*>           m_freed;    // handed out once, freed, not handed out again since

    explicit FailingManager(long long failAt = 0) :
        m_allocs(0), m_failAt(failAt), m_fired(false), m_foreign(0), m_double(0), m_nullFree(0), m_liveBytes(0)
    {
        m_live.reserve(4096);
        m_freed.reserve(4096);
    }

    ~FailingManager()
    {
        // "discard the manager": everything still outstanding is reclaimed here
        for (std::unordered_map<void*, size_t>::iterator i = m_live.begin(); i != m_live.end(); ++i) free(i->first);
    }

    virtual void* allocate(XMLSize_t size)
    {
        ++m_allocs;
        if (m_allocs == m_failAt)
        {
            m_fired = true;
            if (g_rep != 0)
            {
                g_rep->fired = 1;
                g_rep->nThrow = backtrace(g_rep->throwBt, MAXBT);
            }
            throw std::bad_alloc();
        }
        void* const p = malloc(size == 0 ? 1 : size);
        if (p == 0) { fprintf(stderr, "c19: real malloc failure\n"); _exit(97); }
        m_freed.erase(p);
        m_live[p] = size;
        m_liveBytes += size;
        return p;
    }

    virtual void deallocate(void* p)
    {
        if (p == 0) { ++m_nullFree; return; }
        std::unordered_map<void*, size_t>::iterator i = m_live.find(p);
        if (i != m_live.end())
        {
            m_liveBytes -= i->second;
            m_live.erase(i);
            m_freed.insert(p);
            free(p);
            return;
        }
        const bool dbl = m_freed.count(p) != 0;
        if (dbl) ++m_double; else ++m_foreign;
        if (g_rep != 0 && g_rep->nCrash == 0)
        {
            g_rep->nCrash = backtrace(g_rep->crashBt, MAXBT);
            snprintf(g_rep->msg, sizeof g_rep->msg, "%s of %p handed to deallocate()", dbl ? "second free" : "pointer not owned by this manager", p);
        }
        // not freed: the block is not ours
    }

    virtual xercesc::MemoryManager* getExceptionMemoryManager() { return this; }
};

// ---------------------------------------------------------------------------------------------------------------
// harness-side I/O that does not allocate inside the measured window

struct FixedBuf : public std::streambuf
{
    char    buf[4096];
    FixedBuf() { setp(buf, buf + sizeof buf); }
    virtual int_type overflow(int_type c) { return c; }    // discard beyond the buffer
    std::string text() const { return std::string(pbase(), pptr()); }
    void clear() { setp(buf, buf + sizeof buf); }
};

struct StringSink
{
    std::string* out;
    static CallbackSizeType write(const char* p, CallbackSizeType n, void* h)
    {
        std::string& o = *static_cast<StringSink*>(h)->out;
        if (o.size() + n <= o.capacity()) o.append(p, n);       // capacity is reserved up front; never reallocate
        return n;
    }
    static void flush(void*) {}
};

struct Step
{
    char        name[40];
    int         rc;
    std::string err;
    std::string out;
};

struct Rec
{
    enum { MAXSTEPS = 24 };
    Step    steps[MAXSTEPS];
    int     n;
    Rec() : n(0)
    {
        for (int i = 0; i < MAXSTEPS; ++i) { steps[i].err.reserve(1500); steps[i].out.reserve(6000); steps[i].rc = 0; steps[i].name[0] = 0; }
    }
    Step& begin(const char* prefix, const char* name)
    {
        if (n >= MAXSTEPS) { fprintf(stderr, "c19: too many steps\n"); _exit(98); }
        Step& s = steps[n++];
        snprintf(s.name, sizeof s.name, "%s%s", prefix, name);
        s.rc = 0;
        if (g_rep != 0) setStr(g_rep->step, sizeof g_rep->step, s.name);
        return s;
    }
    std::string serialise() const
    {
        std::string o;
        for (int i = 0; i < n; ++i)
            o += escField(steps[i].name) + "\t" + std::to_string(steps[i].rc) + "\t" + escField(steps[i].err) + "\t" + escField(steps[i].out) + "\n";
        return o;
    }
};

struct RefStep { std::string name; int rc; std::string err, out; };

std::vector<RefStep> parseRef(const std::string& s)
{
    std::vector<RefStep> v;
    size_t p = 0;
    while (p < s.size())
    {
        size_t q = s.find('\n', p);
        if (q == std::string::npos) q = s.size();
        std::vector<std::string> f = splitTabs(s.substr(p, q - p));
        if (f.size() >= 4) { RefStep r; r.name = f[0]; r.rc = atoi(f[1].c_str()); r.err = f[2]; r.out = f[3]; v.push_back(r); }
        p = q + 1;
    }
    return v;
}

struct MemResolver : public xercesc::EntityResolver
{
    virtual xercesc::InputSource* resolveEntity(const XMLCh* const, const XMLCh* const systemId);
};

// ---------------------------------------------------------------------------------------------------------------
// inputs

#define XSL_HEAD "<xsl:stylesheet version=\"1.0\" xmlns:xsl=\"http://www.w3.org/1999/XSL/Transform\""
#define XSL_OUT  "<xsl:output method=\"xml\" omit-xml-declaration=\"yes\"/>"

const char* const DOC =
    "<?xml version=\"1.0\"?>\n"
    "<doc><item id=\"a\" g=\"x\">3</item><item id=\"b\" g=\"y\">1</item><item id=\"c\" g=\"x\">2</item>"
    "<sub><item id=\"d\" g=\"y\">10</item></sub><!--c--><?pi v?></doc>";

const char* const DOC_BAD = "<?xml version=\"1.0\"?>\n<doc><item id=\"a\">3</item><open></doc>";

const char* const EXT_XML = "<ext><v>from-ext</v><v>second</v></ext>";

const char* const EXT_XSL =
    XSL_HEAD ">"
    "<xsl:template name=\"imported\"><imp><xsl:value-of select=\"count(//item)\"/></imp></xsl:template>"
    "<xsl:template match=\"item\"><low/></xsl:template>"
    "</xsl:stylesheet>";

const char* const XSL_KEY =
    XSL_HEAD ">" XSL_OUT
    "<xsl:key name=\"k\" match=\"item\" use=\"@g\"/>"
    "<xsl:template match=\"/\"><out><xsl:for-each select=\"key('k','x')\"><i><xsl:value-of select=\"@id\"/></i></xsl:for-each>"
    "<n><xsl:value-of select=\"count(key('k','y'))\"/></n></out></xsl:template>"
    "</xsl:stylesheet>";

const char* const XSL_KEYSORT =    // the design-round scenario: key + sort, stream to stream
    XSL_HEAD ">" XSL_OUT
    "<xsl:key name=\"k\" match=\"item\" use=\"@g\"/>"
    "<xsl:template match=\"/\"><out><xsl:for-each select=\"key('k','x') | key('k','y')\"><xsl:sort select=\".\" data-type=\"number\" order=\"descending\"/>"
    "<i g=\"{@g}\"><xsl:value-of select=\".\"/></i></xsl:for-each></out></xsl:template>"
    "</xsl:stylesheet>";

const char* const XSL_NUMBER =
    XSL_HEAD ">" XSL_OUT
    "<xsl:template match=\"/\"><out><xsl:apply-templates select=\"//item\"/></out></xsl:template>"
    "<xsl:template match=\"item\"><n><xsl:number level=\"any\" count=\"item\" format=\"i.\"/><xsl:number level=\"multiple\" count=\"item|sub\" format=\"1.a\"/></n></xsl:template>"
    "</xsl:stylesheet>";

const char* const XSL_SORT =
    XSL_HEAD ">" XSL_OUT
    "<xsl:template match=\"/\"><out><xsl:for-each select=\"//item\"><xsl:sort select=\"@g\" order=\"descending\"/><xsl:sort select=\".\" data-type=\"number\"/>"
    "<i><xsl:value-of select=\"@id\"/></i></xsl:for-each></out></xsl:template>"
    "</xsl:stylesheet>";

const char* const XSL_FORMAT =
    XSL_HEAD ">" XSL_OUT
    "<xsl:decimal-format name=\"eu\" decimal-separator=\",\" grouping-separator=\".\"/>"
    "<xsl:template match=\"/\"><out><a><xsl:value-of select=\"format-number(sum(//item) * 1234.5, '#.##0,00', 'eu')\"/></a>"
    "<b><xsl:value-of select=\"format-number(0.256, '0.0%')\"/></b></out></xsl:template>"
    "</xsl:stylesheet>";

const char* const XSL_ATTRSETS =
    XSL_HEAD ">" XSL_OUT
    "<xsl:attribute-set name=\"base\"><xsl:attribute name=\"x\">1</xsl:attribute></xsl:attribute-set>"
    "<xsl:attribute-set name=\"s\" use-attribute-sets=\"base\"><xsl:attribute name=\"y\"><xsl:value-of select=\"count(//item)\"/></xsl:attribute></xsl:attribute-set>"
    "<xsl:template match=\"/\"><out xsl:use-attribute-sets=\"s\"><xsl:element name=\"e\" use-attribute-sets=\"s\"/>"
    "<xsl:for-each select=\"doc/item[1]\"><xsl:copy use-attribute-sets=\"base\"/></xsl:for-each></out></xsl:template>"
    "</xsl:stylesheet>";

const char* const XSL_RTF =
    XSL_HEAD " xmlns:xalan=\"http://xml.apache.org/xalan\" exclude-result-prefixes=\"xalan\">" XSL_OUT
    "<xsl:template match=\"/\"><xsl:variable name=\"t\"><r><xsl:for-each select=\"//item\"><c v=\"{.}\"/></xsl:for-each></r><r2/></xsl:variable>"
    "<out><xsl:value-of select=\"count(xalan:nodeset($t)/r/c)\"/><xsl:copy-of select=\"xalan:nodeset($t)/r/c[2]\"/><xsl:copy-of select=\"$t\"/></out></xsl:template>"
    "</xsl:stylesheet>";

const char* const XSL_DOCUMENT =
    XSL_HEAD ">" XSL_OUT
    "<xsl:template match=\"/\"><out><xsl:for-each select=\"document('ext.xml')/ext/v\"><v><xsl:value-of select=\".\"/></v></xsl:for-each>"
    "<xsl:value-of select=\"count(document('ext.xml')//v | document('')//xsl:template)\"/></out></xsl:template>"
    "</xsl:stylesheet>";

const char* const XSL_MESSAGE =
    XSL_HEAD ">" XSL_OUT
    "<xsl:template match=\"/\"><out><xsl:message>note <xsl:value-of select=\"count(//item)\"/> items</xsl:message>"
    "<xsl:for-each select=\"//item[@g='y']\"><xsl:message><m id=\"{@id}\"/></xsl:message><i/></xsl:for-each></out></xsl:template>"
    "</xsl:stylesheet>";

const char* const XSL_IMPORT =
    XSL_HEAD ">" "<xsl:import href=\"ext.xsl\"/>" XSL_OUT
    "<xsl:template match=\"/\"><out><xsl:call-template name=\"imported\"/><xsl:apply-templates select=\"doc/item[1]\"/></out></xsl:template>"
    "<xsl:template match=\"item[@g='x']\"><hi><xsl:apply-imports/></hi></xsl:template>"
    "</xsl:stylesheet>";

// an imported module that fails: with an XSLT error after some of it has been processed, and with malformed XML
const char* const EXT_BAD_XSL =
    "<xsl:stylesheet version=\"1.0\" xmlns:xsl=\"http://www.w3.org/1999/XSL/Transform\"><xsl:key name=\"ik\" match=\"item\" use=\"@g\"/>"
    "<xsl:template name=\"imported\"><ok/></xsl:template><xsl:template match=\"item\"><xsl:value-of select=\"count(//item) + \"/></xsl:template></xsl:stylesheet>";
const char* const EXT_MALFORMED_XSL =
    "<xsl:stylesheet version=\"1.0\" xmlns:xsl=\"http://www.w3.org/1999/XSL/Transform\"><xsl:template name=\"imported\"><ok></xsl:template></xsl:stylesheet>";

const char* const XSL_IMPORT_BAD =
    XSL_HEAD ">" "<xsl:import href=\"bad.xsl\"/>" XSL_OUT
    "<xsl:template match=\"/\"><out><xsl:call-template name=\"imported\"/></out></xsl:template>"
    "</xsl:stylesheet>";

const char* const XSL_IMPORT_MALFORMED =
    XSL_HEAD ">" "<xsl:import href=\"ext.xsl\"/><xsl:import href=\"mal.xsl\"/>" XSL_OUT
    "<xsl:template match=\"/\"><out><xsl:call-template name=\"imported\"/></out></xsl:template>"
    "</xsl:stylesheet>";

const char* const XSL_HTML =
    XSL_HEAD ">" "<xsl:output method=\"html\" indent=\"yes\"/>"
    "<xsl:template match=\"/\"><html><head><title>t</title></head><body><xsl:for-each select=\"//item\"><p class=\"{@g}\"><xsl:value-of select=\".\"/><br/></p></xsl:for-each>"
    "<xsl:comment>c</xsl:comment><xsl:text disable-output-escaping=\"yes\">&lt;raw&gt;</xsl:text></body></html></xsl:template>"
    "</xsl:stylesheet>";

// no xsl:output: the processor starts with the xml serializer and switches to the html one when it sees <html> (the
// output encoding of the stream is set a second time)
const char* const XSL_HTML_DEFAULT =
    XSL_HEAD ">"
    "<xsl:template match=\"/\"><html><body><xsl:for-each select=\"//item\"><p><xsl:value-of select=\".\"/></p></xsl:for-each></body></html></xsl:template>"
    "</xsl:stylesheet>";

const char* const XSL_TEXT_LATIN1 =
    XSL_HEAD ">" "<xsl:output method=\"text\" encoding=\"ISO-8859-1\"/>"
    "<xsl:template match=\"/\"><xsl:for-each select=\"//item\"><xsl:value-of select=\"@id\"/>=<xsl:value-of select=\".\"/>;</xsl:for-each>&#233;</xsl:template>"
    "</xsl:stylesheet>";

const char* const XSL_XML_UTF16 =
    XSL_HEAD ">" "<xsl:output method=\"xml\" encoding=\"UTF-16\" indent=\"yes\" doctype-system=\"s.dtd\" cdata-section-elements=\"c\"/>"
    "<xsl:template match=\"/\"><out><c>a&lt;b</c><xsl:copy-of select=\"//item[1]\"/>&#8364;</out></xsl:template>"
    "</xsl:stylesheet>";

const char* const XSL_XML_UNKNOWN_ENCODING =
    XSL_HEAD ">" "<xsl:output method=\"xml\" encoding=\"no-such-encoding\"/>"
    "<xsl:template match=\"/\"><out><xsl:value-of select=\"count(//item)\"/></out></xsl:template>"
    "</xsl:stylesheet>";

const char* const XSL_FAIL_TERMINATE =
    XSL_HEAD ">" XSL_OUT
    "<xsl:template match=\"/\"><out><xsl:for-each select=\"//item\"><e><xsl:attribute name=\"a\"><xsl:value-of select=\"@id\"/></xsl:attribute>"
    "<xsl:attribute name=\"b\">v</xsl:attribute><xsl:if test=\"@id='c'\"><xsl:message terminate=\"yes\">stop at <xsl:value-of select=\"@id\"/></xsl:message></xsl:if>"
    "<t/></e></xsl:for-each></out></xsl:template>"
    "</xsl:stylesheet>";

// key() evaluated with the context inside a result tree fragment (a key table is built for the fragment), then the
// transformation is terminated while the fragment is alive
const char* const XSL_FAIL_RTF_KEY =
    XSL_HEAD " xmlns:xalan=\"http://xml.apache.org/xalan\" exclude-result-prefixes=\"xalan\">" XSL_OUT
    "<xsl:key name=\"k\" match=\"c\" use=\"@v\"/>"
    "<xsl:template match=\"/\"><xsl:variable name=\"t\"><r><xsl:for-each select=\"//item\"><c v=\"{@g}\"/></xsl:for-each></r></xsl:variable>"
    "<out><xsl:for-each select=\"xalan:nodeset($t)\"><n><xsl:value-of select=\"count(key('k','x'))\"/></n>"
    "<xsl:message terminate=\"yes\">stop inside the fragment</xsl:message></xsl:for-each></out></xsl:template>"
    "</xsl:stylesheet>";

const char* const XSL_RTF_KEY =
    XSL_HEAD " xmlns:xalan=\"http://xml.apache.org/xalan\" exclude-result-prefixes=\"xalan\">" XSL_OUT
    "<xsl:key name=\"k\" match=\"c\" use=\"@v\"/>"
    "<xsl:template match=\"/\"><xsl:variable name=\"t\"><r><xsl:for-each select=\"//item\"><c v=\"{@g}\"/></xsl:for-each></r></xsl:variable>"
    "<out><xsl:for-each select=\"xalan:nodeset($t)\"><n><xsl:value-of select=\"count(key('k','x'))\"/></n></xsl:for-each>"
    "<m><xsl:value-of select=\"count(key('k','x'))\"/></m></out></xsl:template>"
    "</xsl:stylesheet>";

const char* const XSL_FAIL_KEY =
    XSL_HEAD ">" XSL_OUT
    "<xsl:key name=\"k\" match=\"item\" use=\"@g\"/>"
    "<xsl:template match=\"/\"><out><a><xsl:value-of select=\"count(key('k','x'))\"/></a><xsl:value-of select=\"count(key('nokey','x'))\"/></out></xsl:template>"
    "</xsl:stylesheet>";

const char* const XSL_FAIL_NODESET =
    XSL_HEAD ">" XSL_OUT
    "<xsl:template match=\"/\"><out><xsl:variable name=\"v\" select=\"'s'\"/><a/><xsl:for-each select=\"$v/item\"><i/></xsl:for-each></out></xsl:template>"
    "</xsl:stylesheet>";

const char* const XSL_COMPILE_ERR =     // XPath syntax error + unknown instruction
    XSL_HEAD ">" XSL_OUT
    "<xsl:key name=\"k\" match=\"item\" use=\"@g\"/>"
    "<xsl:template match=\"/\"><out><xsl:value-of select=\"count(//item) + \"/></out></xsl:template>"
    "</xsl:stylesheet>";

const char* const XSL_COMPILE_MALFORMED =
    XSL_HEAD ">" XSL_OUT
    "<xsl:template match=\"/\"><out><open></out></xsl:template>"
    "</xsl:stylesheet>";

const char* const XSL_PARAMS =
    XSL_HEAD ">" XSL_OUT
    "<xsl:param name=\"p1\" select=\"'d1'\"/><xsl:param name=\"p2\" select=\"0\"/><xsl:param name=\"p3\"/><xsl:param name=\"p4\" select=\"'d4'\"/>"
    "<xsl:template match=\"/\"><out p1=\"{$p1}\" p2=\"{$p2 * 2}\" p3=\"{$p3}\" p4=\"{$p4}\"/></xsl:template>"
    "</xsl:stylesheet>";

const char* const GOLDEN_XSL =
    XSL_HEAD ">" XSL_OUT
    "<xsl:key name=\"k\" match=\"item\" use=\"@g\"/>"
    "<xsl:template match=\"/\"><g n=\"{count(//item)}\"><xsl:for-each select=\"key('k','x')\"><xsl:sort select=\".\" data-type=\"number\"/>"
    "<i><xsl:value-of select=\"@id\"/></i></xsl:for-each></g></xsl:template>"
    "</xsl:stylesheet>";

const char* const GOLDEN_OUT = "<g n=\"4\"><i>c</i><i>a</i></g>";

xercesc::InputSource* MemResolver::resolveEntity(const XMLCh* const, const XMLCh* const systemId)
{
    const std::string s = toUtf8(systemId, XalanDOMString::length(systemId));
    const char* text = 0;
    if (s.size() >= 7 && s.compare(s.size() - 7, 7, "ext.xml") == 0) text = EXT_XML;
    else if (s.size() >= 7 && s.compare(s.size() - 7, 7, "ext.xsl") == 0) text = EXT_XSL;
    else if (s.size() >= 7 && s.compare(s.size() - 7, 7, "bad.xsl") == 0) text = EXT_BAD_XSL;
    else if (s.size() >= 7 && s.compare(s.size() - 7, 7, "mal.xsl") == 0) text = EXT_MALFORMED_XSL;
    if (text == 0) return 0;
    // adopted by the parser; if the library loses it on a failure path that is a leak outside the manager
    return new xercesc::MemBufInputSource((const XMLByte*)text, strlen(text), systemId, false);
}

// ---------------------------------------------------------------------------------------------------------------
// scenarios

struct Ctx
{
    XalanTransformer&   t;
    Rec&                rec;
    FixedBuf&           warn;
    const char*         prefix;     // "" / "1:" / "2:" (position inside a pair)
};

void finishStep(Ctx& c, Step& s, int rc)
{
    s.rc = rc;
    const char* e = c.t.getLastError();
    if (rc != 0 && e != 0) s.err.assign(e, std::min(strlen(e), s.err.capacity()));
}

// stream source + stream stylesheet -> callback
int streamTransform(Ctx& c, const char* name, const char* xsl, const char* xml)
{
    Step& s = c.rec.begin(c.prefix, name);
    std::istringstream xslS(xsl), xmlS(xml);
    XSLTInputSource xslIn(&xslS), xmlIn(&xmlS);
    xslIn.setSystemId(dom("file:///vmem/main.xsl").c_str());
    xmlIn.setSystemId(dom("file:///vmem/doc.xml").c_str());
    StringSink sink = { &s.out };
    c.warn.clear();
    const int rc = c.t.transform(xmlIn, xslIn, &sink, StringSink::write, StringSink::flush);
    const std::string w = c.warn.text();
    if (!w.empty() && s.out.size() + w.size() + 8 <= s.out.capacity()) { s.out += "|warn:"; s.out += w; }
    finishStep(c, s, rc);
    return rc;
}

int compile(Ctx& c, const char* name, const char* xsl, const XalanCompiledStylesheet*& cs)
{
    Step& s = c.rec.begin(c.prefix, name);
    std::istringstream xslS(xsl);
    XSLTInputSource xslIn(&xslS);
    xslIn.setSystemId(dom("file:///vmem/main.xsl").c_str());
    c.warn.clear();
    const int rc = c.t.compileStylesheet(xslIn, cs);
    finishStep(c, s, rc);
    return rc;
}

int parse(Ctx& c, const char* name, const char* xml, const XalanParsedSource*& ps, bool xerces)
{
    Step& s = c.rec.begin(c.prefix, name);
    std::istringstream xmlS(xml);
    XSLTInputSource xmlIn(&xmlS);
    xmlIn.setSystemId(dom("file:///vmem/doc.xml").c_str());
    const int rc = c.t.parseSource(xmlIn, ps, xerces);
    finishStep(c, s, rc);
    return rc;
}

int transformParsed(Ctx& c, const char* name, const XalanParsedSource* ps, const XalanCompiledStylesheet* cs)
{
    Step& s = c.rec.begin(c.prefix, name);
    StringSink sink = { &s.out };
    c.warn.clear();
    const int rc = c.t.transform(*ps, cs, &sink, StringSink::write, StringSink::flush);
    finishStep(c, s, rc);
    return rc;
}

void scCtor(Ctx&) {}
void scCompileOk(Ctx& c)        { const XalanCompiledStylesheet* cs = 0; compile(c, "compile", XSL_KEYSORT, cs); }
void scCompileErr(Ctx& c)       { const XalanCompiledStylesheet* cs = 0; compile(c, "compile", XSL_COMPILE_ERR, cs); }
// stylesheet errors raised from inside the constructor of an arena-allocated object (a QName whose prefix is not declared,
// a QName whose local part is not an NCName): the half-built object must not be destroyed again when the arena is reset
const char* const XSL_BAD_QNAME_PREFIX =
    XSL_HEAD ">" XSL_OUT
    "<xsl:template match=\"/\"><out><xsl:apply-templates select=\"//item\" mode=\"m\"/></out></xsl:template>"
    "<xsl:template match=\"item\" mode=\"m\"><xsl:call-template name=\"util:emit\"/></xsl:template>"
    "<xsl:template name=\"util:emit\"><e/></xsl:template>"
    "</xsl:stylesheet>";
const char* const XSL_BAD_QNAME_NCNAME =
    XSL_HEAD ">" XSL_OUT
    "<xsl:template match=\"/\"><out><xsl:apply-templates select=\"//item\" mode=\"2nd-pass\"/></out></xsl:template>"
    "<xsl:template match=\"item\" mode=\"2nd-pass\"><e/></xsl:template>"
    "</xsl:stylesheet>";
void scCompileBadQName(Ctx& c)
{
    const XalanCompiledStylesheet* cs = 0;
    compile(c, "compile", XSL_BAD_QNAME_PREFIX, cs);
    compile(c, "compile2", XSL_BAD_QNAME_NCNAME, cs);
    streamTransform(c, "transform", XSL_KEY, DOC);
}
void scCompileMalformed(Ctx& c) { const XalanCompiledStylesheet* cs = 0; compile(c, "compile", XSL_COMPILE_MALFORMED, cs); }
void scParseNative(Ctx& c)      { const XalanParsedSource* ps = 0; parse(c, "parse", DOC, ps, false); }
void scParseXerces(Ctx& c)      { const XalanParsedSource* ps = 0; parse(c, "parse", DOC, ps, true); }
void scParseErr(Ctx& c)         { const XalanParsedSource* ps = 0; parse(c, "parse", DOC_BAD, ps, false); }
void scParseErrXerces(Ctx& c)   { const XalanParsedSource* ps = 0; parse(c, "parse", DOC_BAD, ps, true); }
void scTrKeySort(Ctx& c)        { streamTransform(c, "transform", XSL_KEYSORT, DOC); }
void scTrKey(Ctx& c)            { streamTransform(c, "transform", XSL_KEY, DOC); }
void scTrNumber(Ctx& c)         { streamTransform(c, "transform", XSL_NUMBER, DOC); }
void scTrSort(Ctx& c)           { streamTransform(c, "transform", XSL_SORT, DOC); }
void scTrFormat(Ctx& c)         { streamTransform(c, "transform", XSL_FORMAT, DOC); }
void scTrAttrSets(Ctx& c)       { streamTransform(c, "transform", XSL_ATTRSETS, DOC); }
void scTrRtf(Ctx& c)            { streamTransform(c, "transform", XSL_RTF, DOC); }
void scTrDocument(Ctx& c)       { streamTransform(c, "transform", XSL_DOCUMENT, DOC); }
void scTrMessage(Ctx& c)        { streamTransform(c, "transform", XSL_MESSAGE, DOC); }
void scTrImport(Ctx& c)         { streamTransform(c, "transform", XSL_IMPORT, DOC); }
void scTrHtml(Ctx& c)           { streamTransform(c, "transform", XSL_HTML, DOC); }
void scTrHtmlDefault(Ctx& c)    { streamTransform(c, "transform", XSL_HTML_DEFAULT, DOC); }
void scTrTextLatin1(Ctx& c)     { streamTransform(c, "transform", XSL_TEXT_LATIN1, DOC); }
void scTrXmlUtf16(Ctx& c)       { streamTransform(c, "transform", XSL_XML_UTF16, DOC); }
void scTrUnknownEncoding(Ctx& c){ streamTransform(c, "transform", XSL_XML_UNKNOWN_ENCODING, DOC); }
void scImportBad(Ctx& c)        { const XalanCompiledStylesheet* cs = 0; compile(c, "compile", XSL_IMPORT_BAD, cs); streamTransform(c, "transform", XSL_KEY, DOC); }
void scImportMalformed(Ctx& c)  { streamTransform(c, "transform", XSL_IMPORT_MALFORMED, DOC); streamTransform(c, "transformAfter", XSL_IMPORT, DOC); }
void scTrSourceErr(Ctx& c)      { streamTransform(c, "transform", XSL_KEY, DOC_BAD); }
void scFailTerminate(Ctx& c)    { streamTransform(c, "transform", XSL_FAIL_TERMINATE, DOC); }
void scFailKey(Ctx& c)          { streamTransform(c, "transform", XSL_FAIL_KEY, DOC); }
void scFailRtfKey(Ctx& c)       { streamTransform(c, "transform", XSL_FAIL_RTF_KEY, DOC); }
void scTrRtfKey(Ctx& c)         { streamTransform(c, "transform", XSL_RTF_KEY, DOC); }
void scFailNodeset(Ctx& c)      { streamTransform(c, "transform", XSL_FAIL_NODESET, DOC); }

void scTrXercesDom(Ctx& c)
{
    const XalanParsedSource* ps = 0;
    const XalanCompiledStylesheet* cs = 0;
    if (parse(c, "parse", DOC, ps, true) != 0) return;
    if (compile(c, "compile", XSL_KEYSORT, cs) == 0) transformParsed(c, "transform", ps, cs);
}

void scReuseTwice(Ctx& c)
{
    const XalanParsedSource* ps = 0;
    const XalanCompiledStylesheet* cs = 0;
    const int rc1 = compile(c, "compile", XSL_KEYSORT, cs);
    const int rc2 = parse(c, "parse", DOC, ps, false);
    if (rc1 == 0 && rc2 == 0)
    {
        transformParsed(c, "transform1", ps, cs);
        transformParsed(c, "transform2", ps, cs);
    }
    if (rc1 == 0) { Step& s = c.rec.begin(c.prefix, "destroyStylesheet"); finishStep(c, s, c.t.destroyStylesheet(cs)); }
    if (rc2 == 0) { Step& s = c.rec.begin(c.prefix, "destroyParsedSource"); finishStep(c, s, c.t.destroyParsedSource(ps)); }
}

void scParams(Ctx& c)
{
    {
        Step& s = c.rec.begin(c.prefix, "setParams");
        c.t.setStylesheetParam("p1", "'hello'");
        c.t.setStylesheetParam("p2", 21.0);
        c.t.setStylesheetParam(XalanDOMString("p3", c.t.getMemoryManager()), XalanDOMString("concat('a','b')", c.t.getMemoryManager()));
        c.t.setStylesheetParam("p1", "'again'");      // overwrite
        s.rc = 0;
    }
    streamTransform(c, "transform", XSL_PARAMS, DOC);
    {
        Step& s = c.rec.begin(c.prefix, "clearParams");
        c.t.clearStylesheetParams();
        s.rc = 0;
    }
    streamTransform(c, "transformAfterClear", XSL_PARAMS, DOC);
}

typedef void (*ScenFn)(Ctx&);

struct Scen { const char* name; ScenFn fn; bool quick; bool pairSubset; };

const Scen kScens[] = {
    { "ctor",               scCtor,             true,  false },
    { "compile_ok",         scCompileOk,        true,  false },
    { "compile_err",        scCompileErr,       true,  true  },
    { "compile_malformed",  scCompileMalformed, false, false },
    { "compile_bad_qname",  scCompileBadQName,  true,  false },
    { "parse_native",       scParseNative,      true,  false },
    { "parse_xerces",       scParseXerces,      false, false },
    { "parse_err",          scParseErr,         true,  false },
    { "parse_err_xerces",   scParseErrXerces,   false, false },
    { "tr_keysort",         scTrKeySort,        true,  true  },
    { "tr_key",             scTrKey,            false, false },
    { "tr_number_any",      scTrNumber,         false, false },
    { "tr_sort",            scTrSort,           false, false },
    { "tr_format_number",   scTrFormat,         false, false },
    { "tr_attrsets",        scTrAttrSets,       false, false },
    { "tr_rtf_nodeset",     scTrRtf,            true,  false },
    { "tr_document",        scTrDocument,       false, false },
    { "tr_message",         scTrMessage,        false, false },
    { "tr_import",          scTrImport,         false, false },
    { "tr_html",            scTrHtml,           false, false },
    { "tr_html_default",    scTrHtmlDefault,    false, false },
    { "tr_text_latin1",     scTrTextLatin1,     false, false },
    { "tr_xml_utf16",       scTrXmlUtf16,       false, false },
    { "tr_unknown_encoding", scTrUnknownEncoding, false, false },
    { "compile_import_err", scImportBad,        false, false },
    { "tr_import_malformed", scImportMalformed, false, false },
    { "tr_source_err",      scTrSourceErr,      false, false },
    { "tr_xerces_dom",      scTrXercesDom,      false, false },
    { "fail_terminate",     scFailTerminate,    true,  true  },
    { "fail_unknown_key",   scFailKey,          false, false },
    { "fail_nonnodeset",    scFailNodeset,      false, false },
    { "fail_rtf_key_terminate", scFailRtfKey,   false, false },
    { "tr_rtf_key",         scTrRtfKey,         false, false },
    { "reuse_twice",        scReuseTwice,       true,  true  },
    { "params",             scParams,           false, true  },
};
const int kNScens = sizeof kScens / sizeof kScens[0];

struct Case
{
    std::string         name;
    std::vector<int>    scens;      // indices into kScens; empty = the init case
    bool                init;
    long long           N;
    std::string         ref;        // serialised fault-free result
    long long           refHeapDelta;
    std::string         refUbsan;   // UBSan report line of the fault-free run, if any (reported once, not per k)
    uint64_t            offset;     // global index of k = 1
    bool                faultFreeOnly;  // quick tier: scenarios outside the quick set still get their fault-free run (balance, crash, UBSan)
    Case() : init(false), N(0), refHeapDelta(0), offset(0), faultFreeOnly(false) {}
};

// ---------------------------------------------------------------------------------------------------------------
// what runs inside a child

// Runs the case on ONE manager and ONE transformer. Exceptions propagate to the caller (as they would to an
// application); the transformer is destroyed by unwinding.
void runCaseBody(const Case& cs, FailingManager& m, Rec& rec, FixedBuf& warnBuf, std::ostream& warnStream, MemResolver& resolver)
{
    if (g_rep != 0) setStr(g_rep->step, sizeof g_rep->step, "construct");
    XalanTransformer t(m);
    t.setWarningStream(&warnStream);
    t.setEntityResolver(&resolver);
    for (size_t i = 0; i < cs.scens.size(); ++i)
    {
        Ctx c = { t, rec, warnBuf, cs.scens.size() == 1 ? "" : (i == 0 ? "1:" : "2:") };
        kScens[cs.scens[i]].fn(c);
    }
    if (g_rep != 0) setStr(g_rep->step, sizeof g_rep->step, "destroy");
    // DEMO-HOOK (scratch copies insert a seeded defect here; nothing in the real harness)
}

bool runGolden(std::string& why)
{
    if (g_rep != 0) setStr(g_rep->step, sizeof g_rep->step, "golden");
    std::string out;
    out.reserve(1024);
    int rc = -99;
    long long outstanding = -1;
    long bad = 0;
    try
    {
        FailingManager m2(0);
        {
            XalanTransformer t(m2);
            t.setWarningStream(0);
            std::istringstream xslS(GOLDEN_XSL), xmlS(DOC);
            XSLTInputSource xslIn(&xslS), xmlIn(&xmlS);
            StringSink sink = { &out };
            rc = t.transform(xmlIn, xslIn, &sink, StringSink::write, StringSink::flush);
            if (rc != 0) why = std::string("rc ") + std::to_string(rc) + ": " + (t.getLastError() ? t.getLastError() : "");
        }
        outstanding = (long long)m2.m_live.size();
        bad = m2.m_foreign + m2.m_double;
    }
    catch (const std::exception& e) { why = std::string("exception ") + e.what(); return false; }
    catch (...) { why = "exception"; return false; }
    if (rc != 0) return false;
    if (out != GOLDEN_OUT) { why = "output '" + out + "'"; return false; }
    if (outstanding != 0) { why = "golden run left " + std::to_string(outstanding) + " blocks outstanding"; return false; }
    if (bad != 0) { why = "golden run saw a foreign/double free"; return false; }
    return true;
}

void childTerminateHandler()
{
    g_rep->outcome = O_TERMINATE;
    g_rep->nCrash = backtrace(g_rep->crashBt, MAXBT);
    _exit(0);
}

void childSignalHandler(int sig)
{
    if (sig == SIGALRM) { g_rep->outcome = O_TIMEOUT; _exit(0); }
    if (sig == SIGABRT && g_rep->asanSeen) { g_rep->outcome = O_ASAN; _exit(0); }
    g_rep->outcome = O_SIGNAL;
    g_rep->sig = sig;
    g_rep->nCrash = backtrace(g_rep->crashBt, MAXBT);
    _exit(0);
}

void installChildHandlers()
{
    std::set_terminate(childTerminateHandler);
    struct sigaction sa;
    memset(&sa, 0, sizeof sa);
    sa.sa_handler = childSignalHandler;
    sa.sa_flags = SA_ONSTACK | SA_NODEFER | SA_RESETHAND;
    sigemptyset(&sa.sa_mask);
    const int sigs[] = { SIGSEGV, SIGBUS, SIGFPE, SIGILL, SIGABRT, SIGALRM };
    for (int s : sigs) sigaction(s, &sa, 0);
}

template <class F>
const char* guarded(F f, char* msg, size_t msgCap)
{
    // returns the name of the exception type that reached the caller, 0 if none
    try { f(); return 0; }
    catch (const std::bad_alloc&) { return "std::bad_alloc"; }
    catch (const xercesc::OutOfMemoryException&) { return "xercesc::OutOfMemoryException"; }
    catch (const XSLException& e) { setStr(msg, msgCap, excText(e).c_str()); return "xalanc::XSLException"; }
    catch (const xercesc::SAXException& e) { setStr(msg, msgCap, toUtf8(e.getMessage(), XalanDOMString::length(e.getMessage())).c_str()); return "xercesc::SAXException"; }
    catch (const xercesc::XMLException& e) { setStr(msg, msgCap, toUtf8(e.getMessage(), XalanDOMString::length(e.getMessage())).c_str()); return "xercesc::XMLException"; }
    catch (const xercesc::DOMException& e) { return "xercesc::DOMException"; }
    catch (const XalanDOMException& e) { return "xalanc::XalanDOMException"; }
    catch (const std::exception& e) { setStr(msg, msgCap, e.what()); return "std::exception"; }
    catch (...) { return "unknown exception"; }
}

// Compares the steps of a fault run (no exception reached the caller) with the fault-free run.
int compareWithRef(const Rec& rec, const std::vector<RefStep>& ref, char* msg, size_t cap)
{
    bool surfaced = false;
    for (int i = 0; i < rec.n; ++i)
    {
        const Step& s = rec.steps[i];
        const RefStep* r = 0;
        for (size_t j = 0; j < ref.size(); ++j) if (ref[j].name == s.name) { r = &ref[j]; break; }
        if (r == 0) continue;       // step not present in the fault-free run: only possible after a surfaced error
        if (s.rc != 0 && s.err.empty())
        {
            snprintf(msg, cap, "step %s: rc %d with empty getLastError()", s.name, s.rc);
            return O_SILENT_ERROR;
        }
        if (s.rc != r->rc || (s.rc != 0 && s.err != r->err)) { surfaced = true; continue; }
        if (s.rc == 0 && s.out != r->out)
        {
            snprintf(msg, cap, "step %s: rc 0 but output differs from the fault-free run: '%.200s' instead of '%.200s'", s.name, s.out.c_str(), r->out.c_str());
            return O_SWALLOWED_WRONG;
        }
    }
    if (surfaced) return O_SURFACED;
    if ((size_t)rec.n != ref.size())
    {
        snprintf(msg, cap, "%d steps instead of %zu without any error status", rec.n, ref.size());
        return O_SWALLOWED_WRONG;
    }
    return O_SWALLOWED_OK;
}

size_t heapNow() { return __sanitizer_get_current_allocated_bytes(); }

// Ordinary case (transformer scenarios). failAt == 0: fault-free reference run.
void childRunCase(const Case& cs, long long failAt)
{
    installChildHandlers();
    alarm(30 * g_timeoutScale);
    Rec* rec = new Rec;
    FixedBuf* warnBuf = new FixedBuf;
    std::ostream* warnStream = new std::ostream(warnBuf);
    MemResolver* resolver = new MemResolver;
    std::vector<RefStep> ref;
    if (failAt != 0) ref = parseRef(cs.ref);
    char excMsg[400]; excMsg[0] = 0;

    long long allocs = 0, outstanding = 0;
    long foreign = 0, dbl = 0;
    bool fired = false;
    const char* exc = 0;
    const size_t h0 = heapNow();
    {
        FailingManager m(failAt);
        g_recordCatches = 1;
        exc = guarded([&]() { runCaseBody(cs, m, *rec, *warnBuf, *warnStream, *resolver); }, excMsg, sizeof excMsg);
        g_recordCatches = 0;
        allocs = m.m_allocs; outstanding = (long long)m.m_live.size(); foreign = m.m_foreign; dbl = m.m_double; fired = m.m_fired;
    }   // manager discarded: whatever was outstanding is reclaimed
    const size_t h1 = heapNow();
    Report& r = *g_rep;
    r.allocs = allocs; r.outstanding = outstanding; r.heapDelta = (long long)h1 - (long long)h0;
    if (exc != 0) { setStr(r.exc, sizeof r.exc, exc); if (excMsg[0]) setStr(r.msg, sizeof r.msg, excMsg); }

    int o;
    if (foreign != 0) o = O_FOREIGN;
    else if (dbl != 0) o = O_DOUBLE;
    else if (failAt == 0)
    {
        if (exc != 0) { o = O_EXIT; snprintf(r.msg, sizeof r.msg, "fault-free run threw %s %s", exc, excMsg); }
        else if (outstanding != 0) { o = O_UNBALANCED; snprintf(r.msg, sizeof r.msg, "%lld block(s) obtained from the manager were not returned by the time the transformer was destroyed", outstanding); }
        else
        {
            o = O_BASELINE_OK;
            const std::string s = rec->serialise();
            if (s.size() >= sizeof r.result) { o = O_EXIT; snprintf(r.msg, sizeof r.msg, "result too large"); }
            else { memcpy(r.result, s.data(), s.size()); r.resultLen = (int)s.size(); }
        }
    }
    else if (!fired) { o = O_NOT_REACHED; snprintf(r.msg, sizeof r.msg, "only %lld allocations, fault-free run made %lld", allocs, cs.N); }
    else if (exc != 0) o = O_SURFACED;
    else o = compareWithRef(*rec, ref, r.msg, sizeof r.msg);

    if (failAt != 0 && !isViolation(o) && r.heapDelta > cs.refHeapDelta)
    {
        o = O_LEAK_OUTSIDE;
        snprintf(r.msg, sizeof r.msg, "%lld heap bytes not owned by the manager stay allocated after the transformer and the manager are gone (fault-free run: %lld)",
                 (long long)r.heapDelta, cs.refHeapDelta);
    }
    if (!isViolation(o))
    {
        std::string why;
        if (!runGolden(why)) { o = O_GOLDEN; setStr(r.msg, sizeof r.msg, why.c_str()); }
    }
    // diagnostics for replay: with ASAN_OPTIONS=detect_leaks=1 LeakSanitizer names the allocation site of the leaked block
    if (o == O_LEAK_OUTSIDE && getenv("C19_LSAN")) __lsan_do_recoverable_leak_check();
    r.outcome = o;
    _exit(0);
}

// The init case: XalanTransformer::initialize(manager) ... terminate(), forked before the process-wide initialize().
void childRunInit(const Case& cs, long long failAt)
{
    installChildHandlers();
    alarm(60 * g_timeoutScale);
    char excMsg[400]; excMsg[0] = 0;
    Report& r = *g_rep;
    long long allocs = 0, outstanding = 0;
    long foreign = 0, dbl = 0;
    bool fired = false, goldenOk = false;
    std::string why;
    const char* exc = 0;
    // The initialisation manager is deliberately NOT discarded before the process ends: whatever a failed
    // initialize() leaves in static storage keeps pointing at live blocks, so a use-after-free seen later is the
    // library's own (freed by its roll-back, still referenced), not an artefact of discarding.
    FailingManager& m = *new FailingManager(failAt);
    {
        setStr(r.step, sizeof r.step, "initialize");
        g_recordCatches = 1;
        exc = guarded([&]() { XalanTransformer::initialize(m); }, excMsg, sizeof excMsg);
        g_recordCatches = 0;
        if (exc == 0)
        {
            goldenOk = runGolden(why);
            setStr(r.step, sizeof r.step, "terminate");
            const char* exc2 = guarded([&]() { XalanTransformer::terminate(); }, excMsg, sizeof excMsg);
            if (exc2 != 0) exc = exc2;
        }
        allocs = m.m_allocs; outstanding = (long long)m.m_live.size(); foreign = m.m_foreign; dbl = m.m_double; fired = m.m_fired;
    }
    if (exc != 0)
    {
        // rolled back? a second initialisation (default manager) must work
        setStr(r.step, sizeof r.step, "re-initialize");
        const char* exc3 = guarded([&]() { XalanTransformer::initialize(); }, excMsg, sizeof excMsg);
        if (exc3 != 0) { goldenOk = false; why = std::string("initialize() after the failed one threw ") + exc3; }
        else
        {
            goldenOk = runGolden(why);
            XalanTransformer::terminate();
        }
    }
    r.allocs = allocs; r.outstanding = outstanding; r.heapDelta = 0;
    if (exc != 0) setStr(r.exc, sizeof r.exc, exc);
    int o;
    if (foreign != 0) o = O_FOREIGN;
    else if (dbl != 0) o = O_DOUBLE;
    else if (failAt == 0)
    {
        if (exc != 0) { o = O_EXIT; snprintf(r.msg, sizeof r.msg, "fault-free run threw %s %s", exc, excMsg); }
        else if (outstanding != 0) { o = O_UNBALANCED; snprintf(r.msg, sizeof r.msg, "%lld block(s) of the initialisation manager outstanding after terminate()", outstanding); }
        else o = O_BASELINE_OK;
    }
    else if (!fired) { o = O_NOT_REACHED; snprintf(r.msg, sizeof r.msg, "only %lld allocations, fault-free run made %lld", allocs, cs.N); }
    else if (exc != 0) o = O_SURFACED;
    else o = O_SWALLOWED_OK;
    if (!isViolation(o) && !goldenOk) { o = O_GOLDEN; setStr(r.msg, sizeof r.msg, why.c_str()); }
    r.outcome = o;
    _exit(0);
}

// ---------------------------------------------------------------------------------------------------------------
// parent side: fork one run, collect the report

struct RunResult
{
    int                 outcome;
    int                 sig;
    bool                fired;
    long long           allocs, outstanding, heapDelta;
    std::vector<void*>  throwBt, crashBt, catchBt;
    int                 catches;
    std::string         step, exc, msg, stderrText, result;
    std::string outcomeName() const
    {
        if (outcome == O_SIGNAL) return "signal " + std::to_string(sig);
        if (outcome == O_EXIT) return "exit";
        return kOutcomeName[outcome];
    }
};

std::string ubsanLine(const std::string& err);

int g_errFd = -1;   // per-process scratch file receiving the children's stderr

RunResult forkRun(const Case& cs, long long failAt)
{
    memset((void*)g_rep, 0, sizeof(Report));
    if (g_errFd >= 0) { if (ftruncate(g_errFd, 0) != 0) {} lseek(g_errFd, 0, SEEK_SET); }
    fflush(stdout);
    fflush(stderr);
    const pid_t pid = fork();
    if (pid == 0)
    {
        if (g_errFd >= 0) dup2(g_errFd, 2);
        if (cs.init) childRunInit(cs, failAt); else childRunCase(cs, failAt);
        _exit(0);
    }
    int st = 0;
    waitpid(pid, &st, 0);
    RunResult rr;
    rr.outcome = g_rep->outcome; rr.sig = g_rep->sig; rr.fired = g_rep->fired != 0;
    rr.allocs = g_rep->allocs; rr.outstanding = g_rep->outstanding; rr.heapDelta = g_rep->heapDelta;
    rr.throwBt.assign(g_rep->throwBt, g_rep->throwBt + std::min<int>((int)g_rep->nThrow, MAXBT));
    rr.crashBt.assign(g_rep->crashBt, g_rep->crashBt + std::min<int>((int)g_rep->nCrash, MAXBT));
    rr.catchBt.assign(g_rep->catchBt, g_rep->catchBt + std::min<int>((int)g_rep->nCatch, 12));
    rr.catches = g_rep->catches;
    g_rep->step[sizeof g_rep->step - 1] = 0; g_rep->exc[sizeof g_rep->exc - 1] = 0; g_rep->msg[sizeof g_rep->msg - 1] = 0;
    rr.step = g_rep->step; rr.exc = g_rep->exc; rr.msg = g_rep->msg;
    if (g_rep->resultLen > 0) rr.result.assign(g_rep->result, g_rep->resultLen);
    if (rr.outcome == O_NONE)
    {
        // the child ended without writing a verdict
        if (WIFSIGNALED(st)) { rr.outcome = O_SIGNAL; rr.sig = WTERMSIG(st); }
        else { rr.outcome = O_EXIT; rr.msg = "child exit status " + std::to_string(WEXITSTATUS(st)); }
    }
    if (g_errFd >= 0)
    {
        struct stat sb;
        if (fstat(g_errFd, &sb) == 0 && sb.st_size > 0)
        {
            std::string buf((size_t)std::min<off_t>(sb.st_size, 6000), '\0');
            const ssize_t n = pread(g_errFd, &buf[0], buf.size(), 0);
            buf.resize(n > 0 ? (size_t)n : 0);
            rr.stderrText = buf;
        }
    }
    // A UBSan report (recover mode: the run goes on) is a verdict of its own unless the run ended worse. It also takes
    // precedence over leak-outside-manager: printing the report makes the sanitizer runtime keep demangling buffers.
    // A report that the fault-free run of the case prints as well is reported once for the case, not for every k.
    if (failAt != 0 && (rr.outcome == O_LEAK_OUTSIDE || !isViolation(rr.outcome)) && rr.stderrText.find("runtime error:") != std::string::npos)
    {
        const std::string ub = ubsanLine(rr.stderrText);
        if (ub != cs.refUbsan)
        {
            rr.outcome = O_UBSAN;
            rr.msg = ub;
        }
    }
    return rr;
}

// ---------------------------------------------------------------------------------------------------------------
// symbolisation (parent only; children share the parent's address space layout)

struct Frame { std::string fn, loc; };

struct Symboliser
{
    std::map<void*, std::vector<Frame> > cache;     // one address -> inlined frames, innermost first
    std::map<void*, std::string>         module;
    std::map<void*, std::string>         where;                 // module+offset of the looked-up pc
    int                                  mismatches = 0;        // answers != questions: names cannot be trusted

    std::map<std::string, std::string>   objCache;
    int                                  replacedObjects = 0;   // library file replaced on disk while this process runs

    // The file to symbolise against: normally the path dladdr() reports. If that file has been replaced on disk since
    // it was mapped (a concurrent rebuild of the library), the offsets belong to the OLD file, which is still reachable
    // through /proc/<pid>/map_files/<range> while this process lives.
    std::string objectFor(const std::string& fname)
    {
        std::map<std::string, std::string>::iterator it = objCache.find(fname);
        if (it != objCache.end()) return it->second;
        std::string obj = fname;
        char real[4096];
        const std::string want = realpath(fname.c_str(), real) ? std::string(real) : fname;
        FILE* f = fopen("/proc/self/maps", "r");
        if (f != 0)
        {
            char* line = 0; size_t cap = 0;
            while (getline(&line, &cap, f) >= 0)
            {
                unsigned long a = 0, b = 0, off = 0, ino = 0; unsigned dmaj = 0, dmin = 0; char perms[8]; int n = 0;
                if (sscanf(line, "%lx-%lx %7s %lx %x:%x %lu %n", &a, &b, perms, &off, &dmaj, &dmin, &ino, &n) < 7 || off != 0 || ino == 0) continue;
                std::string path(line + n);
                while (!path.empty() && (path.back() == '\n' || path.back() == ' ')) path.pop_back();
                bool deleted = false;
                const std::string del = " (deleted)";
                if (path.size() > del.size() && path.compare(path.size() - del.size(), del.size(), del) == 0) { deleted = true; path.resize(path.size() - del.size()); }
                if (path != fname && path != want) continue;
                struct stat sb;
                if (deleted || stat(path.c_str(), &sb) != 0 || (unsigned long)sb.st_ino != ino)
                {
                    char alt[128];
                    snprintf(alt, sizeof alt, "/proc/%d/map_files/%lx-%lx", (int)getpid(), a, b);
                    obj = alt;
                    ++replacedObjects;
                }
                break;
            }
            free(line);
            fclose(f);
        }
        objCache[fname] = obj;
        return obj;
    }

    static std::string demangle(const char* n)
    {
        int st = 0;
        char* d = abi::__cxa_demangle(n, 0, 0, &st);
        std::string r = (st == 0 && d) ? d : n;
        free(d);
        return r;
    }

    void resolve(const std::set<void*>& addrs)
    {
        std::vector<void*> todo;
        std::string req;
        for (void* a : addrs)
        {
            if (cache.count(a)) continue;
            Dl_info di;
            memset(&di, 0, sizeof di);
            // return addresses: look at the call instruction
            void* const pc = (void*)((uintptr_t)a - 1);
            if (dladdr(pc, &di) == 0 || di.dli_fname == 0) { cache[a] = std::vector<Frame>(1, Frame{ "??", "" }); module[a] = "?"; continue; }
            module[a] = di.dli_fname;
            {
                const char* b = strrchr(di.dli_fname, '/');
                char w[300];
                snprintf(w, sizeof w, "%s+0x%llx", b ? b + 1 : di.dli_fname, (unsigned long long)((uintptr_t)pc - (uintptr_t)di.dli_fbase));
                where[a] = w;
            }
            char line[1200];
            snprintf(line, sizeof line, "\"%s\" 0x%llx\n", objectFor(di.dli_fname).c_str(), (unsigned long long)((uintptr_t)pc - (uintptr_t)di.dli_fbase));
            req += line;
            todo.push_back(a);
            // fallback if the symboliser gives nothing
            cache[a] = std::vector<Frame>(1, Frame{ di.dli_sname ? demangle(di.dli_sname) : std::string("??"), "" });
        }
        if (todo.empty()) return;
        char inName[] = "/tmp/c19-sym-XXXXXX";
        const int fd = mkstemp(inName);
        if (fd < 0) return;
        if (write(fd, req.data(), req.size()) != (ssize_t)req.size()) {}
        close(fd);
        std::string cmd = std::string("ASAN_OPTIONS= llvm-symbolizer --inlines --demangle --functions=linkage < ") + inName + " 2>/dev/null";
        if (getenv("C19_SYMDEBUG")) cmd += std::string(" | tee ") + getenv("C19_SYMDEBUG") + ".out; cp " + inName + " " + getenv("C19_SYMDEBUG") + ".in";
        FILE* p = popen(cmd.c_str(), "r");
        if (p != 0)
        {
            size_t idx = 0;
            std::vector<Frame> cur;
            char* buf = 0;             // demangled template names run to tens of kilobytes: no fixed line buffer
            size_t cap = 0;
            std::string fn;
            bool haveFn = false;
            while (getline(&buf, &cap, p) >= 0)
            {
                std::string l(buf);
                while (!l.empty() && (l.back() == '\n' || l.back() == '\r')) l.pop_back();
                if (l.empty())
                {
                    if (idx < todo.size() && !cur.empty() && cur[0].fn != "??") cache[todo[idx]] = cur;
                    ++idx; cur.clear(); haveFn = false;
                    continue;
                }
                if (!haveFn) { fn = l; haveFn = true; }
                else { cur.push_back(Frame{ fn, l }); haveFn = false; }
            }
            free(buf);
            pclose(p);
            if (idx != todo.size()) { ++mismatches; fprintf(stderr, "c19: symboliser answered %zu of %zu addresses\n", idx, todo.size()); }
        }
        unlink(inName);
    }
};

enum FrameKind { F_LIB, F_HARNESS, F_OTHER };

// "void xalanc_1_12::XalanList<xalanc_1_12::XalanDOMString*>::getListHead() const" -> "XalanList::getListHead"
// kind: by the qualified NAME, not by the module - template instantiations and inline functions of the library exist in
// the harness executable as well and the dynamic linker binds the library's calls to those copies.
std::string shortName(const std::string& full, FrameKind* kind = 0)
{
    std::string s = full;
    // anonymous namespace marker contains parentheses
    for (size_t p; (p = s.find("(anonymous namespace)")) != std::string::npos; ) s.replace(p, 21, "{anon}");
    // strip template arguments, keeping operator< and friends
    std::string t;
    int depth = 0;
    for (size_t i = 0; i < s.size(); ++i)
    {
        if (depth == 0 && s.compare(i, 8, "operator") == 0 && (i + 8 < s.size()) && !isalnum((unsigned char)s[i + 8]) && s[i + 8] != '_')
        {
            t += "operator";
            i += 8;
            if (s[i] == ' ') { /* conversion operator / operator new: keep going normally */ --i; continue; }
            if (s.compare(i, 2, "()") == 0) { t += "()"; i += 1; continue; }
            while (i < s.size() && strchr("<>=!+-*/%&|^~[],", s[i]) != 0) { t += s[i]; ++i; }
            --i;
            continue;
        }
        const char c = s[i];
        if (c == '<') { ++depth; continue; }
        if (c == '>') { if (depth > 0) --depth; continue; }
        if (depth == 0) t += c;
    }
    // cut the parameter list: first '(' that does not belong to "operator()"
    size_t cut = std::string::npos;
    for (size_t i = 0; i < t.size(); ++i)
        if (t[i] == '(' && !(i >= 8 && t.compare(i - 8, 10, "operator()") == 0)) { cut = i; break; }
    if (cut != std::string::npos) t = t.substr(0, cut);
    while (!t.empty() && t.back() == ' ') t.pop_back();
    // drop a return type: keep the last token, but keep "operator new" / conversion operators together
    size_t op = t.find("operator ");
    size_t sp = t.rfind(' ', op == std::string::npos ? std::string::npos : (op == 0 ? 0 : op - 1));
    if (op != std::string::npos) { size_t b = t.rfind(' ', op); t = (b == std::string::npos) ? t : t.substr(b + 1); }
    else if (sp != std::string::npos) t = t.substr(sp + 1);
    if (kind != 0)
    {
        if (t.compare(0, 13, "xalanc_1_12::") == 0 || t.compare(0, 14, "xercesc_3_2::") == 0 || t.compare(0, 7, "xalanc_") == 0 || t.compare(0, 8, "xercesc_") == 0) *kind = F_LIB;
        else if (t.compare(0, 8, "{anon}::") == 0 || t == "main") *kind = F_HARNESS;
        else *kind = F_OTHER;
    }
    // drop library namespaces
    const char* const ns[] = { "xalanc_1_12::", "xercesc_3_2::", "xalanc::", "xercesc::" };
    for (const char* n : ns)
        for (size_t p; (p = t.find(n)) != std::string::npos; ) t.erase(p, strlen(n));
    if (t.compare(0, 8, "xalanc_1") == 0 || t.compare(0, 9, "xercesc_3") == 0)
    {
        size_t p = t.find("::");
        if (p != std::string::npos) t = t.substr(p + 2);
    }
    return t.empty() ? full : t;
}

bool isPlumbing(const std::string& n)
{
    static const char* const cls[] = {
        "XalanList::", "XalanVector::", "XalanMap::", "XalanDeque::", "XalanSet::", "XalanAllocator::", "XalanMemMgrAutoPtr::",
        "XalanAllocationGuard::", "XalanDOMString::", "XalanMemMgrs::", "XalanMemoryManager::", "XalanArrayAllocator::",
        "ArenaAllocator::", "ArenaBlock::", "ArenaBlockBase::", "ReusableArenaAllocator::", "ReusableArenaBlock::",
        "XalanListIteratorBase::", "XalanDequeIterator::", "XalanVectorIterator", "MemoryManagedConstructionTraits",
        "ConstructWithMemoryManager", "ConstructWithNoMemoryManager", "ConstructValueWithMemoryManager", "ConstructValueWithNoMemoryManager",
        "XMemory::", "XMLString::", "XMLBuffer::", "BaseRefVectorOf::", "RefVectorOf::", "ValueVectorOf::", "RefHashTableOf::",
        "RefHash2KeysTableOf::", "ValueHashTableOf::", "ArrayJanitor::", "Janitor::", "RefStackOf::", "ValueStackOf::", "NameIdPool::",
        "std::", "__gnu_cxx::" };
    for (const char* c : cls) if (n.compare(0, strlen(c), c) == 0) return true;
    static const char* const fns[] = { "XalanConstruct", "XalanCopyConstruct", "XalanDestroy", "XalanAllocate", "operator new", "operator new[]",
                                       "operator delete", "operator delete[]", "XalanCopyConstructWithMemoryManager", "makeXalanDestroyFunctor" };
    for (const char* f : fns) if (n == f) return true;
    return false;
}

// flat list of (short name, kind) for a stack, innermost first, inlined frames expanded
std::vector<std::pair<std::string, FrameKind> > flatten(Symboliser& sy, const std::vector<void*>& bt, size_t maxAddrs)
{
    std::vector<std::pair<std::string, FrameKind> > v;
    for (size_t i = 0; i < bt.size() && i < maxAddrs; ++i)
    {
        const std::vector<Frame>& fr = sy.cache[bt[i]];
        for (size_t j = 0; j < fr.size(); ++j)
        {
            FrameKind k = F_OTHER;
            const std::string n = shortName(fr[j].fn, &k);
            v.push_back(std::make_pair(n, k));
        }
    }
    return v;
}

const size_t SIG_ADDRS = 16;
const size_t SIG_MAXNAMES = 10;

// throw site: skip the manager's own frames, then plumbing frames + the first non-plumbing frame.
// Frames that are neither library nor harness (libstdc++ algorithms between two library frames) are left out.
std::string throwSiteChain(Symboliser& sy, const std::vector<void*>& bt)
{
    if (bt.empty()) return "no-throw-site";
    std::vector<std::pair<std::string, FrameKind> > v = flatten(sy, bt, SIG_ADDRS);
    size_t i = 0;
    while (i < v.size() && v[i].second != F_LIB) ++i;      // backtrace, FailingManager::allocate
    std::string chain;
    size_t names = 0;
    std::string last;
    for (; i < v.size() && names < SIG_MAXNAMES; ++i)
    {
        if (v[i].second == F_HARNESS) { chain += chain.empty() ? "harness" : "<-harness"; break; }
        if (v[i].second == F_OTHER) continue;
        if (v[i].first == last) continue;           // const/non-const twin, recursion
        last = v[i].first;
        if (!chain.empty()) chain += "<-";
        chain += v[i].first;
        ++names;
        if (!isPlumbing(v[i].first)) break;
    }
    return chain.empty() ? "harness" : chain;
}

// crash site for signals / foreign frees: skip handler + libc frames, then up to 3 library names
std::string crashSiteChain(Symboliser& sy, const std::vector<void*>& bt)
{
    if (bt.empty()) return "no-crash-site";
    std::vector<std::pair<std::string, FrameKind> > v = flatten(sy, bt, SIG_ADDRS);
    size_t i = 0;
    // on top: backtrace, the signal handler and its trampoline (signal) or the manager's deallocate (foreign free)
    while (i < v.size() && (v[i].second == F_OTHER || v[i].first.find("FailingManager") != std::string::npos ||
                            v[i].first.find("childSignalHandler") != std::string::npos)) ++i;
    std::string chain;
    size_t names = 0;
    std::string last;
    for (; i < v.size() && names < 3; ++i)
    {
        if (v[i].second == F_HARNESS) { if (chain.empty()) chain = "harness"; break; }
        if (v[i].second == F_OTHER || v[i].first == last) continue;
        last = v[i].first;
        if (!chain.empty()) chain += "<-";
        chain += v[i].first;
        ++names;
    }
    return chain.empty() ? "outside-library" : chain;
}

// terminate: the frame that called __clang_call_terminate is the noexcept barrier
std::string terminateBarrier(Symboliser& sy, const std::vector<void*>& bt)
{
    std::vector<std::pair<std::string, FrameKind> > v = flatten(sy, bt, 12);
    for (size_t i = 0; i + 1 < v.size(); ++i)
        if (v[i].first.find("__clang_call_terminate") != std::string::npos) return v[i + 1].second == F_HARNESS ? "harness" : v[i + 1].first;
    return "unwinder";       // terminate called by the unwinder itself (no handler found / throw while unwinding)
}

std::string signatureCore(Symboliser& sy, const RunResult& rr);

std::string ubsanLine(const std::string& err)
{
    size_t p = err.find("runtime error:");
    if (p == std::string::npos) return "";
    size_t b = err.rfind('\n', p);
    b = b == std::string::npos ? 0 : b + 1;
    size_t e = err.find('\n', p);
    std::string l = err.substr(b, e == std::string::npos ? std::string::npos : e - b);
    {
        // "/repo/src/.../File.hpp:107:41: runtime error: ..." -> "File.hpp:107: runtime error: ..."
        const size_t re = l.find(": runtime error:");
        const size_t sl = l.rfind('/', re);
        if (sl != std::string::npos && sl < re) l.erase(0, sl + 1);
        const size_t c1 = l.find(':');
        const size_t c2 = c1 == std::string::npos ? c1 : l.find(':', c1 + 1);
        const size_t c3 = c2 == std::string::npos ? c2 : l.find(':', c2 + 1);
        if (c3 != std::string::npos && l.compare(c3, 16, ": runtime error:") == 0) l.erase(c2, c3 - c2);   // drop the column
    }
    // addresses in the message are not stable
    std::string o;
    for (size_t i = 0; i < l.size(); ++i)
    {
        if (l.compare(i, 2, "0x") == 0) { o += "0x?"; i += 2; while (i < l.size() && isxdigit((unsigned char)l[i])) ++i; --i; }
        else o += l[i];
    }
    return o;
}

// the function whose handler caught the injected std::bad_alloc last
std::string catcherName(Symboliser& sy, const std::vector<void*>& bt)
{
    if (bt.empty()) return "nowhere";
    std::vector<std::pair<std::string, FrameKind> > v = flatten(sy, bt, 6);
    for (size_t i = 0; i < v.size(); ++i)
    {
        if (v[i].second == F_OTHER) continue;       // backtrace, __cxa_begin_catch
        return v[i].second == F_HARNESS ? "harness" : v[i].first;
    }
    return "unknown";
}

std::string signatureOf(Symboliser& sy, const RunResult& rr, bool initCase)
{
    const std::string core = signatureCore(sy, rr);
    // init case: the step in flight tells a failure of initialize() itself from one of the re-initialisation after it
    return initCase ? "init[" + rr.step + "]:" + core : core;
}

std::string signatureCore(Symboliser& sy, const RunResult& rr)
{
    const std::string site = throwSiteChain(sy, rr.throwBt);
    switch (rr.outcome)
    {
    case O_SWALLOWED_WRONG:
    case O_SILENT_ERROR:    return rr.outcomeName() + "|caught-in=" + catcherName(sy, rr.catchBt);
    case O_TERMINATE:   return "terminate|" + site + "|in=" + terminateBarrier(sy, rr.crashBt);
    case O_SIGNAL:      return "signal" + std::to_string(rr.sig) + "|at=" + crashSiteChain(sy, rr.crashBt) + "|after-throw-at=" + site;
    case O_ASAN:        return "asan|" + rr.msg + "|after-throw-at=" + site;
    case O_UBSAN:       return "ubsan|" + rr.msg;
    case O_FOREIGN:     return "foreign-free|at=" + crashSiteChain(sy, rr.crashBt);
    case O_DOUBLE:      return "double-free|at=" + crashSiteChain(sy, rr.crashBt);
    default:            return rr.outcomeName() + "|" + site;
    }
}

std::string renderStack(Symboliser& sy, const std::vector<void*>& bt, bool withLoc)
{
    std::string o;
    int n = 0;
    for (size_t i = 0; i < bt.size(); ++i)
    {
        const std::vector<Frame>& fr = sy.cache[bt[i]];
        for (size_t j = 0; j < fr.size(); ++j)
        {
            char head[32];
            snprintf(head, sizeof head, "#%-2d ", n++);
            o += head;
            o += withLoc ? fr[j].fn : shortName(fr[j].fn);
            if (withLoc && !fr[j].loc.empty()) o += "  " + fr[j].loc;
            if (withLoc && j + 1 == fr.size()) o += "  (" + sy.where[bt[i]] + ")";
            if (j + 1 < fr.size()) o += "  [inlined]";
            o += "\n";
        }
    }
    return o;
}

std::string jsonStr(const std::string& s)
{
    std::string o = "\"";
    for (unsigned char c : s)
    {
        if (c == '"' || c == '\\') { o += '\\'; o += (char)c; }
        else if (c == '\n') o += "\\n";
        else if (c == '\t') o += "\\t";
        else if (c < 0x20 || c >= 0x7f) { char b[8]; snprintf(b, sizeof b, "\\u%04x", c); o += b; }
        else o += (char)c;
    }
    return o + "\"";
}

// ---------------------------------------------------------------------------------------------------------------
// case list

std::vector<Case> buildCases(const std::string& tier, bool beforeInit)
{
    std::vector<Case> v;
    const bool quick = tier == "quick";
    if (beforeInit)
    {
        if (!quick) { Case c; c.name = "init"; c.init = true; v.push_back(c); }
        return v;
    }
    for (int i = 0; i < kNScens; ++i)
        { Case c; c.name = kScens[i].name; c.scens.push_back(i); c.faultFreeOnly = quick && !kScens[i].quick; v.push_back(c); }
    if (!quick)
        for (int i = 0; i < kNScens; ++i)
            for (int j = 0; j < kNScens; ++j)
                if (kScens[i].pairSubset && kScens[j].pairSubset)
                { Case c; c.name = std::string(kScens[i].name) + "+" + kScens[j].name; c.scens.push_back(i); c.scens.push_back(j); v.push_back(c); }
    return v;
}

// development aid: C19_ONLY=case[,case...] restricts a run to the named cases (never set by checks/c19.py)
std::vector<Case> filterCases(const std::vector<Case>& in)
{
    const char* only = getenv("C19_ONLY");
    if (only == 0 || *only == 0) return in;
    const std::string list = std::string(",") + only + ",";
    std::vector<Case> v;
    for (const Case& c : in) if (list.find("," + c.name + ",") != std::string::npos) v.push_back(c);
    return v;
}

bool findCase(const std::string& name, Case& out)
{
    if (name == "init") { out = Case(); out.name = name; out.init = true; return true; }
    out = Case();
    out.name = name;
    size_t p = 0;
    for (;;)
    {
        size_t q = name.find('+', p);
        const std::string part = name.substr(p, q == std::string::npos ? std::string::npos : q - p);
        int idx = -1;
        for (int i = 0; i < kNScens; ++i) if (part == kScens[i].name) idx = i;
        if (idx < 0) return false;
        out.scens.push_back(idx);
        if (q == std::string::npos) break;
        p = q + 1;
    }
    return out.scens.size() <= 2;
}

// fault-free run: N, reference result, balance verdict
RunResult baseline(Case& cs)
{
    RunResult rr = forkRun(cs, 0);
    cs.N = rr.allocs;
    cs.ref = rr.result;
    cs.refHeapDelta = rr.heapDelta;
    cs.refUbsan = ubsanLine(rr.stderrText);
    return rr;
}

struct Pending { size_t caseIdx; long long k; RunResult rr; };

struct Engine
{
    vh::Out                 out;
    Symboliser              sy;
    std::vector<Pending>    pend;       // every fault run keeps its throw site until the batch symbolisation
    uint64_t                globalIdx;
    int                     shard, nshards;
    std::vector<Case>       cases;
    std::vector<std::string> sampleLines;

    Engine(int s, int n) : globalIdx(0), shard(s), nshards(n) { out.maxViols = 1000000; }

    void viol(const Case& cs, long long k, const RunResult& rr, const std::string& sig)
    {
        std::string d = "{";
        d += "\"case\":" + jsonStr(cs.name) + ",\"k\":" + std::to_string(k) + ",\"N\":" + std::to_string(cs.N);
        d += ",\"outcome\":" + jsonStr(rr.outcomeName()) + ",\"step\":" + jsonStr(rr.step);
        if (!rr.exc.empty()) d += ",\"exception\":" + jsonStr(rr.exc);
        if (!rr.msg.empty()) d += ",\"message\":" + jsonStr(rr.msg);
        d += ",\"throw_site\":" + jsonStr(renderStack(sy, std::vector<void*>(rr.throwBt.begin(), rr.throwBt.begin() + std::min<size_t>(rr.throwBt.size(), 24)), false));
        if (!rr.catchBt.empty()) d += ",\"bad_alloc_last_caught_in\":" + jsonStr(catcherName(sy, rr.catchBt)) + ",\"bad_alloc_catches\":" + std::to_string(rr.catches);
        if (!rr.crashBt.empty())
            d += ",\"crash_site\":" + jsonStr(renderStack(sy, std::vector<void*>(rr.crashBt.begin(), rr.crashBt.begin() + std::min<size_t>(rr.crashBt.size(), 16)), false));
        if (!rr.stderrText.empty()) d += ",\"stderr\":" + jsonStr(rr.stderrText.substr(0, 1500));
        d += ",\"replay\":" + jsonStr("build/harness/c19 replay " + cs.name + " " + std::to_string(k)) + "}";
        out.viol(sig, d);
    }

    void runCases(std::vector<Case>& cs)
    {
        for (size_t ci = 0; ci < cs.size(); ++ci)
        {
            Case& c = cs[ci];
            RunResult b = baseline(c);
            c.offset = globalIdx;
            cases.push_back(c);
            const size_t caseIdx = cases.size() - 1;
            if (shard == 0)
            {
                out.count("scenarios");
                if (!c.faultFreeOnly) out.count("allocations_total", c.N);
                out.count("N:" + c.name, c.N);
            }
            if (b.outcome == O_BASELINE_OK && !c.refUbsan.empty() && shard == 0)
            {
                // undefined behaviour without any fault: reported once; the sweep goes on
                RunResult u = b;
                u.outcome = O_UBSAN;
                u.msg = c.refUbsan;
                viol(c, 0, u, "fault-free|ubsan|" + c.refUbsan);
                out.count("outcome:fault-free-ubsan");
            }
            if (b.outcome != O_BASELINE_OK)
            {
                // unbalanced / foreign free / crash without any fault: reported once (shard 0); no fault sweep possible
                if (shard == 0)
                {
                    std::set<void*> a(b.crashBt.begin(), b.crashBt.end());
                    sy.resolve(a);
                    std::string sig = "fault-free|" + c.name + "|" + b.outcomeName();
                    if (b.outcome == O_FOREIGN || b.outcome == O_DOUBLE) sig += "|at=" + crashSiteChain(sy, b.crashBt);
                    if (b.outcome == O_UNBALANCED) sig += "|outstanding=" + std::to_string(b.outstanding);
                    viol(c, 0, b, sig);
                    out.count("outcome:fault-free-" + b.outcomeName());
                }
                continue;
            }
            if (c.faultFreeOnly)
            {
                if (shard == 0) out.count("fault_free_only_scenarios");
                continue;
            }
            for (long long k = 1; k <= c.N; ++k, ++globalIdx)
            {
                if ((int)(globalIdx % (uint64_t)nshards) != shard) continue;
                Pending p;
                p.caseIdx = caseIdx; p.k = k;
                p.rr = forkRun(c, k);
                if (isViolation(p.rr.outcome))
                {
                    // DESIGN 2.6: a violating case is re-run alone and only a verdict that reproduces is reported;
                    // a timed-out case is re-run with ten times the limit before it is called a hang.
                    g_timeoutScale = p.rr.outcome == O_TIMEOUT ? 10 : 1;
                    RunResult again = forkRun(c, k);
                    g_timeoutScale = 1;
                    if (again.outcome != p.rr.outcome || again.sig != p.rr.sig)
                    {
                        out.count("unreproduced_verdicts");
                        out.count("unreproduced:" + p.rr.outcomeName() + "->" + again.outcomeName());
                        again.msg = "first run of this case ended as " + p.rr.outcomeName() + ", the re-run alone as reported here. " + again.msg;
                        p.rr = again;
                    }
                }
                // keep memory bounded: only the frames the signature needs, unless violating
                if (!isViolation(p.rr.outcome))
                {
                    if (p.rr.throwBt.size() > 16) p.rr.throwBt.resize(16);
                    p.rr.stderrText.clear(); p.rr.result.clear();
                }
                pend.push_back(p);
            }
        }
    }

    void finish()
    {
        std::set<void*> addrs;
        for (const Pending& p : pend)
        {
            addrs.insert(p.rr.throwBt.begin(), p.rr.throwBt.end());
            addrs.insert(p.rr.crashBt.begin(), p.rr.crashBt.end());
            if (isViolation(p.rr.outcome)) addrs.insert(p.rr.catchBt.begin(), p.rr.catchBt.end());
        }
        sy.resolve(addrs);
        std::set<std::string> seenClass;
        for (const Pending& p : pend)
        {
            const Case& c = cases[p.caseIdx];
            const RunResult& rr = p.rr;
            const std::string site = throwSiteChain(sy, rr.throwBt);
            out.count("evaluations");
            out.count("outcome:" + rr.outcomeName());
            if (rr.fired && rr.outcome != O_SWALLOWED_OK)
            {
                out.count("nontrivial");
                out.count("site:" + site);
            }
            if (rr.outstanding > 0 && !isViolation(rr.outcome)) out.count("left_blocks_to_the_manager");
            if (isViolation(rr.outcome)) viol(c, p.k, rr, signatureOf(sy, rr, c.init));
            // samples: first, middle and last run of this shard, plus the first run of every outcome class
            const size_t idx = (size_t)(&p - &pend[0]);
            const bool firstOfClass = seenClass.insert(rr.outcomeName()).second;
            if (idx == 0 || idx == pend.size() / 2 || idx + 1 == pend.size() || firstOfClass)
                sampleLines.push_back("(" + c.name + ", k=" + std::to_string(p.k) + "/" + std::to_string(c.N) + ", " + rr.outcomeName() +
                                      (rr.exc.empty() ? "" : " " + rr.exc) + ", throw site " + site + ")");
        }
        if (sy.mismatches != 0) out.count("symboliser_mismatch", sy.mismatches);
        if (sy.replacedObjects != 0) out.count("library_replaced_on_disk_during_run", sy.replacedObjects);
        for (auto& kv : out.counts) printf("count\t%s\t%lld\n", escField(kv.first).c_str(), kv.second);
        for (auto& v : out.viols) printf("viol\t%s\t%s\n", escField(v.first).c_str(), escField(v.second).c_str());
        for (auto& s : sampleLines) printf("sample\t%s\n", escField(s).c_str());
        fflush(stdout);
    }
};

void setupShared()
{
    g_rep = (Report*)mmap(0, sizeof(Report), PROT_READ | PROT_WRITE, MAP_SHARED | MAP_ANONYMOUS, -1, 0);
    if (g_rep == MAP_FAILED) { perror("mmap"); exit(3); }
    char name[] = "/tmp/c19-err-XXXXXX";
    g_errFd = mkstemp(name);
    if (g_errFd >= 0) unlink(name);
    // warm up lazily initialised runtime pieces in the parent so that children do not differ
    void* tmp[8];
    backtrace(tmp, 8);
}

// One successful and one failing transformation in the parent, on managers of their own, before any child is forked:
// first-use work (UBSan type cache, lazily built tables, copy-on-write faults) is paid once instead of in every child.
// Nothing of it goes through a manager under test.
void warmUp()
{
    std::string why;
    if (!runGolden(why)) { fprintf(stderr, "c19: golden transformation fails without any fault: %s\n", why.c_str()); exit(4); }
    FailingManager m(0);
    XalanTransformer t(m);
    t.setWarningStream(0);
    std::istringstream xslS(XSL_COMPILE_ERR), xmlS(DOC);
    XSLTInputSource xslIn(&xslS), xmlIn(&xmlS);
    std::string out;
    out.reserve(1024);
    StringSink sink = { &out };
    t.transform(xmlIn, xslIn, &sink, StringSink::write, StringSink::flush);
    const XalanCompiledStylesheet* cs = 0;
    std::istringstream xslS2(XSL_COMPILE_ERR);
    XSLTInputSource xslIn2(&xslS2);
    t.compileStylesheet(xslIn2, cs);
}

int replayMain(const std::string& caseName, long long k)
{
    Case cs;
    if (!findCase(caseName, cs)) { fprintf(stderr, "c19: unknown case %s\n", caseName.c_str()); return 2; }
    setupShared();
    xercesc::XMLPlatformUtils::Initialize();
    if (!cs.init) { XalanTransformer::initialize(); warmUp(); }
    RunResult b = baseline(cs);
    printf("case %s: fault-free run: %s, N=%lld allocations, outstanding=%lld, heap delta outside manager=%lld\n",
           cs.name.c_str(), b.outcomeName().c_str(), cs.N, b.outstanding, b.heapDelta);
    if (!cs.ref.empty()) printf("fault-free result:\n%s", cs.ref.c_str());
    int rcode = 0;
    if (b.outcome != O_BASELINE_OK) { printf("message: %s\n", b.msg.c_str()); rcode = 1; }
    else if (k > 0)
    {
        RunResult rr = forkRun(cs, k);
        Symboliser sy;
        std::set<void*> a(rr.throwBt.begin(), rr.throwBt.end());
        a.insert(rr.crashBt.begin(), rr.crashBt.end());
        a.insert(rr.catchBt.begin(), rr.catchBt.end());
        sy.resolve(a);
        printf("k=%lld: outcome %s%s%s (step in flight: %s; allocations made %lld; blocks left to the manager %lld; heap delta %lld)\n",
               k, rr.outcomeName().c_str(), rr.exc.empty() ? "" : ", exception ", rr.exc.c_str(), rr.step.c_str(), rr.allocs, rr.outstanding, rr.heapDelta);
        if (!rr.msg.empty()) printf("message: %s\n", rr.msg.c_str());
        printf("verdict: %s\n", isViolation(rr.outcome) ? "VIOLATION" : "ok");
        printf("signature: %s\n", isViolation(rr.outcome) ? signatureOf(sy, rr, cs.init).c_str() : (rr.outcomeName() + "|" + throwSiteChain(sy, rr.throwBt)).c_str());
        printf("throw site (stack inside allocate() number %lld):\n%s", k, renderStack(sy, rr.throwBt, true).c_str());
        if (!rr.catchBt.empty()) printf("the injected std::bad_alloc was caught %d time(s), last in: %s\n%s", rr.catches, catcherName(sy, rr.catchBt).c_str(), renderStack(sy, rr.catchBt, true).c_str());
        if (!rr.crashBt.empty()) printf("stack at %s:\n%s", rr.outcomeName().c_str(), renderStack(sy, rr.crashBt, true).c_str());
        if (!rr.stderrText.empty()) printf("stderr of the run:\n%s\n", rr.stderrText.c_str());
        if (isViolation(rr.outcome)) rcode = 1;
    }
    if (!cs.init) XalanTransformer::terminate();
    xercesc::XMLPlatformUtils::Terminate();
    return rcode;
}

} // namespace

// Where did the injected std::bad_alloc stop being a std::bad_alloc? The C++ runtime's __cxa_begin_catch is interposed
// (the executable's definition wins for the library's calls as well): after the armed allocation has thrown, every catch
// whose exception type is std::bad_alloc records its stack; the last one is the handler that did not rethrow it as such -
// the harness' own catch (surfaced), or the library handler that swallowed or converted it.
extern "C" __attribute__((visibility("default"))) void* __cxa_begin_catch(void* exc) noexcept
{
    typedef void* (*Fn)(void*);
    static Fn real = (Fn)dlsym(RTLD_NEXT, "__cxa_begin_catch");
    void* const r = real(exc);
    if (g_recordCatches && g_rep != 0 && g_rep->fired)
    {
        const std::type_info* t = abi::__cxa_current_exception_type();
        if (t != 0 && *t == typeid(std::bad_alloc))
        {
            g_rep->catches = g_rep->catches + 1;
            g_rep->nCatch = backtrace(g_rep->catchBt, 12);
        }
    }
    return r;
}

// AddressSanitizer calls this (weak hook) when it is about to report an error
extern "C" const char* __asan_get_report_description();
extern "C" __attribute__((visibility("default"))) void __asan_on_error()
{
    if (g_rep != 0)
    {
        g_rep->asanSeen = 1;
        const char* d = __asan_get_report_description();
        setStr(g_rep->msg, sizeof g_rep->msg, d ? d : "asan");
    }
}

int main(int argc, char** argv)
{
    const std::string tier = argc > 1 ? argv[1] : "quick";
    if (tier == "replay")
    {
        if (argc < 4) { fprintf(stderr, "usage: c19 replay <case> <k>\n"); return 2; }
        return replayMain(argv[2], atoll(argv[3]));
    }
    if (tier == "list")
    {
        const std::string t = argc > 2 ? argv[2] : "quick";
        setupShared();
        xercesc::XMLPlatformUtils::Initialize();
        std::vector<Case> pre = buildCases(t, true);
        for (Case& c : pre) { RunResult b = baseline(c); printf("%-32s N=%6lld %s heapDelta=%lld\n", c.name.c_str(), c.N, b.outcomeName().c_str(), b.heapDelta); }
        XalanTransformer::initialize();
        warmUp();
        std::vector<Case> cs = buildCases(t, false);
        long long tot = 0;
        for (Case& c : cs) { RunResult b = baseline(c); tot += c.N; printf("%-32s N=%6lld %s heapDelta=%lld %s\n", c.name.c_str(), c.N, b.outcomeName().c_str(), b.heapDelta, b.msg.c_str()); }
        printf("total %lld\n", tot);
        XalanTransformer::terminate();
        xercesc::XMLPlatformUtils::Terminate();
        return 0;
    }
    const int shard = argc > 2 ? atoi(argv[2]) : 0;
    const int nshards = argc > 3 ? atoi(argv[3]) : 1;

    setupShared();
    xercesc::XMLPlatformUtils::Initialize();
    Engine eng(shard, nshards);
    {
        std::vector<Case> pre = filterCases(buildCases(tier, true));     // needs the library NOT yet initialised
        eng.runCases(pre);
    }
    XalanTransformer::initialize();
    warmUp();
    {
        std::vector<Case> cs = filterCases(buildCases(tier, false));
        eng.runCases(cs);
    }
    eng.finish();
    XalanTransformer::terminate();
    xercesc::XMLPlatformUtils::Terminate();
    return 0;
}
