// C04: XML output is well formed and parses back to exactly the result tree.
// Bounded EXHAUSTIVE enumeration (no sampling) of
//   serializer {XalanXMLSerializerFactory product, legacy FormatterToXML} driven directly with SAX events,
//   encoding {UTF-8, UTF-16, ISO-8859-1, US-ASCII, windows-1252, GB18030} x XML version {1.0, 1.1}
//   x item kind {text, attribute value, CDATA section (= cdata on), comment, PI data, element name, attribute name}
//   x character item (35; names: 5 non-ASCII letters) x offset of the item relative to the 512-unit writer buffers
//   (512*m + d, m in {1,2}, d in -8..+8);
//   thorough: x every ordered PAIR of adjacent items (33 x 33) at m = 1, d in -8..+8;
//   and end to end (same trees built by a stylesheet through XalanTransformer) at m = 1, d in -4..+4.
// Every produced byte string is re-parsed by expat and by libxml2 and compared with the event script that was fed in.
// Oracle relaxations (stated): comment / PI data is compared after XML line-end normalisation (no escape exists there);
// a control character inside a CDATA section may be refused with an error instead of splitting the section.
//
// usage: c04 <tier> <shard> <nshards>          (isolate.hpp protocol)
//        c04 replay <encoded case>             (prints bytes, both parsers' verdicts, expected and parsed tree)
// LDLIBS: -lexpat -lxml2
// CXXFLAGS: -I/usr/include/libxml2
#include "common.hpp"
#include "isolate.hpp"

#include <algorithm>
#include <sstream>

#include <expat.h>
#include <libxml/parser.h>
#include <libxml/tree.h>
#include <libxml/xmlerror.h>

#include <xercesc/sax/SAXException.hpp>
#include <xercesc/util/XMLException.hpp>

#include <xalanc/PlatformSupport/AttributeListImpl.hpp>
#include <xalanc/PlatformSupport/XalanOutputStream.hpp>
#include <xalanc/PlatformSupport/XalanOutputStreamPrintWriter.hpp>
#include <xalanc/PlatformSupport/FormatterListener.hpp>
#include <xalanc/XMLSupport/FormatterToXML.hpp>
#include <xalanc/XMLSupport/XalanXMLSerializerFactory.hpp>
#include <xalanc/XSLT/XSLTInputSource.hpp>
#include <xalanc/XSLT/XSLTResultTarget.hpp>
#include <xalanc/XalanTransformer/XalanTransformer.hpp>

using namespace xalanc;
using namespace vh;

typedef std::basic_string<XalanDOMChar> WS;

static WS W(const char* s) { WS w; for (; *s; ++s) w += (XalanDOMChar)(unsigned char)*s; return w; }
static WS WC(unsigned cp)
{
    WS w;
    if (cp >= 0x10000) { cp -= 0x10000; w += (XalanDOMChar)(0xD800 + (cp >> 10)); w += (XalanDOMChar)(0xDC00 + (cp & 0x3FF)); }
    else w += (XalanDOMChar)cp;
    return w;
}
static std::string u8(const WS& w) { return toUtf8(w.data(), w.size()); }   // lone surrogates come out CESU style: never equal to parser output
static std::string hexUnits(const WS& w)
{
    std::string o; char b[8];
    for (size_t i = 0; i < w.size(); ++i) { snprintf(b, sizeof b, "%s%04X", i ? " " : "", (unsigned)w[i]); o += b; }
    return o;
}
static std::string hexBytes(const std::string& s, size_t from, size_t to)
{
    std::string o; char b[4];
    if (to > s.size()) to = s.size();
    for (size_t i = from; i < to; ++i) { snprintf(b, sizeof b, "%02x", (unsigned char)s[i]); o += b; }
    return o;
}

// ------------------------------------------------------------------------------------------------ the finite space
enum Kind { K_TEXT, K_ATTR, K_CDATA, K_COMMENT, K_PI, K_ELNAME, K_ATNAME, K_N };
static const char* const KIND_NAME[K_N] = { "text", "attr", "cdata", "comment", "pi", "elname", "attname" };

struct Item { std::string name; WS s; WS trail; };   // trail: memory that FOLLOWS the span handed to characters()/cdata() (not part of it)
static std::vector<Item> g_items;   // character items; the first g_nBase have no trail
static size_t g_nBase = 0;
static std::vector<Item> g_names;   // non-ASCII letters used in element / attribute names

static std::vector<std::string> g_encs;
static const char* const VERS[2] = { "1.0", "1.1" };
static const int NOFF = 34;          // m in {1,2} x d in -8..+8
static const int NOFF_E2E = 9;       // m = 1, d in -4..+4
static const int NOFF_PAIR = 17;     // m = 1, d in -8..+8

static void addItem(const char* n, const WS& s, const WS& trail = WS()) { Item it; it.name = n; it.s = s; it.trail = trail; g_items.push_back(it); }

static void buildSpace(bool thorough)
{
    addItem("lt", W("<")); addItem("amp", W("&")); addItem("gt", W(">")); addItem("quot", W("\"")); addItem("apos", W("'"));
    addItem("TAB", W("\t")); addItem("CR", W("\r")); addItem("LF", W("\n"));
    addItem("]]>", W("]]>")); addItem("]]", W("]]")); addItem("]", W("]"));
    addItem("--", W("--")); addItem("-", W("-")); addItem("?>", W("?>"));
    addItem("U+0080", WC(0x80)); addItem("U+0085", WC(0x85)); addItem("U+00FF", WC(0xFF)); addItem("U+0100", WC(0x100));
    addItem("U+07FF", WC(0x7FF)); addItem("U+0800", WC(0x800)); addItem("U+2028", WC(0x2028)); addItem("U+FFFD", WC(0xFFFD));
    addItem("U+FFFE", WC(0xFFFE)); addItem("U+FFFF", WC(0xFFFF));
    addItem("U+10000", WC(0x10000)); addItem("U+10FFFF", WC(0x10FFFF));
    { WS h; h += (XalanDOMChar)0xD800; addItem("loneHi", h); WS hA = h + W("A"); addItem("loneHi+A", hA); }
    { WS l; l += (XalanDOMChar)0xDC00; addItem("loneLo", l); }
    addItem("U+0001", WC(1)); addItem("U+0008", WC(8)); addItem("U+007F", WC(0x7F)); addItem("U+009F", WC(0x9F));
    g_nBase = g_items.size();
    // the span ends in ']' / ']]' and the memory behind it happens to continue with "]>" / ">": a serializer that looks
    // ahead without honouring the length it was given sees a "]]>" that is not there
    addItem("]~trail(]>)", W("]"), W("]>")); addItem("]]~trail(>)", W("]]"), W(">"));

    { Item n; n.name = "U+00E9"; n.s = WC(0xE9); g_names.push_back(n); }
    { Item n; n.name = "U+0100"; n.s = WC(0x100); g_names.push_back(n); }
    { Item n; n.name = "U+0436"; n.s = WC(0x436); g_names.push_back(n); }
    { Item n; n.name = "U+3042"; n.s = WC(0x3042); g_names.push_back(n); }
    { Item n; n.name = "U+20000"; n.s = WC(0x20000); g_names.push_back(n); }

    g_encs.push_back("UTF-8"); g_encs.push_back("UTF-16"); g_encs.push_back("ISO-8859-1"); g_encs.push_back("US-ASCII");
    g_encs.push_back("windows-1252");   // reached only through the ICU transcoder of Xerces
    // Shift_JIS was tried and dropped: the ICU converter behind that name (ibm-943) swaps 0x1A/0x1C/0x7F and assigns the
    // unassigned lead bytes differently from the iconv/libxml2 decoder, so the decoding side of the oracle is not sound for it.
    (void)thorough;
    // GB18030: a transcoder-backed encoding that CAN represent supplementary characters, the only way to reach the
    // surrogate-pair branch of XalanOtherEncodingWriter::write(XalanUnicodeChar) (verdict by libxml2/iconv only)
    g_encs.push_back("GB18030");
}

struct Case
{
    bool e2e; int enc, ver, kind, i1, i2, m, d;
    Case() : e2e(false), enc(0), ver(0), kind(0), i1(0), i2(-1), m(1), d(0) {}
};

static bool isNameKind(int k) { return k == K_ELNAME || k == K_ATNAME; }
static const Item& item1(const Case& c) { return isNameKind(c.kind) ? g_names[c.i1] : g_items[c.i1]; }
static WS contentOf(const Case& c) { WS s = item1(c).s; if (c.i2 >= 0) s += g_items[c.i2].s; return s; }
static WS trailOf(const Case& c) { return c.i2 >= 0 ? g_items[c.i2].trail : item1(c).trail; }
static std::string labelOf(const Case& c) { std::string l = item1(c).name; if (c.i2 >= 0) l += "+" + g_items[c.i2].name; return l; }

static std::string encodeCase(const Case& c)
{
    char b[160];
    snprintf(b, sizeof b, "%c:%s:%s:%s:%d:%d:%d:%d", c.e2e ? 'E' : 'S', g_encs[c.enc].c_str(), VERS[c.ver], KIND_NAME[c.kind], c.i1, c.i2, c.m, c.d);
    return b;
}
static bool decodeCase(const std::string& s, Case& c)
{
    std::vector<std::string> f; size_t p = 0;
    for (;;) { size_t q = s.find(':', p); if (q == std::string::npos) { f.push_back(s.substr(p)); break; } f.push_back(s.substr(p, q - p)); p = q + 1; }
    if (f.size() != 8) return false;
    c.e2e = f[0] == "E";
    c.enc = -1; for (size_t i = 0; i < g_encs.size(); ++i) if (g_encs[i] == f[1]) c.enc = (int)i;
    c.ver = f[2] == "1.1" ? 1 : 0;
    c.kind = -1; for (int k = 0; k < K_N; ++k) if (f[3] == KIND_NAME[k]) c.kind = k;
    c.i1 = atoi(f[4].c_str()); c.i2 = atoi(f[5].c_str()); c.m = atoi(f[6].c_str()); c.d = atoi(f[7].c_str());
    return c.enc >= 0 && c.kind >= 0;
}

// ------------------------------------------------------------------------------------------------ XML rules (the trusted part)
static bool scalarSeq(const WS& w, std::vector<unsigned>& cps)
{
    for (size_t i = 0; i < w.size(); ++i)
    {
        unsigned c = w[i];
        if (c >= 0xD800 && c < 0xDC00)
        {
            if (i + 1 < w.size() && w[i + 1] >= 0xDC00 && w[i + 1] < 0xE000) { cps.push_back(0x10000 + ((c - 0xD800) << 10) + (w[i + 1] - 0xDC00)); ++i; }
            else return false;
        }
        else if (c >= 0xDC00 && c < 0xE000) return false;
        else cps.push_back(c);
    }
    return true;
}
static bool isChar10(unsigned c) { return c == 9 || c == 0xA || c == 0xD || (c >= 0x20 && c <= 0xD7FF) || (c >= 0xE000 && c <= 0xFFFD) || (c >= 0x10000 && c <= 0x10FFFF); }
static bool isChar11(unsigned c) { return (c >= 1 && c <= 0xD7FF) || (c >= 0xE000 && c <= 0xFFFD) || (c >= 0x10000 && c <= 0x10FFFF); }
static bool restricted11(unsigned c) { return (c >= 1 && c <= 8) || c == 0xB || c == 0xC || (c >= 0xE && c <= 0x1F) || (c >= 0x7F && c <= 0x84) || (c >= 0x86 && c <= 0x9F); }
// must be written as a character reference to survive a parse (line-end normalisation / 1.1 restricted characters)
static bool needsRef(int ver, unsigned c) { return c == 0xD || (ver == 1 && (restricted11(c) || c == 0x85 || c == 0x2028)); }
static bool isLineEnd(int ver, unsigned c) { return c == 0xD || c == 0xA || (ver == 1 && (c == 0x85 || c == 0x2028)); }
// XML line-end normalisation (2.11): what a parser reports for text that was written without references
static WS normaliseLineEnds(int ver, const WS& s)
{
    WS o;
    for (size_t i = 0; i < s.size(); ++i)
    {
        unsigned c = s[i];
        if (c == 0xD) { if (i + 1 < s.size() && (s[i + 1] == 0xA || (ver == 1 && s[i + 1] == 0x85))) ++i; o += (XalanDOMChar)0xA; }
        else if (ver == 1 && (c == 0x85 || c == 0x2028)) o += (XalanDOMChar)0xA;
        else o += (XalanDOMChar)c;
    }
    return o;
}

static const unsigned CP1252_HI[32] = { 0x20AC, 0, 0x201A, 0x0192, 0x201E, 0x2026, 0x2020, 0x2021, 0x02C6, 0x2030, 0x0160, 0x2039, 0x0152, 0, 0x017D, 0,
                                        0, 0x2018, 0x2019, 0x201C, 0x201D, 0x2022, 0x2013, 0x2014, 0x02DC, 0x2122, 0x0161, 0x203A, 0x0153, 0, 0x017E, 0x0178 };
enum Tri { NO = 0, YES = 1, MAYBE = 2 };
static Tri encodable(const std::string& enc, unsigned c)
{
    if (enc == "UTF-8" || enc == "UTF-16" || enc == "GB18030") return YES;
    if (c < 0x80) return YES;
    if (enc == "US-ASCII") return NO;
    if (enc == "ISO-8859-1") return c <= 0xFF ? YES : NO;
    if (enc == "windows-1252")
    {
        if (c >= 0xA0 && c <= 0xFF) return YES;
        if (c >= 0x80 && c < 0xA0) return MAYBE;     // converter tables differ on the five unassigned bytes
        for (int i = 0; i < 32; ++i) if (CP1252_HI[i] == c) return YES;
        return NO;
    }
    return MAYBE;
}

static Tri representable(const Case& c, const WS& content)
{
    std::vector<unsigned> cps;
    if (!scalarSeq(content, cps)) return NO;
    for (unsigned cp : cps) if (!(c.ver == 1 ? isChar11(cp) : isChar10(cp))) return NO;
    if (c.kind == K_TEXT || c.kind == K_ATTR) return YES;   // references can carry everything else
    if (c.kind == K_CDATA)
    {
        // representable by closing the section around a reference; refusing a control character inside a CDATA section
        // with an error is tolerated as well (MAYBE) - writing it raw is not
        for (unsigned cp : cps) if (needsRef(c.ver, cp)) return MAYBE;
        return YES;
    }
    Tri r = YES;
    for (unsigned cp : cps)
    {
        if (isLineEnd(c.ver, cp)) continue;       // no escape exists in comments / PIs: the expectation is normalised instead
        if (needsRef(c.ver, cp)) return NO;
        Tri e = encodable(g_encs[c.enc], cp);
        if (e == NO) return NO;
        if (e == MAYBE) r = MAYBE;
    }
    if (!c.e2e)
    {
        // driven directly, nobody repairs the terminators; through XSLT the engine inserts a space (XSLT 1.0 7.4, 7.3 recovery)
        if (c.kind == K_COMMENT && (content.find(W("--")) != WS::npos || (!content.empty() && content[content.size() - 1] == '-'))) return NO;
        if (c.kind == K_PI && content.find(W("?>")) != WS::npos) return NO;
    }
    return r;
}

static WS repairComment(const WS& s)
{
    WS o;
    for (size_t i = 0; i < s.size(); ++i) { o += s[i]; if (s[i] == '-' && (i + 1 == s.size() || s[i + 1] == '-')) o += (XalanDOMChar)' '; }
    return o;
}
static WS repairPI(const WS& s)
{
    WS o;
    for (size_t i = 0; i < s.size(); ++i) { o += s[i]; if (s[i] == '?' && i + 1 < s.size() && s[i + 1] == '>') o += (XalanDOMChar)' '; }
    return o;
}

typedef std::vector<std::string> Events;

static Events expectedEvents(const Case& c, const WS& content, size_t pad)
{
    Events e;
    const std::string p(pad, 'x');
    const std::string it = u8(content);
    e.push_back("E:r");
    switch (c.kind)
    {
    case K_TEXT: e.push_back("T:" + p + it); break;
    case K_CDATA:
        if (c.e2e) { if (pad) e.push_back("T:" + p); e.push_back("E:c"); e.push_back("T:" + it); e.push_back("/E"); }
        else e.push_back("T:" + p + it);
        break;
    case K_ATTR: if (pad) e.push_back("T:" + p); e.push_back("E:e"); e.push_back("A:a=" + it); e.push_back("/E"); break;
    // comments and PIs have no escape mechanism: a CR (1.1: NEL, LSEP) in their data cannot survive any XML serialization,
    // the expectation is the line-end-normalised data (stated relaxation of "parses back to exactly")
    case K_COMMENT: if (pad) e.push_back("T:" + p); e.push_back("C:" + u8(normaliseLineEnds(c.ver, c.e2e ? repairComment(content) : content))); break;
    case K_PI: if (pad) e.push_back("T:" + p); e.push_back("P:t|d" + u8(normaliseLineEnds(c.ver, c.e2e ? repairPI(content) : content))); break;
    case K_ELNAME: if (pad) e.push_back("T:" + p); e.push_back("E:" + it + "n"); e.push_back("/E"); break;
    case K_ATNAME: if (pad) e.push_back("T:" + p); e.push_back("E:e"); e.push_back("A:" + it + "n=v"); e.push_back("/E"); break;
    }
    e.push_back("/E");
    return e;
}

// ------------------------------------------------------------------------------------------------ independent parsers
struct Parsed { bool wf; std::string err; Events ev; Parsed() : wf(false) {} };

struct ExpatCtx { Events ev; std::string text; };
static void exFlush(ExpatCtx* c) { if (!c->text.empty()) { c->ev.push_back("T:" + c->text); c->text.clear(); } }
static void XMLCALL exStart(void* u, const XML_Char* name, const XML_Char** atts)
{
    ExpatCtx* c = (ExpatCtx*)u; exFlush(c);
    c->ev.push_back(std::string("E:") + name);
    std::vector<std::string> a;
    for (; atts[0]; atts += 2) a.push_back(std::string("A:") + atts[0] + "=" + atts[1]);
    std::sort(a.begin(), a.end());
    c->ev.insert(c->ev.end(), a.begin(), a.end());
}
static void XMLCALL exEnd(void* u, const XML_Char*) { ExpatCtx* c = (ExpatCtx*)u; exFlush(c); c->ev.push_back("/E"); }
static void XMLCALL exChars(void* u, const XML_Char* s, int n) { ((ExpatCtx*)u)->text.append(s, n); }
static void XMLCALL exComment(void* u, const XML_Char* d) { ExpatCtx* c = (ExpatCtx*)u; exFlush(c); c->ev.push_back(std::string("C:") + d); }
static void XMLCALL exPI(void* u, const XML_Char* t, const XML_Char* d) { ExpatCtx* c = (ExpatCtx*)u; exFlush(c); c->ev.push_back(std::string("P:") + t + "|" + d); }
static int XMLCALL exUnknownEnc(void*, const XML_Char* name, XML_Encoding* info)
{
    if (strcasecmp(name, "windows-1252") != 0) return XML_STATUS_ERROR;
    for (int i = 0; i < 256; ++i) info->map[i] = i;
    for (int i = 0; i < 32; ++i) info->map[0x80 + i] = CP1252_HI[i] ? (int)CP1252_HI[i] : -1;
    info->data = 0; info->convert = 0; info->release = 0;
    return XML_STATUS_OK;
}

static bool expatKnows(const std::string& enc) { return enc != "GB18030"; }   // UTF-8, UTF-16, ISO-8859-1, US-ASCII natively; windows-1252 through exUnknownEnc

static Parsed parseExpat(const std::string& bytes)
{
    Parsed r; ExpatCtx ctx;
    XML_Parser p = XML_ParserCreateNS(0, '\x01');
    XML_SetUserData(p, &ctx);
    XML_SetElementHandler(p, exStart, exEnd);
    XML_SetCharacterDataHandler(p, exChars);
    XML_SetCommentHandler(p, exComment);
    XML_SetProcessingInstructionHandler(p, exPI);
    XML_SetUnknownEncodingHandler(p, exUnknownEnc, 0);
    if (XML_Parse(p, bytes.data(), (int)bytes.size(), 1) == XML_STATUS_OK) { r.wf = true; r.ev.swap(ctx.ev); }
    else
    {
        char b[200];
        snprintf(b, sizeof b, "%s at byte %ld", XML_ErrorString(XML_GetErrorCode(p)), (long)XML_GetCurrentByteIndex(p));
        r.err = b;
    }
    XML_ParserFree(p);
    return r;
}

struct LxCtx { Events ev; std::string text; };
static void lxFlush(LxCtx& c) { if (!c.text.empty()) { c.ev.push_back("T:" + c.text); c.text.clear(); } }
static void lxWalk(xmlDocPtr doc, xmlNodePtr first, LxCtx& c)
{
    for (xmlNodePtr n = first; n != 0; n = n->next)
    {
        switch (n->type)
        {
        case XML_ELEMENT_NODE:
        {
            lxFlush(c);
            std::string q;
            if (n->ns && n->ns->href) { q += (const char*)n->ns->href; q += '\x01'; }
            q += (const char*)n->name;
            c.ev.push_back("E:" + q);
            std::vector<std::string> a;
            for (xmlAttrPtr at = n->properties; at != 0; at = at->next)
            {
                xmlChar* v = xmlNodeListGetString(doc, at->children, 1);
                std::string an;
                if (at->ns && at->ns->href) { an += (const char*)at->ns->href; an += '\x01'; }
                an += (const char*)at->name;
                a.push_back("A:" + an + "=" + (v ? (const char*)v : ""));
                if (v) xmlFree(v);
            }
            std::sort(a.begin(), a.end());
            c.ev.insert(c.ev.end(), a.begin(), a.end());
            lxWalk(doc, n->children, c);
            lxFlush(c);
            c.ev.push_back("/E");
            break;
        }
        case XML_TEXT_NODE:
        case XML_CDATA_SECTION_NODE:
            if (n->content) c.text += (const char*)n->content;
            break;
        case XML_COMMENT_NODE: lxFlush(c); c.ev.push_back(std::string("C:") + (n->content ? (const char*)n->content : "")); break;
        case XML_PI_NODE: lxFlush(c); c.ev.push_back(std::string("P:") + (const char*)n->name + "|" + (n->content ? (const char*)n->content : "")); break;
        case XML_DTD_NODE: break;
        default: lxFlush(c); c.ev.push_back("?node-type-" + std::to_string((int)n->type)); break;
        }
    }
}
static Parsed parseLibxml(const std::string& bytes)
{
    Parsed r;
    xmlResetLastError();
    xmlDocPtr d = xmlReadMemory(bytes.data(), (int)bytes.size(), "c04.xml", 0, XML_PARSE_NONET | XML_PARSE_NOERROR | XML_PARSE_NOWARNING);
    if (d == 0)
    {
        const xmlError* e = xmlGetLastError();
        r.err = e && e->message ? e->message : "parse failed";
        while (!r.err.empty() && (r.err[r.err.size() - 1] == '\n')) r.err.erase(r.err.size() - 1);
        return r;
    }
    LxCtx c; lxWalk(d, d->children, c); lxFlush(c);
    r.wf = true; r.ev.swap(c.ev);
    xmlFreeDoc(d);
    return r;
}

// XML 1.1 semantics the two XML 1.0 parsers do not have, applied to the code units of the output before they see it:
//  * a literal restricted character is not well formed;
//  * literal U+0085 / U+2028 (and CR U+0085) are line ends: a 1.1 parser reports LF;
//  * &#1; .. &#31; are legal references: carried through the 1.0 parsers as private-use placeholders U+E0xx and mapped back.
static bool c0ctl(unsigned v) { return (v >= 1 && v <= 8) || v == 0xB || v == 0xC || (v >= 0xE && v <= 0x1F); }
static bool prescan11(const std::string& in, const std::string& enc, std::string& out, std::string& why)
{
    const bool u16 = enc == "UTF-16";
    std::vector<unsigned> u;
    size_t start = 0;
    if (u16) { if (in.size() >= 2 && (unsigned char)in[0] == 0xFF && (unsigned char)in[1] == 0xFE) start = 2; for (size_t i = start; i + 1 < in.size(); i += 2) u.push_back((unsigned char)in[i] | ((unsigned char)in[i + 1] << 8)); }
    else for (size_t i = 0; i < in.size(); ++i) u.push_back((unsigned char)in[i]);
    std::vector<unsigned> o;
    const bool utf8 = enc == "UTF-8", latin1 = enc == "ISO-8859-1", gb = enc == "GB18030";
    for (size_t i = 0; i < u.size(); ++i)
    {
        unsigned c = u[i];
        if (c0ctl(c) || c == 0x7F) { why = "XML 1.1: literal restricted character"; return false; }
        if ((u16 || latin1) && restricted11(c)) { why = "XML 1.1: literal restricted character"; return false; }
        if (utf8 && c == 0xC2 && i + 1 < u.size() && u[i + 1] >= 0x80 && u[i + 1] <= 0x9F && u[i + 1] != 0x85) { why = "XML 1.1: literal restricted character"; return false; }
        // GB18030: U+0080..U+00A3 are the four-byte sequences 81 30 81 30 ... in order; U+2028 is 81 36 A6 35
        unsigned gbcp = 0;
        if (gb && c == 0x81 && i + 3 < u.size() && u[i + 1] == 0x30 && u[i + 2] >= 0x81 && u[i + 2] <= 0x84 && u[i + 3] >= 0x30 && u[i + 3] <= 0x39)
            gbcp = 0x80 + (u[i + 2] - 0x81) * 10 + (u[i + 3] - 0x30);
        if (gb && c == 0x81 && i + 3 < u.size() && u[i + 1] == 0x36 && u[i + 2] == 0xA6 && u[i + 3] == 0x35) gbcp = 0x2028;
        if (gbcp >= 0x80 && gbcp <= 0x9F && gbcp != 0x85) { why = "XML 1.1: literal restricted character"; return false; }
        if (gb && gbcp == 0 && c >= 0x81 && c <= 0xFE && i + 1 < u.size())
        {
            // any other GB18030 multi-byte sequence is copied as a whole (its trail bytes must not be taken for lead bytes)
            const size_t len = (u[i + 1] >= 0x30 && u[i + 1] <= 0x39) ? 4 : 2;
            for (size_t k = 0; k < len && i + k < u.size(); ++k) o.push_back(u[i + k]);
            i += len - 1; continue;
        }
        // line ends
        bool nel = false; size_t adv = 0;
        if ((u16 || latin1) && c == 0x85) { nel = true; adv = 0; }
        else if (u16 && c == 0x2028) { nel = true; adv = 0; }
        else if (utf8 && c == 0xC2 && i + 1 < u.size() && u[i + 1] == 0x85) { nel = true; adv = 1; }
        else if (utf8 && c == 0xE2 && i + 2 < u.size() && u[i + 1] == 0x80 && u[i + 2] == 0xA8) { nel = true; adv = 2; }
        else if (gbcp == 0x85 || gbcp == 0x2028) { nel = true; adv = 3; }
        if (nel)
        {
            const bool isNel = !((u16 && c == 0x2028) || (utf8 && c == 0xE2) || gbcp == 0x2028);
            if (isNel && !o.empty() && o.back() == 0xD) o.pop_back();   // CR NEL -> LF
            else if (!isNel && !o.empty() && o.back() == 0xD) o.back() = 0xA;   // CR LS -> LF LF (the 1.0 parsers would read CR LF as one)
            o.push_back(0xA); i += adv; continue;
        }
        // character references to C0 controls
        if (c == '&' && i + 2 < u.size() && u[i + 1] == '#')
        {
            size_t j = i + 2; unsigned v = 0; bool hex = false, any = false;
            if (j < u.size() && u[j] == 'x') { hex = true; ++j; }
            for (; j < u.size() && v < 0x200000; ++j)
            {
                unsigned ch = u[j];
                if (ch >= '0' && ch <= '9') v = v * (hex ? 16 : 10) + (ch - '0');
                else if (hex && ch >= 'a' && ch <= 'f') v = v * 16 + (ch - 'a' + 10);
                else if (hex && ch >= 'A' && ch <= 'F') v = v * 16 + (ch - 'A' + 10);
                else break;
                any = true;
            }
            if (any && j < u.size() && u[j] == ';' && c0ctl(v))
            {
                char b[16]; snprintf(b, sizeof b, "&#%u;", 0xE000u + v);
                for (const char* q = b; *q; ++q) o.push_back((unsigned char)*q);
                i = j; continue;
            }
        }
        o.push_back(c);
    }
    out.clear();
    if (u16) { out.append(in, 0, start); for (unsigned c : o) { out += (char)(c & 0xFF); out += (char)(c >> 8); } }
    else for (unsigned c : o) out += (char)c;
    return true;
}
static void unplaceholder(Events& ev)
{
    for (std::string& s : ev)
    {
        std::string o;
        for (size_t i = 0; i < s.size(); ++i)
        {
            if ((unsigned char)s[i] == 0xEE && i + 2 < s.size() && (unsigned char)s[i + 1] == 0x80 && (unsigned char)s[i + 2] >= 0x81 && (unsigned char)s[i + 2] <= 0x9F)
            { o += (char)((unsigned char)s[i + 2] - 0x80); i += 2; }
            else o += s[i];
        }
        s.swap(o);
    }
}

struct Verdict { bool wf; std::string why; Events ev; bool parsersDisagree; std::string expatSays, libxmlSays; Events evExpat, evLibxml; bool usedExpat; };

static std::string evText(const Events& e, size_t maxEach = 60)
{
    std::string o;
    for (size_t i = 0; i < e.size(); ++i)
    {
        std::string s = e[i];
        if (s.size() > maxEach) s = s.substr(0, 12) + "...(" + std::to_string(s.size()) + " bytes)..." + s.substr(s.size() - 40);
        std::string h;
        for (unsigned char ch : s) { if (ch < 0x20 || ch == 0x7F || ch == '\\') { char b[8]; snprintf(b, sizeof b, "\\x%02x", ch); h += b; } else h += (char)ch; }
        o += (i ? " " : "") + ("[" + h + "]");
    }
    return o;
}

static Verdict judgeBytes(const std::string& bytes, const std::string& enc, int ver, bool allowExpat)
{
    Verdict v; v.wf = false; v.parsersDisagree = false; v.usedExpat = allowExpat && expatKnows(enc);
    std::string b = bytes;
    if (ver == 1)
    {
        std::string why;
        if (!prescan11(bytes, enc, b, why)) { v.why = why; v.expatSays = v.libxmlSays = "not run (" + why + ")"; return v; }
    }
    Parsed lx = parseLibxml(b);
    Parsed ex; if (v.usedExpat) ex = parseExpat(b);
    if (ver == 1) { unplaceholder(lx.ev); unplaceholder(ex.ev); }
    v.libxmlSays = lx.wf ? "well-formed" : "NOT well-formed: " + lx.err;
    v.expatSays = !v.usedExpat ? "not run (encoding / 5th-edition name characters unknown to expat)" : (ex.wf ? "well-formed" : "NOT well-formed: " + ex.err);
    v.evExpat = ex.ev; v.evLibxml = lx.ev;
    if (v.usedExpat && (ex.wf != lx.wf || (ex.wf && ex.ev != lx.ev))) v.parsersDisagree = true;
    if (!lx.wf || (v.usedExpat && !ex.wf)) { v.why = !lx.wf ? "libxml2: " + lx.err : "expat: " + ex.err; return v; }
    v.wf = true;
    v.ev = v.usedExpat ? ex.ev : lx.ev;
    return v;
}

// ------------------------------------------------------------------------------------------------ driving the serializers
struct MemStream : public XalanOutputStream
{
    std::string bytes;
    std::vector<size_t> chunkEnds;   // output size after every writeData call = where an upstream buffer was flushed
    MemStream() : XalanOutputStream(XalanMemMgrs::getDefaultXercesMemMgr()) {}
protected:
    virtual void writeData(const char* b, size_type n)
    {
        bytes.append(b, n);
#ifdef C04_CORRUPT_EDGE
        // sensitivity demo (scratch build only): damage the last byte delivered before a buffer edge
        // (only when that byte belongs to the item, not to the 'x' padding, so that the damage depends on the offset)
        if (n >= 400 && bytes.size() >= 2)
        {
            const size_t z = bytes.size();
            const bool padding = bytes[z - 1] == 'x' || (bytes[z - 1] == 0 && bytes[z - 2] == 'x');
            if (!padding) bytes[z - 1] ^= 0x01;
        }
#endif
        chunkEnds.push_back(bytes.size());
    }
    virtual void doFlush() {}
};

struct Run { bool threw; std::string err; std::string bytes; std::vector<size_t> chunkEnds; Run() : threw(false) {} };

static XalanDOMChar g_pad[2048];

static void driveScript(FormatterListener& fl, int kind, const WS& content, const WS& trail, const std::vector<size_t>& padChunks)
{
    MemoryManager& amm = XalanMemMgrs::getDefaultXercesMemMgr();
    AttributeListImpl none(amm);
    const WS r = W("r"), e = W("e"), a = W("a"), cdataT = W("CDATA"), t = W("t"), vv = W("v");
    fl.startDocument();
    fl.startElement(r.c_str(), none);
    for (size_t n : padChunks) fl.characters(g_pad, (FormatterListener::size_type)n);
    switch (kind)
    {
    case K_TEXT: case K_CDATA:
    {
        WS buf = content + trail;           // the span is content.size() units; trail is what lies behind it in memory
        if (kind == K_TEXT) fl.characters(buf.c_str(), (FormatterListener::size_type)content.size());
        else fl.cdata(buf.c_str(), (FormatterListener::size_type)content.size());
        break;
    }
    case K_ATTR: { AttributeListImpl at(amm); at.addAttribute(a.c_str(), cdataT.c_str(), content.c_str()); fl.startElement(e.c_str(), at); fl.endElement(e.c_str()); break; }
    case K_COMMENT: fl.comment(content.c_str()); break;
    case K_PI: { WS d = W("d") + content; fl.processingInstruction(t.c_str(), d.c_str()); break; }
    case K_ELNAME: { WS n = content + W("n"); fl.startElement(n.c_str(), none); fl.endElement(n.c_str()); break; }
    case K_ATNAME: { WS n = content + W("n"); AttributeListImpl at(amm); at.addAttribute(n.c_str(), cdataT.c_str(), vv.c_str()); fl.startElement(e.c_str(), at); fl.endElement(e.c_str()); break; }
    }
    fl.endElement(r.c_str());
    fl.endDocument();
}

enum Ser { FACTORY = 0, LEGACY = 1, E2E = 2 };
static const char* const SER_NAME[3] = { "factory", "legacy", "e2e" };

static Run runDirect(int ser, const std::string& enc, int ver, int kind, const WS& content, const WS& trail, const std::vector<size_t>& padChunks)
{
    Run r;
    MemoryManager& mm = XalanMemMgrs::getDefaultXercesMemMgr();
    MemStream ms;
    try
    {
        XalanOutputStreamPrintWriter pw(ms);
        const XalanDOMString version(VERS[ver], mm), encoding(enc.c_str(), mm), empty(mm);
        if (ser == FACTORY)
        {
            FormatterListener* fl = XalanXMLSerializerFactory::create(mm, pw, version, false, 0, encoding, empty, empty, empty, true, empty);
            struct Del { MemoryManager& m; FormatterListener* p; ~Del() { XalanDestroy(m, p); } } del = { mm, fl };
            driveScript(*fl, kind, content, trail, padChunks);
        }
        else
        {
            FormatterToXML fl(pw, version, false, 0, encoding, empty, empty, empty, true, empty, FormatterListener::OUTPUT_METHOD_XML, true, mm);
            driveScript(fl, kind, content, trail, padChunks);
        }
    }
    catch (const xercesc::SAXException& e) { r.threw = true; r.err = "SAXException: " + toUtf8(e.getMessage(), XalanDOMString::length(e.getMessage())); }
    catch (const XSLException& e) { r.threw = true; r.err = "XSLException: " + excText(e); }
    catch (const xercesc::XMLException& e) { r.threw = true; r.err = "XMLException: " + toUtf8(e.getMessage(), XalanDOMString::length(e.getMessage())); }
    catch (const std::exception& e) { r.threw = true; r.err = std::string("std::exception: ") + e.what(); }
    catch (...) { r.threw = true; r.err = "unknown exception"; }
    r.bytes.swap(ms.bytes); r.chunkEnds.swap(ms.chunkEnds);
    return r;
}

// ---- end to end: the same tree built by a stylesheet, serialized by whatever XSLTEngineImpl sets up
struct StringSink
{
    std::string out; std::vector<size_t> chunkEnds;
    static CallbackSizeType write(const char* p, CallbackSizeType n, void* h) { StringSink* s = (StringSink*)h; s->out.append(p, n); s->chunkEnds.push_back(s->out.size()); return n; }
    static void flush(void*) {}
};

static std::string e2eStylesheet(const std::string& enc, int ver, int kind, const std::vector<size_t>& padChunks)
{
    std::string s = "<xsl:stylesheet version='1.0' xmlns:xsl='http://www.w3.org/1999/XSL/Transform'>"
                    "<xsl:output method='xml' encoding='" + enc + "' version='" + VERS[ver] + "'";
    if (kind == K_CDATA) s += " cdata-section-elements='c'";
    s += "/><xsl:param name='p'/><xsl:template match='/'><r>";
    for (size_t n : padChunks) s += "<xsl:text>" + std::string(n, 'x') + "</xsl:text>";
    switch (kind)
    {
    case K_TEXT: s += "<xsl:value-of select='$p'/>"; break;
    case K_CDATA: s += "<c><xsl:value-of select='$p'/></c>"; break;
    case K_ATTR: s += "<e><xsl:attribute name='a'><xsl:value-of select='$p'/></xsl:attribute></e>"; break;
    case K_COMMENT: s += "<xsl:comment><xsl:value-of select='$p'/></xsl:comment>"; break;
    case K_PI: s += "<xsl:processing-instruction name='t'><xsl:text>d</xsl:text><xsl:value-of select='$p'/></xsl:processing-instruction>"; break;
    case K_ELNAME: s += "<xsl:element name=\"{concat($p,'n')}\"/>"; break;
    case K_ATNAME: s += "<e><xsl:attribute name=\"{concat($p,'n')}\">v</xsl:attribute></e>"; break;
    }
    s += "</r></xsl:template></xsl:stylesheet>";
    return s;
}

static Run runE2E(const std::string& enc, int ver, int kind, const WS& content, const std::vector<size_t>& padChunks, std::string* xslOut = 0)
{
    Run r;
    const std::string xsl = e2eStylesheet(enc, ver, kind, padChunks);
    if (xslOut) *xslOut = xsl;
    MemoryManager& mm = XalanMemMgrs::getDefaultXercesMemMgr();
    XalanTransformer t;
    t.setWarningStream(0); t.setErrorStream(0);
    const XalanDOMChar q = content.find((XalanDOMChar)'\'') == WS::npos ? '\'' : '"';
    WS expr; expr += q; expr += content; expr += q;
    t.setStylesheetParam(XalanDOMString("p", mm), XalanDOMString(expr.data(), mm, (XalanDOMString::size_type)expr.size()));
    std::istringstream xslSrc(xsl), xmlSrc("<s/>");
    XSLTInputSource xslIn(&xslSrc), xmlIn(&xmlSrc);
    xslIn.setSystemId(dom("file:///vmem/c04.xsl").c_str());
    xmlIn.setSystemId(dom("file:///vmem/c04.xml").c_str());
    StringSink sink;
    int rc = -99;
    try { rc = t.transform(xmlIn, xslIn, &sink, StringSink::write, StringSink::flush); }
    catch (...) { r.threw = true; r.err = "exception escaped XalanTransformer::transform"; }
    if (!r.threw && rc != 0) { r.threw = true; r.err = "transform() = " + std::to_string(rc) + ": " + (t.getLastError() ? t.getLastError() : ""); }
    r.bytes.swap(sink.out); r.chunkEnds.swap(sink.chunkEnds);
    return r;
}

// ------------------------------------------------------------------------------------------------ where the item lands
// Probe: the same script with no padding and the plain item "Z" tells how many output bytes precede / follow the item.
struct Probe { bool ok; size_t prefix, suffix; Probe() : ok(false), prefix(0), suffix(0) {} };
static Probe g_probe[3][8][2][K_N];   // [ser][enc][ver][kind]

static size_t unitSize(const std::string& enc) { return enc == "UTF-16" ? 2 : 1; }
static size_t bomSize(const std::string& enc) { return enc == "UTF-16" ? 2 : 0; }

static void doProbe(int ser, int enc, int ver, int kind)
{
    Probe& p = g_probe[ser][enc][ver][kind];
    const WS z = W("Z");
    std::vector<size_t> none;
    Run r = ser == E2E ? runE2E(g_encs[enc], ver, kind, z, none) : runDirect(ser, g_encs[enc], ver, kind, z, WS(), none);
    if (r.threw) { fprintf(stderr, "c04: probe failed (%s %s %s %s): %s\n", SER_NAME[ser], g_encs[enc].c_str(), VERS[ver], KIND_NAME[kind], r.err.c_str()); return; }
    const size_t us = unitSize(g_encs[enc]);
    size_t pos = std::string::npos;
    for (size_t i = bomSize(g_encs[enc]); i + us <= r.bytes.size(); i += us)
        if (r.bytes[i] == 'Z' && (us == 1 || r.bytes[i + 1] == 0)) { pos = i; break; }
    if (pos == std::string::npos) { fprintf(stderr, "c04: probe found no sentinel (%s %s %s %s)\n", SER_NAME[ser], g_encs[enc].c_str(), VERS[ver], KIND_NAME[kind]); return; }
    p.ok = true; p.prefix = pos; p.suffix = r.bytes.size() - pos - us;
}

// padding so that the item starts at unit offset 512*m + d of the document (BOM not counted: it bypasses the writers);
// handed over in chunks that end exactly on a 512 boundary, so that no writer flushes early and offset == buffer position.
static bool planPadding(int ser, const Case& c, size_t& pad, std::vector<size_t>& chunks)
{
    const std::string& enc = g_encs[c.enc];
    const Probe& pk = g_probe[ser][c.enc][c.ver][c.kind];
    const Probe& pt = g_probe[ser][c.enc][c.ver][K_TEXT];
    if (!pk.ok || !pt.ok) return false;
    const size_t us = unitSize(enc), bom = bomSize(enc);
    const long L0 = (long)((pk.prefix - bom) / us);       // units before the item without padding
    const long Ur = (long)((pt.prefix - bom) / us);       // units before the padding
    const long p = 512L * c.m + c.d - L0;
    if (p < 0) return false;
    pad = (size_t)p;
    chunks.clear();
    long left = p, at = Ur;
    while (left > 0)
    {
        long room = 512 - (at % 512);
        long n = left < room ? left : room;
        chunks.push_back((size_t)n);
        left -= n; at += n;
    }
    return true;
}

// ------------------------------------------------------------------------------------------------ one evaluation
static double nowS() { struct timespec t; clock_gettime(CLOCK_MONOTONIC, &t); return t.tv_sec + t.tv_nsec * 1e-9; }
enum Outcome { O_OK, O_ERR_EXPECTED, O_ERR_UNEXPECTED, O_ILLFORMED, O_DIFFTREE, O_HARNESS };
static const char* const OUTCOME_COUNT[] = { "out_ok", "out_error_as_expected", "out_unexpected_error", "out_illformed", "out_different_tree", "out_harness" };

struct Eval
{
    Outcome outcome; std::string kindText;   // kindText: outcome kind as it appears in the signature
    std::string why; Run run; Verdict verdict; Events expected; size_t pad; Tri rep; bool edge, escaped; std::string xsl; double tRun, tJudge;
};

static std::string naiveEncode(const std::string& enc, const WS& w, bool& ok)
{
    ok = true;
    std::vector<unsigned> cps;
    if (!scalarSeq(w, cps)) { ok = false; return ""; }
    if (enc == "UTF-8") return u8(w);
    std::string o;
    if (enc == "UTF-16") { for (XalanDOMChar ch : w) { o += (char)(ch & 0xFF); o += (char)(ch >> 8); } return o; }
    for (unsigned cp : cps)
    {
        if (cp < 0x80 || (enc == "ISO-8859-1" && cp <= 0xFF) || (enc == "windows-1252" && cp >= 0xA0 && cp <= 0xFF)) o += (char)cp;
        else { ok = false; return ""; }
    }
    return o;
}

static Eval evaluate(int ser, const Case& c)
{
    Eval ev; ev.outcome = O_HARNESS; ev.pad = 0; ev.edge = false; ev.escaped = false; ev.tRun = ev.tJudge = 0;
    const std::string& enc = g_encs[c.enc];
    const WS content = contentOf(c), trail = trailOf(c);
    ev.rep = representable(c, content);
    std::vector<size_t> chunks;
    if (!planPadding(ser, c, ev.pad, chunks)) { ev.kindText = "harness-no-probe"; ev.why = "no probe for this configuration"; return ev; }
    ev.expected = expectedEvents(c, content, ev.pad);
    const double t0 = nowS();
    ev.run = ser == E2E ? runE2E(enc, c.ver, c.kind, content, chunks, &ev.xsl) : runDirect(ser, enc, c.ver, c.kind, content, trail, chunks);
    ev.tRun = nowS() - t0;
    const char* unrep = ev.rep == NO ? "/unrep" : "";
    if (ev.run.threw)
    {
        if (ev.rep == YES) { ev.outcome = O_ERR_UNEXPECTED; ev.kindText = "unexpected-error"; ev.why = ev.run.err; }
        else { ev.outcome = O_ERR_EXPECTED; ev.kindText = "error-as-expected"; ev.why = ev.run.err; }
        return ev;
    }
    // measured: does a buffer flush fall on / inside the item's bytes; was the item written other than verbatim
    {
        const Probe& pk = g_probe[ser][c.enc][c.ver][c.kind];
        const size_t b0 = pk.prefix + ev.pad * unitSize(enc);
        const size_t b1 = ev.run.bytes.size() >= pk.suffix ? ev.run.bytes.size() - pk.suffix : ev.run.bytes.size();
        for (size_t e : ev.run.chunkEnds) if (e >= b0 && e <= b1 && e != ev.run.bytes.size()) ev.edge = true;
        bool ok; const std::string naive = naiveEncode(enc, content, ok);
        ev.escaped = !ok || b1 < b0 || ev.run.bytes.compare(b0, b1 - b0, naive) != 0;
    }
    const double t1 = nowS();
    bool supplInName = false;
    if (isNameKind(c.kind)) for (XalanDOMChar ch : content) if (ch >= 0xD800 && ch < 0xE000) supplInName = true;
    ev.verdict = judgeBytes(ev.run.bytes, enc, c.ver, !supplInName);
    ev.tJudge = nowS() - t1;
    if (!ev.verdict.wf) { ev.outcome = O_ILLFORMED; ev.kindText = std::string("illformed") + unrep; ev.why = ev.verdict.why; return ev; }
    bool same = ev.verdict.ev == ev.expected;
    if (same && ev.verdict.usedExpat && ev.verdict.evLibxml != ev.expected) same = false;   // both parsers must give the script's tree
    if (!same)
    {
        ev.outcome = O_DIFFTREE; ev.kindText = std::string("different-tree") + unrep;
        const Events& got = ev.verdict.ev == ev.expected ? ev.verdict.evLibxml : ev.verdict.ev;
        size_t k = 0; while (k < got.size() && k < ev.expected.size() && got[k] == ev.expected[k]) ++k;
        Events ge, ee;
        if (k < got.size()) ge.push_back(got[k]);
        if (k < ev.expected.size()) ee.push_back(ev.expected[k]);
        ev.why = "event " + std::to_string(k) + ": expected " + evText(ee) + " parsed " + evText(ge);
        return ev;
    }
    ev.outcome = O_OK; ev.kindText = "ok";
    return ev;
}

static std::string detailOf(int ser, const Case& c, const Eval& ev)
{
    const std::string& enc = g_encs[c.enc];
    std::string d;
    char b[200];
    snprintf(b, sizeof b, "off=%d:%d noff=%d case=%s ser=%s pad=%zu item=", c.m, c.d, c.e2e ? NOFF_E2E : (c.i2 >= 0 ? NOFF_PAIR : NOFF), encodeCase(c).c_str(), SER_NAME[ser], ev.pad);
    d += b; d += labelOf(c) + " units=[" + hexUnits(contentOf(c)) + "]";
    if (!trailOf(c).empty()) d += " memory-after-span=[" + hexUnits(trailOf(c)) + "]";
    d += std::string(" representable=") + (ev.rep == YES ? "yes" : ev.rep == NO ? "no" : "maybe");
    d += " outcome=" + ev.kindText + " why={" + ev.why + "}";
    if (!ev.run.threw)
    {
        const Probe& pk = g_probe[ser][c.enc][c.ver][c.kind];
        const size_t b0 = pk.prefix + ev.pad * unitSize(enc);
        const size_t from = b0 > 24 ? b0 - 24 : 0;
        d += " bytes(" + std::to_string(ev.run.bytes.size()) + ") head=" + hexBytes(ev.run.bytes, 0, 48) + " at" + std::to_string(from) + "=" + hexBytes(ev.run.bytes, from, from + 140);
        d += " flushes-at=";
        for (size_t i = 0; i < ev.run.chunkEnds.size() && i < 6; ++i) d += (i ? "," : "") + std::to_string(ev.run.chunkEnds[i]);
        d += " expat={" + ev.verdict.expatSays + "} libxml2={" + ev.verdict.libxmlSays + "}";
    }
    return d;
}

// shared with the parent so that a fatal outcome can name the serializer that was running
struct Stage { volatile int ser; };
static Stage* g_stage = 0;

static void account(Out& out, int ser, const Case& c, const Eval& ev)
{
    out.count("evaluations");
    out.count(std::string("evaluations_") + SER_NAME[ser]);
    out.count(OUTCOME_COUNT[ev.outcome]);
    if (ev.edge) out.count("edge_touch");
    if (ev.escaped) out.count("escaped");
    if (ev.edge || ev.escaped) out.count("nontrivial");
    if (!ev.run.threw && ev.verdict.parsersDisagree) out.count("parsers_disagree");
    out.count(std::string("us_serialize_") + SER_NAME[ser], (long long)(ev.tRun * 1e6));
    out.count("us_parse", (long long)(ev.tJudge * 1e6));
}

static std::string sigOf(int ser, const Case& c, const std::string& label, const std::string& kindText)
{
    return std::string(SER_NAME[ser]) + "|" + g_encs[c.enc] + "|" + VERS[c.ver] + "|" + KIND_NAME[c.kind] + "|" + label + "|" + kindText;
}

static bool isViolation(Outcome o) { return o == O_ERR_UNEXPECTED || o == O_ILLFORMED || o == O_DIFFTREE || o == O_HARNESS; }

static void runCase(const Case& c, Out& out, bool wantSample)
{
    Eval evs[2]; int n = 0; int sers[2];
    if (c.e2e) { sers[n++] = E2E; } else { sers[n++] = FACTORY; sers[n++] = LEGACY; }
    for (int k = 0; k < n; ++k)
    {
        g_stage->ser = sers[k];
        evs[k] = evaluate(sers[k], c);
        const Eval& ev = evs[k];
        account(out, sers[k], c, ev);
        flushOut(out, stdout);   // a later fatal outcome in this worker must not lose what was already measured
        if (isViolation(ev.outcome))
        {
            // shrink a pair to the single item that fails the same way on its own (same place, same serializer)
            std::string label = labelOf(c);
            bool renamed = false;
            if (c.i2 >= 0)
            {
                // the two items together may spell another single item (']' ']' = ']]', loneHi loneLo = U+10000 ...)
                const WS both = contentOf(c);
                for (size_t k2 = 0; k2 < g_nBase && !renamed; ++k2) if (g_items[k2].s == both) { label = g_items[k2].name; renamed = true; }
            }
            if (c.i2 >= 0 && !renamed)
            {
                Case a = c; a.i2 = -1;
                Case b = c; b.i1 = c.i2; b.i2 = -1;
                Eval ea = evaluate(sers[k], a);
                if (ea.kindText == ev.kindText) label = labelOf(a);
                else { Eval eb = evaluate(sers[k], b); if (eb.kindText == ev.kindText) label = labelOf(b); }
            }
            out.viol(sigOf(sers[k], c, label, ev.kindText), detailOf(sers[k], c, ev));
        }
    }
    if (n == 2)
    {
        // the two shipped serializers must agree tree-wise: same class of outcome, and the same tree when both produced one
        const bool aErr = evs[0].run.threw, bErr = evs[1].run.threw;
        bool disagree = aErr != bErr;
        if (!aErr && !bErr) disagree = evs[0].verdict.wf != evs[1].verdict.wf || (evs[0].verdict.wf && evs[0].verdict.ev != evs[1].verdict.ev);
        if (disagree)
        {
            out.count("out_serializers_disagree");
            if (!isViolation(evs[0].outcome) && !isViolation(evs[1].outcome) && evs[0].rep != MAYBE)
                out.viol("both|" + g_encs[c.enc] + "|" + VERS[c.ver] + "|" + KIND_NAME[c.kind] + "|" + labelOf(c) + "|serializers-disagree",
                         detailOf(FACTORY, c, evs[0]) + " ;; " + detailOf(LEGACY, c, evs[1]));
        }
    }
    if (wantSample)
    {
        const Eval& ev = evs[0];
        out.sample(encodeCase(c) + " " + SER_NAME[sers[0]] + " item=" + labelOf(c) + " pad=" + std::to_string(ev.pad) + " -> " + ev.kindText +
                   (ev.run.threw ? " {" + ev.run.err.substr(0, 80) + "}" : " bytes=" + std::to_string(ev.run.bytes.size()) + (ev.edge ? " edge-touched" : "") + (ev.escaped ? " escaped" : "")));
    }
}

// ------------------------------------------------------------------------------------------------ index spaces
static size_t nGroupsSingle() { return 5 * g_items.size() + 2 * g_names.size(); }
static void groupToKindItem(size_t g, bool e2e, int& kind, int& i1)
{
    const size_t ni = e2e ? g_nBase : g_items.size();
    const size_t nn = e2e ? g_names.size() - 1 : g_names.size();
    if (g < 5 * ni) { kind = (int)(g / ni); i1 = (int)(g % ni); }
    else { g -= 5 * ni; kind = K_ELNAME + (int)(g / nn); i1 = (int)(g % nn); }
}
static void offFromIndex(int o, int& m, int& d) { m = 1 + o / 17; d = (o % 17) - 8; }

static uint64_t nSingles() { return (uint64_t)g_encs.size() * 2 * nGroupsSingle() * NOFF; }
static Case singleCase(uint64_t i)
{
    Case c; int o = (int)(i % NOFF); i /= NOFF;
    size_t g = (size_t)(i % nGroupsSingle()); i /= nGroupsSingle();
    c.ver = (int)(i % 2); i /= 2; c.enc = (int)i;
    groupToKindItem(g, false, c.kind, c.i1); offFromIndex(o, c.m, c.d);
    return c;
}
static uint64_t nPairs() { return (uint64_t)g_encs.size() * 2 * 5 * g_nBase * g_nBase * NOFF_PAIR; }
static Case pairCase(uint64_t i)
{
    Case c; int o = (int)(i % NOFF_PAIR); i /= NOFF_PAIR;
    c.i2 = (int)(i % g_nBase); i /= g_nBase; c.i1 = (int)(i % g_nBase); i /= g_nBase;
    c.kind = (int)(i % 5); i /= 5; c.ver = (int)(i % 2); i /= 2; c.enc = (int)i;
    offFromIndex(o, c.m, c.d);
    return c;
}
static size_t nNamesE2E() { return g_names.size() - 1; }
static size_t nGroupsE2E() { return 5 * g_nBase + 2 * nNamesE2E(); }
static uint64_t nE2E() { return (uint64_t)g_encs.size() * 2 * nGroupsE2E() * NOFF_E2E; }
static Case e2eCase(uint64_t i)
{
    Case c; c.e2e = true; int o = (int)(i % NOFF_E2E); i /= NOFF_E2E;
    size_t g = (size_t)(i % nGroupsE2E()); i /= nGroupsE2E();
    c.ver = (int)(i % 2); i /= 2; c.enc = (int)i;
    groupToKindItem(g, true, c.kind, c.i1); c.m = 1; c.d = o - 4;
    return c;
}

static std::pair<std::string, std::string> describeCase(const Case& c)
{
    const int ser = c.e2e ? E2E : (g_stage ? g_stage->ser : 0);
    return std::make_pair(std::string(SER_NAME[ser]) + "|" + g_encs[c.enc] + "|" + VERS[c.ver] + "|" + KIND_NAME[c.kind] + "|" + labelOf(c),
                          "off=" + std::to_string(c.m) + ":" + std::to_string(c.d) + " noff=" + std::to_string(c.e2e ? NOFF_E2E : (c.i2 >= 0 ? NOFF_PAIR : NOFF)) + " case=" + encodeCase(c) + " item units=[" + hexUnits(contentOf(c)) + "]");
}

// ------------------------------------------------------------------------------------------------ replay
static void printable(const std::string& enc, const std::string& bytes)
{
    std::string o;
    const size_t us = unitSize(enc);
    for (size_t i = 0; i + us <= bytes.size(); i += us)
    {
        unsigned u = us == 2 ? ((unsigned char)bytes[i] | ((unsigned char)bytes[i + 1] << 8)) : (unsigned char)bytes[i];
        if (u >= 0x20 && u < 0x7F) o += (char)u; else { char b[12]; snprintf(b, sizeof b, us == 2 ? "\\u%04X" : "\\x%02X", u); o += b; }
    }
    // collapse the padding
    size_t p = o.find("xxxxxxxxxxxxxxxx");
    if (p != std::string::npos) { size_t q = p; while (q < o.size() && o[q] == 'x') ++q; o = o.substr(0, p) + "x{" + std::to_string(q - p) + "}" + o.substr(q); }
    printf("  text  : %s\n", o.c_str());
}

static int replay(const std::string& enc)
{
    Case c;
    if (!decodeCase(enc, c)) { printf("c04 replay: cannot decode '%s'\n", enc.c_str()); return 2; }
    printf("case %s: %s encoding=%s version=%s kind=%s item=%s units=[%s] offset=512*%d%+d\n", enc.c_str(), c.e2e ? "end-to-end" : "direct SAX events",
           g_encs[c.enc].c_str(), VERS[c.ver], KIND_NAME[c.kind], labelOf(c).c_str(), hexUnits(contentOf(c)).c_str(), c.m, c.d);
    int sers[2], n = 0; if (c.e2e) sers[n++] = E2E; else { sers[n++] = FACTORY; sers[n++] = LEGACY; }
    int bad = 0;
    for (int k = 0; k < n; ++k)
    {
        printf("--- serializer=%s ...\n", SER_NAME[sers[k]]); fflush(stdout);
        Eval ev = evaluate(sers[k], c);
        printf("--- serializer=%s padding=%zu representable=%s outcome=%s\n", SER_NAME[sers[k]], ev.pad, ev.rep == YES ? "yes" : ev.rep == NO ? "no" : "maybe", ev.kindText.c_str());
        if (!ev.xsl.empty()) { std::string x = ev.xsl; size_t p = x.find("xxxxxxxxxxxxxxxx"); if (p != std::string::npos) { size_t q = p; while (q < x.size() && x[q] == 'x') ++q; x = x.substr(0, p) + "x{" + std::to_string(q - p) + "}" + x.substr(q); } printf("  stylesheet: %s\n  param p = string with units [%s]\n", x.c_str(), hexUnits(contentOf(c)).c_str()); }
        if (ev.run.threw) printf("  error : %s\n", ev.run.err.c_str());
        else
        {
            printf("  bytes : %zu, flushes at", ev.run.bytes.size());
            for (size_t e : ev.run.chunkEnds) printf(" %zu", e);
            {
                // the padding ('x' bytes, or 'x' 00 in UTF-16) is shown as a count
                const std::string& by = ev.run.bytes; std::string hx;
                for (size_t i = 0; i < by.size();)
                {
                    size_t j = i; while (j < by.size() && (by[j] == 'x' || (by[j] == 0 && j > 0 && by[j - 1] == 'x'))) ++j;
                    if (j - i >= 32) { hx += " [78" + std::string(by[i + 1] == 0 ? "00" : "") + " x " + std::to_string(by[i + 1] == 0 ? (j - i) / 2 : j - i) + "] "; i = j; }
                    else { hx += hexBytes(by, i, i + 1); ++i; }
                }
                printf("\n  hex   : %s\n", hx.c_str());
            }
            printable(g_encs[c.enc], ev.run.bytes);
            printf("  expat   : %s\n  libxml2 : %s\n", ev.verdict.expatSays.c_str(), ev.verdict.libxmlSays.c_str());
            printf("  expected tree: %s\n", evText(ev.expected).c_str());
            if (ev.verdict.usedExpat) printf("  expat tree   : %s\n", evText(ev.verdict.evExpat).c_str());
            printf("  libxml2 tree : %s\n", evText(ev.verdict.evLibxml).c_str());
        }
        if (!ev.why.empty()) printf("  why   : %s\n", ev.why.c_str());
        if (isViolation(ev.outcome)) { ++bad; printf("  VERDICT: violation %s\n", sigOf(sers[k], c, labelOf(c), ev.kindText).c_str()); }
        else printf("  VERDICT: %s\n", ev.kindText.c_str());
        fflush(stdout);
    }
    return bad ? 1 : 0;
}

// ------------------------------------------------------------------------------------------------ main
int main(int argc, char** argv)
{
    const std::string tier = argc > 1 ? argv[1] : "quick";
    const bool isReplay = tier == "replay";
    const int shard = argc > 2 && !isReplay ? atoi(argv[2]) : 0;
    const int nshards = argc > 3 && !isReplay ? atoi(argv[3]) : 1;
    const bool thorough = tier == "thorough" || isReplay;   // replay knows every encoding

    for (size_t i = 0; i < sizeof g_pad / sizeof g_pad[0]; ++i) g_pad[i] = 'x';
    g_pad[sizeof g_pad / sizeof g_pad[0] - 1] = 0;

    xercesc::XMLPlatformUtils::Initialize();
    XalanTransformer::initialize();
    xmlInitParser();
    int rc = 0;
    {
        buildSpace(thorough);
        g_stage = (Stage*)mmap(0, 4096, PROT_READ | PROT_WRITE, MAP_SHARED | MAP_ANONYMOUS, -1, 0);
        g_stage->ser = 0;
        for (int ser = 0; ser < 3; ++ser)
            for (size_t e = 0; e < g_encs.size(); ++e)
                for (int v = 0; v < 2; ++v)
                    for (int k = 0; k < K_N; ++k) doProbe(ser, (int)e, v, k);

        if (isReplay)
            rc = argc > 2 ? replay(argv[2]) : 2;
        else
        {
            const uint64_t NS = nSingles(), NP = thorough ? nPairs() : 0, NE = nE2E();
            runIsolated(NS, shard, nshards,
                        [&](uint64_t i, Out& o) { runCase(singleCase(i), o, i % 9973 == 17); },
                        [](uint64_t i) { return describeCase(singleCase(i)); }, "direct", 10);
            if (NP)
                runIsolated(NP, shard, nshards,
                            [&](uint64_t i, Out& o) { runCase(pairCase(i), o, i % 400009 == 23); },
                            [](uint64_t i) { return describeCase(pairCase(i)); }, "direct", 10);
            runIsolated(NE, shard, nshards,
                        [&](uint64_t i, Out& o) { runCase(e2eCase(i), o, i % 4999 == 11); },
                        [](uint64_t i) { return describeCase(e2eCase(i)); }, "e2e", 20);
            if (shard == 0)
                printf("count\tspace_singles\t%llu\ncount\tspace_pairs\t%llu\ncount\tspace_e2e\t%llu\n",
                       (unsigned long long)NS, (unsigned long long)NP, (unsigned long long)NE);
        }
    }
    fflush(stdout);
    xmlCleanupParser();
    XalanTransformer::terminate();
    xercesc::XMLPlatformUtils::Terminate();
    return rc;
}
