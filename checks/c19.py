#!/usr/bin/env python3
"""C19: pluggable memory manager - balance without faults, and EVERY allocation index of every scenario as the one
that fails (harness/c19.cpp, engine E3: exhaustive fault enumeration in forked children, no sampling).

  python3 checks/c19.py --tier quick|thorough
  python3 checks/c19.py --replay replay/C19/<sig>.json      re-runs the single (case, k) alone: outcome + symbolised throw site

VERIF_C19_EXE=<path> runs another harness executable instead of build/harness/c19 (detection demos with a scratch copy
of the harness that carries a seeded defect). VERIF_KNOWN_EXTRA=<file>[:<file>...] adds known-finding entries (a JSON list, or an object with "findings") to those
of KNOWN_FINDINGS.json for this check only; used to try proposed entries (known_findings.d/C19.json) before merging."""
import os, sys, time, json, subprocess
sys.path.insert(0, os.path.join(os.path.dirname(os.path.abspath(__file__)), '..', 'lib'))
import vlib

PROP = 'C19'


def install_known_extra():
    extra = os.environ.get('VERIF_KNOWN_EXTRA')
    if not extra:
        return
    base = vlib.load_known

    def load_known(prop):
        out = list(base(prop))
        for path in extra.split(':'):
            if not path:
                continue
            with open(path) as f:
                data = json.load(f)
            if isinstance(data, dict):
                data = data.get('findings', [])
            out += [e for e in data if e.get('property') == prop and e.get('status') == 'open']
        return out
    vlib.load_known = load_known


def replay(path):
    d = json.load(open(path))['detail']
    case = d.get('case', d)
    if isinstance(case, str):
        case = json.loads(case)
    env = dict(os.environ)
    env.update(vlib.ASAN_ENV)
    # replay only: LeakSanitizer names the allocation site of a block leaked outside the manager
    env['ASAN_OPTIONS'] = env['ASAN_OPTIONS'].replace('detect_leaks=0', 'detect_leaks=1') + ':symbolize=1'
    env['LSAN_OPTIONS'] = 'leak_check_at_exit=0'
    env['C19_LSAN'] = '1'
    cmd = [os.path.join(vlib.HBIN, 'c19'), 'replay', case['case'], str(case['k'])]
    print('replaying: ' + ' '.join(cmd))
    sys.stdout.flush()
    rc = subprocess.call(cmd, env=env)
    if rc == 1:
        print('VIOLATION property=%s replay=%s' % (PROP, os.path.abspath(path)))
    sys.exit(rc)


def main():
    tier, rp = vlib.tier_from_argv()
    t0 = time.time()
    if rp:
        replay(rp)
    install_known_extra()
    counts, viols, samples = vlib.run_cpp_sharded(os.environ.get('VERIF_C19_EXE') or 'c19', [tier])
    for v in viols:
        # the harness renders the detail as JSON text; keep it structured in the replay file
        c = v.detail.get('case')
        if isinstance(c, str) and c.startswith('{'):
            try:
                v.detail['case'] = json.loads(c)
            except ValueError:
                pass
    hist = {k[len('outcome:'):]: n for k, n in sorted(counts.items()) if k.startswith('outcome:')}
    sites = {k[len('site:'):]: n for k, n in counts.items() if k.startswith('site:')}
    per_case = {k[2:]: n for k, n in sorted(counts.items()) if k.startswith('N:')}
    sigs = {}
    for v in viols:
        sigs[v.signature] = sigs.get(v.signature, 0) + 1
    # a few (case, k, outcome, throw site) lines: prefer one per outcome class
    seen, picked = set(), []
    for s in samples:
        cls = s.split(', ')[2].split(' ')[0] if s.count(', ') >= 2 else s
        if cls not in seen:
            seen.add(cls)
            picked.append(s)
    picked += [s for s in samples if s not in picked][:max(0, 6 - len(picked))]
    evaluations = counts.get('evaluations', 0)
    cov = {
        'evaluations': evaluations,
        'distinct_nontrivial': len(sites),
        'rule': 'one evaluation = one forked run of one case (a scenario, or two scenarios back to back on one manager and one '
                'transformer) with the k-th allocate() of the supplied MemoryManager throwing std::bad_alloc; every k in 1..N(case) is run, '
                'N taken from a fault-free run that also checks balance (0 blocks outstanding after ~XalanTransformer, no foreign/double '
                'free). A run is non-trivial when the armed allocation was reached and the outcome is not swallowed-ok; '
                'distinct_nontrivial counts the distinct throw sites of those runs (innermost in-library frames incl. inlined ones, '
                'template arguments stripped: container/allocator plumbing + first non-plumbing frame).',
        'samples': picked[:8] or ['none'],
        'exhaustive': evaluations == counts.get('allocations_total', -1),
        'scenarios': counts.get('scenarios', 0),
        'allocations_total': counts.get('allocations_total', 0),
        'allocations_per_case': per_case,
        'nontrivial': counts.get('nontrivial', 0),
        'outcomes': hist,
        'violating_runs': counts.get('violations_raw', 0),
        'violation_signatures': len(sigs),
        'runs_that_left_blocks_to_the_manager': counts.get('left_blocks_to_the_manager', 0),
        'unreproduced_first_verdicts': {k[len('unreproduced:'):]: n for k, n in counts.items() if k.startswith('unreproduced:')},
        'library_replaced_on_disk_during_run': counts.get('library_replaced_on_disk_during_run', 0),
        'violation_signature_counts': dict(sorted(sigs.items(), key=lambda kv: (-kv[1], kv[0]))),
    }
    if counts.get('symboliser_mismatch', 0):
        viols.append(vlib.Violation('harness|symboliser-mismatch', {'count': counts['symboliser_mismatch']}))
    if evaluations != counts.get('allocations_total', -1) and not any(v.signature.startswith('harness|') for v in viols):
        # every index must have been run exactly once (cases whose fault-free run already fails are not swept)
        swept = sum(n for c, n in per_case.items()
                    if not any(v.signature.startswith('fault-free|%s|' % c) for v in viols))
        if evaluations != swept:
            viols.append(vlib.Violation('harness|incomplete-sweep', {'evaluations': evaluations, 'expected': swept}))
    vlib.finish(PROP, tier, 'fault_enumeration', cov, viols, t0,
                assumptions=['a single failing allocation per run (the k-th); the manager throws std::bad_alloc',
                             'scenario list and inputs as in harness/c19.cpp (small documents: the allocation SITES, not sizes, are the space)',
                             'xerces-c is the system library: its allocations through the supplied manager are fault points as well',
                             'leak-outside-manager compares heap bytes not owned by the manager with the fault-free run (ASan allocator statistics)'])


main()
