#!/usr/bin/env python3
"""C07: compiled stylesheets and parsed sources shared by concurrent threads, under every interleaving up to a
preemption bound. Explorer for harness/c07.cpp (own scheduler behind the TSan instrumentation): iterative context
bounding with a fixed point on the set W of shared-and-written addresses, happens-before race check on every execution."""
import os, sys, time, json, subprocess, threading, queue, re, hashlib
sys.path.insert(0, os.path.join(os.path.dirname(os.path.abspath(__file__)), '..', 'lib'))
import vlib

PROP = 'C07'
LIB = os.path.join(vlib.BUILD, 'tsan', 'src', 'xalanc', 'libxalan-c.so')
LIBDIRS = [os.path.join(vlib.BUILD, 'tsan', 'src', 'xalanc'), os.path.join(vlib.BUILD, 'tsan', 'src', 'xalanc', 'Utils', 'XalanMsgLib')]


class Server:
    def __init__(self, scenario, T, reps, srckind, idx):
        env = dict(os.environ)
        env['LD_LIBRARY_PATH'] = ':'.join(LIBDIRS)
        self.err = open(os.path.join(vlib.BUILD, 'tmp', 'c07.%s.%s.%d.err' % (scenario, srckind, idx)), 'wb')
        self.p = subprocess.Popen([os.path.join(vlib.HBIN, 'c07'), scenario, str(T), str(reps), srckind],
                                  stdin=subprocess.PIPE, stdout=subprocess.PIPE, stderr=self.err, env=env)
        self.ready = self.p.stdout.readline().decode()
        if not self.ready.startswith('ready'):
            raise RuntimeError('c07 setup failed: ' + self.ready)
        self.libbase = int(re.search(r'libbase=([0-9a-f]+)', self.ready).group(1), 16)

    def cmd(self, line):
        self.p.stdin.write((line + '\n').encode())
        self.p.stdin.flush()
        return self.p.stdout.readline().decode('utf-8', 'replace').rstrip('\n')

    def seq(self):
        return self.cmd('seq')

    def run(self, wfile, choices):
        r = self.cmd('run\t%s\t%s' % (wfile or '-', ','.join(map(str, choices))))
        return parse_result(r, choices)

    def close(self):
        try:
            self.p.stdin.write(b'quit\n')
            self.p.stdin.flush()
            self.p.wait(timeout=5)
        except Exception:
            self.p.kill()
        self.err.close()


class Result:
    pass


def parse_result(line, choices):
    r = Result()
    r.raw = line
    r.choices = list(choices)
    f = [x.strip() for x in line.split('|')]
    r.status = f[0][4:].strip() if f[0].startswith('res ') else 'garbled'
    while len(f) < 6:
        f.append('')
    r.threads = [tuple(x.split(':')) for x in f[1].split(',') if x]
    r.trace = []
    for x in f[2].split(';'):
        if x:
            a = x.split(':')
            r.trace.append((int(a[0]), a[1], int(a[2], 16), int(a[3])))
    r.races = [x for x in f[3].split(';') if x]
    r.neww = [x for x in f[4].split(';') if x]
    r.stats = f[5]
    return r


_sym_cache = {}


def symbolise(offsets):
    """'+0x1234' offsets into libxalan-c.so -> function names (llvm-symbolizer, offline)"""
    need = [o for o in offsets if o not in _sym_cache and o.startswith('+')]
    if need:
        try:
            inp = '\n'.join(o[1:] for o in need) + '\n'
            out = subprocess.run(['llvm-symbolizer', '--obj=' + LIB, '--functions=short', '--no-inlines'], input=inp.encode(),
                                 stdout=subprocess.PIPE, stderr=subprocess.DEVNULL, timeout=120).stdout.decode('utf-8', 'replace')
            blocks = [b for b in out.strip().split('\n\n')]
            for o, b in zip(need, blocks):
                lines = b.strip().split('\n')
                fnname = lines[0].strip() if lines else '?'
                loc = lines[1].strip() if len(lines) > 1 else ''
                loc = re.sub(r'^.*/src/xalanc/', '', loc)
                loc = re.sub(r':\d+$', '', loc)      # drop the column
                _sym_cache[o] = '%s(%s)' % (fnname, loc)
        except Exception:
            pass
    return [_sym_cache.get(o, o) for o in offsets]


def preemptions_before(trace, i):
    n = 0
    for (r, kind, mask, pick) in trace[:i]:
        if r >= 0 and (mask >> r) & 1 and pick != r:
            n += 1
    return n


def explore(scenario, T, reps, srckind, max_bound, deadline, nservers, report):
    """Returns dict with counts; calls report(kind, signature, detail) for violations."""
    servers = [Server(scenario, T, reps, srckind, i) for i in range(nservers)]
    seqs = set(s.seq() for s in servers)
    stats = {'schedules': 0, 'transitions': 0, 'states': set(), 'bound_completed': -1, 'W': 0, 'points_max': 0, 'restarts': 0,
             'outcomes': set(), 'cap_hit': False, 'races': set(), 'samples': []}
    if len(seqs) != 1 or not list(seqs)[0].startswith('seq 0 '):
        report('setup', '%s|%s|sequential-run-failed' % (scenario, srckind), {'seq': sorted(seqs)})
        for s in servers:
            s.close()
        return stats
    W = set()
    wfile = os.path.join(vlib.BUILD, 'tmp', 'c07.%s.%s.W' % (scenario, srckind))
    free = queue.Queue()
    for s in servers:
        free.put(s)
    lock = threading.Lock()

    def run_one(choices):
        s = free.get()
        try:
            return s.run(wfile if W else None, choices)
        finally:
            free.put(s)

    def check(res):
        """oracle for one execution; returns True if the execution may be expanded"""
        stats['schedules'] += 1
        stats['transitions'] += len(res.trace)
        stats['points_max'] = max(stats['points_max'], len(res.trace))
        prog = [0] * T
        for (r, kind, mask, pick) in res.trace:
            if r >= 0:
                prog[r] += 1
            stats['states'].add(tuple(prog) + (pick,))
        stats['outcomes'].add((res.status, tuple(res.threads)))
        sched = ','.join(map(str, [p for (_, _, _, p) in res.trace]))
        det = {'scenario': scenario, 'source': srckind, 'threads': T, 'reps': reps, 'schedule': sched or ','.join(map(str, res.choices)), 'W_size': len(W)}
        ok = True
        if res.status != 'ok':
            report('exec', '%s|%s|%s' % (scenario, srckind, res.status), dict(det, raw=res.raw[:400]))
            ok = False
        else:
            for ti, th in enumerate(res.threads):
                if th[0] != '0':
                    report('exec', '%s|%s|transform-failed rc=%s' % (scenario, srckind, th[0]), dict(det, thread=ti, raw=res.stats[-300:]))
                    ok = False
                elif th[2] != '1':
                    report('exec', '%s|%s|output-differs-from-sequential' % (scenario, srckind), dict(det, thread=ti))
                    ok = False
        if res.races:
            for rc in res.races:
                a, b_ = rc.split('~')
                sa, sb = symbolise([a, b_])
                key = ' ~ '.join(sorted([sa, sb]))
                stats['races'].add(key)
                report('race', '%s|race|%s' % (srckind, key), dict(det, site_offsets=rc))
        return ok

    # W discovery: bound-0 schedules (each thread first) until no new shared write shows up
    for rnd in range(8):
        with open(wfile, 'w') as f:
            f.write('\n'.join('%x' % a for a in sorted(W)))
        grew = False
        for first in range(T):
            res = run_one([first])
            neww = set(int(x.split(':')[0], 16) for x in res.neww)
            if neww - W:
                W |= neww
                grew = True
        stats['W'] = len(W)
        if not grew:
            break
    t_start = time.time()
    while True:
        # (re)start from bound 0 with the current W
        restart = False
        with open(wfile, 'w') as f:
            f.write('\n'.join('%x' % a for a in sorted(W)))
        frontier = [([], 0)]
        for bound in range(0, max_bound + 1):
            nxt = []
            level = [(p, u) for (p, u) in frontier]
            frontier = []
            # run every schedule of this level (they were generated with exactly `bound` preemptions, or 0..bound for forced switches)
            import concurrent.futures
            with concurrent.futures.ThreadPoolExecutor(nservers) as ex:
                pending = level
                while pending:
                    if time.time() > deadline:
                        stats['cap_hit'] = True
                        pending = []
                        break
                    futs = {ex.submit(run_one, p): (p, u) for (p, u) in pending}
                    pending = []
                    for fu in concurrent.futures.as_completed(futs):
                        p, u = futs[fu]
                        res = fu.result()
                        neww = set(int(x.split(':')[0], 16) for x in res.neww)
                        if neww - W:
                            W |= neww
                            stats['W'] = len(W)
                            restart = True
                        check(res)
                        if len(stats['samples']) < 3 and len(res.trace) > 1:
                            stats['samples'].append('%s/%s schedule (thread picked at each of %d points): %s...' % (
                                scenario, srckind, len(res.trace), ','.join(str(x[3]) for x in res.trace[:60])))
                        # children: deviate at a point beyond the prefix
                        picks = [x[3] for x in res.trace]
                        used_at = [0] * (len(res.trace) + 1)
                        for i, (r, kind, mask, pick) in enumerate(res.trace):
                            used_at[i + 1] = used_at[i] + (1 if (r >= 0 and (mask >> r) & 1 and pick != r) else 0)
                        for i in range(len(p), len(res.trace)):
                            r, kind, mask, pick = res.trace[i]
                            used = used_at[i]
                            if used > bound:
                                break
                            for alt in range(T):
                                if alt == pick or not (mask >> alt) & 1:
                                    continue
                                cost = used + (1 if (r >= 0 and (mask >> r) & 1) else 0)
                                child = (picks[:i] + [alt], cost)
                                if cost == bound:
                                    pending.append(child)        # same level (forced switches at no cost)
                                elif cost == bound + 1:
                                    nxt.append(child)
                    if restart:
                        break
            if restart or stats['cap_hit']:
                break
            stats['bound_completed'] = bound
            frontier = nxt
            if not frontier:
                stats['bound_completed'] = max_bound     # nothing left to deviate from: every higher bound is complete too
                break
        if restart and time.time() < deadline:
            stats['restarts'] += 1
            stats['bound_completed'] = -1
            continue
        break
    for s in servers:
        s.close()
    return stats


SCENARIOS = ['all', 'keys', 'number', 'document', 'format', 'sort', 'id', 'strip', 'rtf', 'genid', 'dyn', 'attrsets', 'params', 'templates', 'avt']


def main():
    tier, rp = vlib.tier_from_argv()
    os.makedirs(os.path.join(vlib.BUILD, 'tmp'), exist_ok=True)
    if rp:
        rec = json.load(open(rp))
        d = rec['detail']
        if 'schedule' not in d:
            # a report of the free-running ThreadSanitizer companion: run that pass again (it is not schedule controlled)
            env = dict(os.environ)
            env['LD_LIBRARY_PATH'] = ':'.join(LIBDIRS)
            env['TSAN_OPTIONS'] = 'exitcode=66:halt_on_error=0'
            pr = subprocess.run([os.path.join(vlib.HBIN, 'c07free'), d['scenario'], '2', '20', d['source']], env=env, stdout=subprocess.PIPE, stderr=subprocess.PIPE, timeout=600)
            print(pr.stdout.decode()[-400:])
            print(pr.stderr.decode('utf-8', 'replace')[-3000:])
            return
        s = Server(d['scenario'], d.get('threads', 2), d.get('reps', 1), d['source'], 99)
        print(s.seq())
        for k in range(2):      # replay twice: identical observations expected
            r = s.run(None, [int(x) for x in d['schedule'].split(',') if x])
            print(r.status, r.threads, 'races', symbolise([x for rc in r.races for x in rc.split('~')]), r.stats)
        s.close()
        return
    t0 = time.time()
    thorough = tier == 'thorough'
    budget = 900 if thorough else 150
    viols = {}

    def report(kind, sig, det):
        if sig not in viols:
            viols[sig] = det

    plan = []
    # (scenario, T, reps, srckind, max_bound)
    for sc in SCENARIOS:
        plan.append((sc, 2, 1, 'st', 1 if not thorough else 2))
    plan.append(('all', 2, 1, 'xw', 0))
    plan.append(('all', 2, 1, 'xt', 0))
    plan.append(('keys', 2, 2, 'st', 1))
    plan.append(('keys', 2, 1, 'xw', 1 if thorough else 0))
    plan.append(('sort', 2, 1, 'xw', 1 if thorough else 0))
    plan.append(('keys', 2, 1, 'xt', 1 if thorough else 0))
    if thorough:
        plan.append(('all', 3, 1, 'st', 1))
        plan.append(('sort', 3, 1, 'st', 2))
        plan.append(('format', 2, 2, 'st', 1))
    totals = {'schedules': 0, 'transitions': 0, 'states': 0, 'restarts': 0}
    per = []
    samples = []
    exhaustive = True
    for i, (sc, T, reps, src, mb) in enumerate(plan):
        remaining = budget - (time.time() - t0)
        share = max(10.0, remaining / max(1, len(plan) - i))
        st = explore(sc, T, reps, src, mb, time.time() + share, vlib.NPROC, report)
        totals['schedules'] += st['schedules']
        totals['transitions'] += st['transitions']
        totals['states'] += len(st['states'])
        totals['restarts'] += st['restarts']
        per.append({'scenario': sc, 'threads': T, 'reps': reps, 'source': src, 'bound_requested': mb, 'bound_completed': st['bound_completed'],
                    'schedules': st['schedules'], 'points_max': st['points_max'], 'W': st['W'], 'distinct_outcomes': len(st['outcomes']),
                    'cap_hit': st['cap_hit']})
        samples += st['samples'][:1]
        if st['cap_hit'] or st['bound_completed'] < mb:
            exhaustive = False
    # companion pass: the same thread bodies free running under the real ThreadSanitizer runtime
    free_runs, free_reports = 0, 0
    env = dict(os.environ)
    env['LD_LIBRARY_PATH'] = ':'.join(LIBDIRS)
    env['TSAN_OPTIONS'] = 'exitcode=66:halt_on_error=0'
    for (sc, src) in [('all', 'st'), ('all', 'xw'), ('all', 'xt'), ('sort', 'st'), ('format', 'st')] + ([(x, 'st') for x in SCENARIOS[1:]] if thorough else []):
        for k in range(3 if thorough else 1):
            try:
                pr = subprocess.run([os.path.join(vlib.HBIN, 'c07free'), sc, '3' if k == 2 else '2', '20', src], env=env,
                                    stdout=subprocess.PIPE, stderr=subprocess.PIPE, timeout=300)
            except subprocess.TimeoutExpired:
                continue
            free_runs += 1
            errt = pr.stderr.decode('utf-8', 'replace')
            nrep = errt.count('WARNING: ThreadSanitizer')
            free_reports += nrep
            if nrep or pr.returncode not in (0,):
                m = re.findall(r'#0 (\S+) .*?src/xalanc/(\S+?):\d+', errt)
                site = ' ~ '.join('%s(%s)' % x for x in m[:2]) if m else 'rc=%d' % pr.returncode
                report('tsan', '%s|tsan-free-running|%s' % (src, site), {'scenario': sc, 'source': src, 'stderr': errt[-3000:], 'stdout': pr.stdout.decode()[-300:]})
    # positive control, outside the property's quantifier: the non-thread-safe Xerces liaison default
    ctrl = {}

    def creport(kind, sig, det):
        ctrl.setdefault(kind, set()).add(sig)
    cst = explore('all', 2, 1, 'xn', 0, time.time() + 30, 2, creport)
    cov = {
        'states': totals['states'],
        'transitions': totals['transitions'],
        'traces_validated_against_impl': totals['schedules'],
        'samples': samples[:6] or ['none'],
        'evaluations': totals['schedules'],
        'distinct_nontrivial': sum(1 for p in per if p['points_max'] > 3) + totals['states'],
        'rule': 'For each scenario (one per lazily initialised facility: keys, xsl:number, document(), format-number, sort with lang, id(), '
                'strip-space, RTF + nodeset, generate-id, dyn:evaluate, attribute sets, params, template matching, AVTs, and all together) '
                'T threads with their own XalanTransformer transform the SAME compiled stylesheet and parsed source (native tree, and a '
                'Xerces DOM wrapped in thread-safe mode). Each execution runs in a child forked from the post-setup snapshot under a '
                'scheduler that owns every decision: scheduling points are the interposed pthread mutex/cond/once and __cxa_guard '
                'operations and every access to an address of the learned set W of shared memory written during the concurrent phase. '
                'ALL schedules with 0, 1 (quick) and 2 (thorough) preemptions are executed; W is iterated to a fixed point. On every '
                'execution: each output equals the sequential output, rc 0, no deadlock/crash, and no pair of accesses to shared memory '
                '(library data/bss + everything allocated during setup, held in an arena) by different threads, one a write, unordered by '
                'happens-before (own vector clocks; baton hand-offs are not edges). states = distinct (per-thread progress, next thread) '
                'vectors; transitions = scheduling decisions executed.',
        'schedules': totals['schedules'], 'restarts_for_W': totals['restarts'], 'per_scenario': per,
        'free_running_tsan_runs': free_runs, 'free_running_tsan_reports': free_reports,
        'exhaustive': exhaustive,
        'positive_control_nonthreadsafe_xerces': {'races_found': len(cst['races']), 'shared_written_addresses': cst['W'],
                                                  'example': sorted(cst['races'])[:3]},
    }
    vv = [vlib.Violation(sig, det) for sig, det in viols.items()]
    vlib.finish(PROP, tier, 'model_checking', cov, vv, t0,
                assumptions=['sequential consistency', 'accesses inside uninstrumented libxerces/libicu/libc are invisible (their pthread synchronisation is not)',
                             'memcpy-family accesses are not instrumented'])


if __name__ == '__main__':
    main()
