#!/usr/bin/env python3
"""C16: xsl:sort yields a stable permutation ordered by its keys; position()/last() reflect the sorted order.
All node lists up to a size bound over a value alphabet x all key lists of the families below, in for-each and
apply-templates. Text order expectation comes from a direct ICU ucol_strcoll call (harness/icucoll.cpp)."""
import os, sys, time, json, itertools, functools, math
sys.path.insert(0, os.path.join(os.path.dirname(os.path.abspath(__file__)), '..', 'lib'))
import vlib, refdoc as R, refxpath as X

PROP = 'C16'
XSL = 'http://www.w3.org/1999/XSL/Transform'


class Coll:
    def __init__(self):
        self.w = vlib.Worker('icucoll', stderr_path=os.path.join(vlib.BUILD, 'tmp', 'icucoll.%d.err' % os.getpid()))
        self.cache = {}

    def cmp(self, lang, case, a, b):
        k = (lang, case, a, b)
        if k not in self.cache:
            r = self.w.request(lang, case, a, b)
            self.cache[k] = int(r[0])
        return self.cache[k]


# a key spec: (select text, fn(item)->value (str or float), datatype 'text'|'number', descending, lang, caseorder)

def key_value(spec, item, pos):
    sel = spec[0]
    k, j = item[1], item[2]
    # current() inside a sort key is the node being sorted (XSLT 12.4 with 10: the key is evaluated with that node as current node)
    if sel in ('@k', '.', 'current()/@k', '//e[@id = current()/@id]/@k'):
        return k
    if sel == '@j':
        return j
    if sel in ('string-length(@k)', 'string-length(current())'):
        return float(len(k))
    if sel == '1 div @k':
        return X.arith('div', 1.0, X.str_to_num(k))
    if sel == 'number(@k) * 2':
        return X.str_to_num(k) * 2
    if sel == '1':
        return 1.0
    raise ValueError(sel)


def expected_order(items, specs, coll):
    def cmp(a, b):
        for spec in specs:
            va, vb = key_value(spec, a, 0), key_value(spec, b, 0)
            if spec[2] == 'number':
                na = va if isinstance(va, float) else X.str_to_num(va)
                nb = vb if isinstance(vb, float) else X.str_to_num(vb)
                if na != na and nb != nb:
                    c = 0
                elif na != na:
                    c = -1
                elif nb != nb:
                    c = 1
                else:
                    c = -1 if na < nb else (1 if na > nb else 0)
            else:
                sa = va if isinstance(va, str) else X.num_to_str(va)
                sb = vb if isinstance(vb, str) else X.num_to_str(vb)
                c = coll.cmp(spec[4], spec[5], sa, sb)
            if spec[3]:
                c = -c
            if c:
                return c
        return 0
    return sorted(items, key=functools.cmp_to_key(cmp))     # Python's sort is stable


def sort_xml(spec):
    a = ['<xsl:sort select="%s"' % spec[0]]
    if spec[2] == 'number':
        a.append(' data-type="number"')
    elif spec[6] if len(spec) > 6 else False:
        a.append(' data-type="text"')
    if spec[3]:
        a.append(' order="descending"')
    if spec[4]:
        a.append(' lang="%s"' % spec[4])
    if spec[5]:
        a.append(' case-order="%s-first"' % spec[5])
    a.append('/>')
    return ''.join(a)


SELECT_FORMS = ['r/e', '$all', "key('every', 'k')", 'r/e | r/nosuch', 'xalan:nodeset($copy)/e']


def stylesheet(speclists, use_apply, selform=0):
    """the node list to sort is selected by a location path, a variable reference, a key() call, a union or out of a result tree
    fragment: the sort must not depend on how the list was obtained"""
    sel = SELECT_FORMS[selform]
    parts = ['<xsl:stylesheet version="1.0" xmlns:xsl="%s" xmlns:xalan="http://xml.apache.org/xalan" exclude-result-prefixes="xalan">'
             '<xsl:key name="every" match="r/e" use="\'k\'"/><xsl:variable name="all" select="/r/e"/><xsl:variable name="copy"><xsl:copy-of select="/r/e"/></xsl:variable>'
             '<xsl:template match="/"><out>' % XSL]
    for i, specs in enumerate(speclists):
        sorts = ''.join(sort_xml(s) for s in specs)
        parts.append('<s n="%d">' % i)
        if use_apply:
            parts.append('<xsl:apply-templates select="%s" mode="m">%s</xsl:apply-templates>' % (sel, sorts))
        else:
            parts.append('<xsl:for-each select="%s">%s<o id="{@id}" p="{position()}" l="{last()}"/></xsl:for-each>' % (sel, sorts))
        parts.append('</s>')
    parts.append('</out></xsl:template><xsl:template match="e" mode="m"><o id="{@id}" p="{position()}" l="{last()}"/></xsl:template></xsl:stylesheet>')
    return ''.join(parts)


def doc_xml(items):
    return '<r>' + ''.join('<e id="%d" k="%s" j="%s">%s</e>' % (i, R.esc_attr(k), R.esc_attr(j), R.esc_text(k)) for i, k, j in items) + '</r>'


def single_key_speclists():
    out = []
    for sel in ('@k', '.', 'string-length(@k)', '1 div @k', 'number(@k) * 2', 'current()/@k', '//e[@id = current()/@id]/@k', 'string-length(current())'):
        for dt in ('text', 'number'):
            for desc in (False, True):
                if sel in ('1 div @k', 'number(@k) * 2', 'string-length(current())') and dt == 'text':
                    continue
                out.append([(sel, None, dt, desc, '', '')])
    return out


def two_key_speclists():
    out = []
    for s1 in (('@k', 'text', False), ('@k', 'number', True), ('string-length(@k)', 'number', False), ('@k', 'text', True)):
        for s2 in (('@j', 'text', False), ('@j', 'number', False), ('@j', 'number', True), ('@j', 'text', True)):
            out.append([(s1[0], None, s1[1], s1[2], '', ''), (s2[0], None, s2[1], s2[2], '', '')])
    return out


def lang_speclists():
    out = []
    for lang in ('', 'en', 'sv'):
        for case in ('', 'upper', 'lower'):
            for desc in (False, True):
                out.append([('@k', None, 'text', desc, lang, case)])
    # second key without lang after a first key with lang: each key has its own language
    for l1 in ('sv', 'en'):
        for l2 in ('', 'en', 'sv'):
            out.append([('1', None, 'number', False, l1, ''), ('@k', None, 'text', False, l2, '')])
            out.append([('@j', None, 'text', False, l1, ''), ('@k', None, 'text', False, l2, '')])
    return out


def families(tier):
    """yields (family, items, speclists)"""
    thorough = tier == 'thorough'
    V = ['', 'a', 'b', '1', '2', '10', '-1', '1e1'] if not thorough else ['', 'a', 'b', '1', '2', '10', '-1', '1e1', '-0', '0', '135792468']
    sk = single_key_speclists()
    for n in range(0, 5):
        for vals in itertools.product(V, repeat=n):
            yield 'single', [(i, v, '') for i, v in enumerate(vals)], sk
    V5 = ['b', '2', '10', ''] if not thorough else ['b', '2', '10', '', 'NaN']
    for n in (5, 6) if thorough else (5,):
        for vals in itertools.product(V5, repeat=n):
            yield 'single', [(i, v, '') for i, v in enumerate(vals)], sk
    # long lists with ties (stability must not depend on the list being short: library sorts switch algorithm above a size)
    LONGV = ['b', '2', '10']
    for n in ((17, 33) if not thorough else (16, 17, 18, 33, 40, 65)):
        for period in range(1, 5 if not thorough else 6):
            for pat in itertools.product(LONGV, repeat=period):
                if period > 1 and len(set(pat)) == 1:
                    continue
                vals = [pat[i % period] for i in range(n)]
                yield 'long', [(i, v, '') for i, v in enumerate(vals)], sk
        # one element out of place in an otherwise constant list, at every position
        for pos_ in range(n):
            vals = ['2'] * n
            vals[pos_] = '10'
            yield 'long', [(i, v, '') for i, v in enumerate(vals)], sk
    tk = two_key_speclists()
    P = [(k, j) for k in ('a', 'b', '1') for j in ('1', '2', '10')]
    for n in range(2, 4 if not thorough else 5):
        for pairs in itertools.product(P, repeat=n):
            if n == 4 and len(set(pairs)) > 3:
                continue
            yield 'two-keys', [(i, k, j) for i, (k, j) in enumerate(pairs)], tk
    lk = lang_speclists()
    L = ['a', 'B', 'b', 'A', 'z', 'ä']
    for n in range(2, 4 if not thorough else 5):
        for vals in itertools.product(L, repeat=n):
            yield 'lang', [(i, v, 'x') for i, v in enumerate(vals)], lk


def shard_main(shard, nshards, tier):
    w = vlib.Worker('xdrv', stderr_path=os.path.join(vlib.BUILD, 'tmp', 'c16.%d.err' % shard))
    coll = Coll()
    counts = {'evaluations': 0, 'transformations': 0, 'nontrivial': 0, 'docs': 0}
    viols = []
    samples = []
    sheets = {}
    for idx, (fam, items, speclists) in enumerate(families(tier)):
        if idx % nshards != shard:
            continue
        counts['docs'] += 1
        xml = doc_xml(items)
        for use_apply in (False, True):
            if use_apply and idx % 3 != 0 and fam == 'single':
                continue
            selform = (idx // nshards) % len(SELECT_FORMS)
            key = (fam, use_apply, selform)
            if key not in sheets:
                sheets[key] = stylesheet(speclists, use_apply, selform)
            try:
                r = w.request('tr', sheets[key], xml)
            except vlib.WorkerDied as wd:
                viols.append(('%s|fatal|%s' % (fam, xml), {'xml': xml, 'stderr': wd.stderr_tail[-1500:]}))
                continue
            counts['transformations'] += 1
            if r[0] != '0':
                viols.append(('%s|transform-error|%s' % (fam, r[1][:80]), {'xml': xml, 'error': r[1]}))
                continue
            out = R.parse_xml(r[2])
            for sn in out.docel.children:
                i = int(sn.attrs[0].value)
                specs = speclists[i]
                got = [(int(o.attrs[0].value), o.attrs[1].value, o.attrs[2].value) for o in sn.children]
                exp = expected_order(items, specs, coll)
                counts['evaluations'] += 1
                exp_ids = [e[0] for e in exp]
                got_ids = [g[0] for g in got]
                if exp_ids != list(range(len(items))):
                    counts['nontrivial'] += 1
                how = ('apply-templates' if use_apply else 'for-each') + ' select=' + SELECT_FORMS[selform]
                spec_txt = ' '.join(sort_xml(s) for s in specs)
                if sorted(got_ids) != list(range(len(items))):
                    kind = 'not-a-permutation'
                elif got_ids != exp_ids:
                    # classify: is it at least ordered by keys (stability problem) or mis-ordered
                    kind = 'wrong-order'
                    exp_keys = [tuple(str(key_value(s, e, 0)) for s in specs) for e in exp]
                    got_keys = [tuple(str(key_value(s, items[g], 0)) for s in specs) for g in got_ids]
                    if exp_keys == got_keys:
                        kind = 'unstable'
                elif any(int(p) != n + 1 or int(l) != len(items) for n, (_, p, l) in enumerate(got)):
                    kind = 'position-last'
                else:
                    continue
                viols.append(('%s|%s|%s|%s' % (fam, kind, how if kind == 'position-last' else 'sort', spec_txt),
                              {'xml': xml, 'sorts': spec_txt, 'via': how, 'expected_ids': exp_ids, 'got': got}))
        if len(samples) < 3 and idx % 1999 == shard:
            samples.append('%s: %s with %d key lists' % (fam, xml, len(speclists)))
    w.close()
    coll.w.close()
    return {'counts': counts, 'viols': viols, 'samples': samples}


def replay(path_):
    rec = json.load(open(path_))
    det = rec['detail']
    print(json.dumps(det, indent=1))


def main():
    tier, rp = vlib.tier_from_argv()
    if rp:
        return replay(rp)
    t0 = time.time()
    res = vlib.run_sharded(shard_main, (tier,))
    counts = vlib.merge_counts([r['counts'] for r in res])
    # one root cause gives the same (kind, sort spec) for many documents: keep the smallest document per signature
    best = {}
    for r in res:
        for sig, det in r['viols']:
            if sig not in best or len(det.get('xml', '')) < len(best[sig].get('xml', '')):
                best[sig] = det
    viols = [vlib.Violation(sig, det) for sig, det in best.items()]
    cov = {
        'evaluations': counts['evaluations'],
        'distinct_nontrivial': counts['nontrivial'],
        'rule': 'The list to sort is selected in turn by a location path, a variable reference, a key() call, a union and out of a result tree fragment. Long lists with ties: every periodic list (period 1..4 / 1..5 over 3 values) and every list with one displaced element, of length 17 and 33 (thorough 16..65) x 16 single-key lists. Every node list of size 0..4 over 8 (quick) / 11 (thorough) key values (incl. empty string, NaN-valued, -0, the numeric-cache '
                'sentinel 135792468) and size 5(,6) over 4(5) values x 16 single-key lists (select x data-type x order); every list of 2..3(4) '
                '(k,j) pairs over 9 pairs x 16 two-key lists; every list of 2..3(4) values over {a,B,b,A,z,a-umlaut} x lang {-,en,sv} x case-order x '
                'order and two-key lists with different languages; in xsl:for-each and xsl:apply-templates. Oracle: a stable sort with the '
                'comparator chain of the key list (numbers: NaN first; text: direct ICU ucol_strcoll with the same locale/case-first), '
                'position() = rank, last() = size. An evaluation is one (list, key list); non-trivial = the expected order is not the '
                'document order.',
        'samples': [x for r in res for x in r['samples']][:6] or ['none'],
        'documents': counts['docs'], 'transformations': counts['transformations'],
        'exhaustive': True,
    }
    vlib.finish(PROP, tier, 'exploration', cov, viols, t0,
                assumptions=['ICU collation (ucol_strcoll) for the requested language is the text order', 'XSLT 1.0 erratum: NaN sorts before all numbers in ascending order'])


if __name__ == '__main__':
    main()
