#!/usr/bin/env python3
"""C12: node-sets are duplicate-free and in one document order.
(a) isNodeAfter over all ordered node pairs per document representation, (b) BFS over MutableNodeRefList insertion
histories (harness/c12.cpp), (c) every node-set expression of C02's families: delivered list == reference list in order."""
import os, sys, time, json
sys.path.insert(0, os.path.join(os.path.dirname(os.path.abspath(__file__)), '..', 'lib'))
sys.path.insert(0, os.path.dirname(os.path.abspath(__file__)))
import vlib
import c02


def main():
    tier, replay = vlib.tier_from_argv()
    if replay:
        rec = json.load(open(replay))
        if 'expr' in rec['detail']:
            return c02.replay(replay)
        print(rec['detail'])
        return
    t0 = time.time()
    counts, viols, samples = vlib.run_cpp_sharded('c12', [tier])
    res = vlib.run_sharded(c02.shard_main, (tier, 'order'))
    ccounts = vlib.merge_counts([r['counts'] for r in res])
    viols += [vlib.Violation('expr-' + sig, det) for r in res for sig, det in r['viols']]
    cov = {
        'states': counts.get('states', 0),
        'transitions': counts.get('transitions', 0),
        'traces_validated_against_impl': counts.get('transitions', 0),
        'samples': samples[:8] + [x for r in res for x in r['samples']][:3],
        'max_depth': counts.get('max_depth', 0),
        'pairs_checked': counts.get('pairs', 0),
        'expression_evaluations': ccounts.get('evaluations', 0),
        'expression_cases': ccounts.get('cases', 0),
        'evaluations': counts.get('evaluations', 0) + ccounts.get('evaluations', 0),
        'distinct_nontrivial': counts.get('bfs_nontrivial_states', 0) + ccounts.get('nontrivial', 0),
        'rule': '(b) breadth-first search over ALL histories of {addNodeInDocOrder(n) for 8 nodes of two documents, 5 bulk '
                'addNodesInDocOrder with honest doc/reverse/unknown flags, clear} to depth 6 (quick) / 9 (thorough), states = (node '
                'sequence, order flag) de-duplicated; the search saturates (max_depth reported). Invariant in every state: no duplicate, '
                'per-document pre-order, documents not interleaved. Every transition is executed on the real MutableNodeRefList, so '
                'traces validated = transitions. (a) isNodeAfter for every ordered pair of non-document nodes of 4 documents in 3 '
                'representations (native indexed tree, Xerces wrapper built eagerly, Xerces wrapper in mapping mode) vs pre-order rank. '
                '(c) every node-set expression of the C02 families step1/step2/abbrev/filter/union x 5 documents x every context node: '
                'the delivered list equals the reference list in order. States that violate the invariant are reported and not expanded.',
        'exhaustive': counts.get('restart_cap_hit', 0) == 0,
    }
    vlib.finish('C12', tier, 'model_checking', cov, viols, t0,
                assumptions=['pre-order numbering with an element before its attributes before its children is the document order',
                             'lib/refxpath.py for part (c)'])


main()
