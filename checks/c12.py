#!/usr/bin/env python3
"""C12: node-sets are duplicate-free and in one document order.
(a) isNodeAfter over all ordered node pairs per document representation, (b) BFS over MutableNodeRefList insertion
histories (harness/c12.cpp), (c) every node-set expression of C02's families: delivered list == reference list in order."""
import os, sys, time, json
sys.path.insert(0, os.path.join(os.path.dirname(os.path.abspath(__file__)), '..', 'lib'))
sys.path.insert(0, os.path.dirname(os.path.abspath(__file__)))
import vlib, refdoc as R, refxpath as X, xpgen as G
import c02


def rtf_shard(shard, nshards, tier):
    """(d) the same node-set expressions with the context inside a RESULT TREE FRAGMENT (a tree built by FormatterToSourceTree through
    xsl:copy-of and through literal result elements / xsl:text, converted with xalan:nodeset): delivered order == reference order"""
    thorough = tier == 'thorough'
    docs = [d for d in G.docs() if not d.id_attrs][:2 if not thorough else 4]
    El = R.E
    # mixed content: text directly before/after/between elements, comments and PIs, attributes on nested elements
    docs.append(R.make_doc([El('x', [('k', '1')], ['alpha', El('y', [('id', 'i')], ['in', El('z'), 'after-z']), 'beta', R.C('c'), El('z', [('a', '1'), ('b', '2')]), 'gamma', R.P('t', 'd'),
                                                   El('y', None, [El('y', None, ['deep'])]), 'omega'])], name='MIX'))
    w = vlib.Worker('xdrv', stderr_path=os.path.join(vlib.BUILD, 'tmp', 'c12r.%d.err' % shard))
    counts = {'rtf_evaluations': 0, 'rtf_cases': 0, 'rtf_nontrivial': 0, 'rtf_transformations': 0}
    viols = []
    samples = []
    FAMS = ('step1', 'abbrev', 'union', 'filter') if thorough else ('step1', 'union', 'abbrev')
    cases = [(fam, text, ast) for fam, text, ast in c02.gen_cases(tier) if fam in FAMS and ast is not None and 'id(' not in text and 'namespace' not in text
             and 'lang(' not in text and 'key(' not in text]
    if not thorough:
        cases = cases[::3]
    NS = ' '.join('xmlns:%s="%s"' % kv for kv in sorted(G.NSMAP.items()) if kv[0] in ('p', 'q'))

    def esc(t):
        return t.replace('&', '&amp;').replace('<', '&lt;').replace('"', '&quot;')

    def lre(n):
        """the tree written as literal result elements, xsl:text, xsl:comment, xsl:processing-instruction"""
        if n.kind == R.ELEM:
            o = '<xsl:element name="%s"%s>' % (n.qname, (' namespace="%s"' % n.uri) if n.uri else '')
            o += ''.join('<xsl:attribute name="%s"%s>%s</xsl:attribute>' % (a.qname, (' namespace="%s"' % a.uri) if a.uri else '', esc(a.value)) for a in n.attrs)
            return o + ''.join(lre(c) for c in n.children) + '</xsl:element>'
        if n.kind == R.TEXT:
            return '<xsl:text>%s</xsl:text>' % esc(n.value)
        if n.kind == R.COMMENT:
            return '<xsl:comment>%s</xsl:comment>' % esc(n.value)
        if n.kind == R.PI:
            return '<xsl:processing-instruction name="%s">%s</xsl:processing-instruction>' % (n.local, esc(n.value))
        return ''
    B = 40
    batches = [cases[i:i + B] for i in range(0, len(cases), B)]
    jobs = [(di, how, bi) for di in range(len(docs)) for how in ('copy', 'built') for bi in range(len(batches))]
    for ji, (di, how, bi) in enumerate(jobs):
        if ji % nshards != shard:
            continue
        d = docs[di]
        if how == 'built' and any(n.kind == R.ELEM and n.nsdecls for n in d.nodes):
            continue        # namespace declarations of the source are not reproduced by the instruction form
        ctxnodes = [n for n in d.nodes if n.kind != R.NS]
        body = ''.join('<e i="%d"><xsl:for-each select="%s"><h><xsl:call-template name="path"/></h></xsl:for-each></e>' % (i, esc(text)) for i, (fam, text, ast) in enumerate(batches[bi]))
        var = '<xsl:copy-of select="/node()"/>' if how == 'copy' else ''.join(lre(c) for c in d.root.children)
        xsl = ('<xsl:stylesheet version="1.0" xmlns:xsl="http://www.w3.org/1999/XSL/Transform" xmlns:xalan="http://xml.apache.org/xalan" %s exclude-result-prefixes="xalan">'
               '<xsl:variable name="t">%s</xsl:variable><xsl:template match="/"><out><xsl:for-each select="xalan:nodeset($t)"><xsl:for-each select="/|//node()|//@*"><c>%s</c></xsl:for-each>'
               '</xsl:for-each></out></xsl:template>%s</xsl:stylesheet>' % (NS, var, body, c02.VARS_PATH_TEMPLATES))
        try:
            r = w.request('tr', xsl, d.to_xml())
        except vlib.WorkerDied as wd:
            viols.append(('rtf|fatal|%s batch %d' % (how, bi), {'doc': d.name, 'stderr': wd.stderr_tail[-1200:]}))
            continue
        counts['rtf_transformations'] += 1
        if di == 0 and how == 'copy':
            counts['rtf_cases'] += len(batches[bi])
        if r[0] != '0':
            viols.append(('rtf|transform-error|%s|%s' % (how, r[1][:80]), {'doc': d.name, 'error': r[1][:300], 'first_expr': batches[bi][0][1]}))
            continue
        out = R.parse_xml(r[2])
        cs = [c for c in out.docel.children if c.kind == R.ELEM]
        if len(cs) != len(ctxnodes):
            viols.append(('rtf|context-count|%s' % how, {'doc': d.name, 'expected': len(ctxnodes), 'got': len(cs), 'xml': d.to_xml()}))
            continue
        bad = set()
        for pos, (node, c) in enumerate(zip(ctxnodes, cs)):
            es = [e for e in c.children if e.kind == R.ELEM]
            for i, (fam, text, ast) in enumerate(batches[bi]):
                if i in bad:
                    continue
                counts['rtf_evaluations'] += 1
                try:
                    v = X.evaluate(ast, X.Ctx(node, pos + 1, len(ctxnodes), {}, G.NSMAP))
                except X.XPathError:
                    continue
                if not isinstance(v, X.NodeSet):
                    continue
                want = [d.path(n) for n in v]
                got = [h.string_value().strip() for h in es[i].children]
                if len(want) >= 2:
                    counts['rtf_nontrivial'] += 1
                if got != want:
                    bad.add(i)
                    kind = 'duplicates' if len(got) != len(set(got)) else ('order' if sorted(got) == sorted(want) else 'different-set')
                    viols.append(('rtf|%s|%s|%s' % (kind, how, text), {'expr': text, 'doc': d.name, 'xml': d.to_xml(), 'how': how, 'context': d.path(node), 'expected': want, 'got': got}))
        if len(samples) < 2:
            samples.append('rtf(%s) of %s: %s ... x %d context nodes' % (how, d.name, batches[bi][0][1], len(ctxnodes)))
    w.close()
    return {'counts': counts, 'viols': viols, 'samples': samples}


def multi_shard(shard, nshards, tier):
    """(e) unions whose operands select nodes of SEVERAL trees (main document, a document() tree, a result tree fragment): every ordered
    pair and triple (thorough: quadruple) of 7 operands. The delivered list must contain every node once, keep the nodes of one tree
    together (no interleaving) and in document order inside each tree."""
    import itertools
    import xpparse
    thorough = tier == 'thorough'
    El = R.E
    dm = R.make_doc([El('r', None, [El('x', [('i', '1')]), El('z', [('i', '2')], [El('x')]), El('y'), El('z', None, ['t'])])], name='MAIN')
    do = R.make_doc([El('r', None, [El('y', [('i', '1')]), El('x'), El('y', None, [El('z')]), El('w')])], name='OTHER')
    dr = R.make_doc([El('q', None, [El('z'), 't', El('x', [('i', '9')]), El('z')])], name='RTF')
    trees = {'m': (dm, ''), 'o': (do, "document('o.xml')"), 'f': (dr, 'xalan:nodeset($f)')}
    # the last operand is a key() result: every child of r is indexed twice under the same value (two declarations of one name)
    OPS = [('m', '/r/x'), ('m', '/r/z'), ('m', '//x|/r/y'), ('o', '/r/y'), ('o', '//z|/r/w'), ('f', '/q/z'), ('f', '//@i|/q/x'), ('m', "key('kk','v')")]
    KEYREF = {"key('kk','v')": '/r/*'}

    def optext(t, pth):
        pre = trees[t][1]
        if not pre:
            return pth
        return '|'.join(pre + a for a in pth.split('|'))
    combos = [(k,) for k in range(len(OPS))]
    for n in (2, 3) + ((4,) if thorough else ()):
        combos += list(itertools.permutations(range(len(OPS)), n))
    if not thorough:
        combos += [(a, b_, a) for a in range(len(OPS)) for b_ in range(len(OPS)) if a != b_]       # an operand that returns to a tree already seen
    else:
        combos += [(a, b_, a, c) for a in range(len(OPS)) for b_ in range(len(OPS)) for c in range(len(OPS)) if a != b_]
    w = vlib.Worker('xdrv', stderr_path=os.path.join(vlib.BUILD, 'tmp', 'c12m.%d.err' % shard))
    counts = {'multi_evaluations': 0, 'multi_nontrivial': 0}
    viols = []
    B = 60
    batches = [combos[i:i + B] for i in range(0, len(combos), B)]
    refsets = {}
    for i, (t, pth) in enumerate(OPS):
        d = trees[t][0]
        v = X.evaluate(xpparse.parse_text(KEYREF.get(pth, pth)), X.Ctx(d.root))
        refsets[i] = [(t, d.path(n)) for n in v]
    order = {t: {d.path(n): k for k, n in enumerate(d.nodes)} for t, (d, _) in trees.items()}
    for bi, batch in enumerate(batches):
        if bi % nshards != shard:
            continue
        body = ''.join('<u i="%d"><xsl:for-each select="%s"><h t="{generate-id(/)}"><xsl:call-template name="path"/></h></xsl:for-each></u>'
                       % (i, ' | '.join(optext(*OPS[k]) for k in combo).replace('&', '&amp;').replace('<', '&lt;').replace('"', '&quot;')) for i, combo in enumerate(batch))
        xsl = ('<xsl:stylesheet version="1.0" xmlns:xsl="http://www.w3.org/1999/XSL/Transform" xmlns:xalan="http://xml.apache.org/xalan" exclude-result-prefixes="xalan">'
               '<xsl:key name="kk" match="r/*" use="\'v\'"/><xsl:key name="kk" match="r/*" use="string(\'v\')"/>'
               '<xsl:variable name="f"><xsl:copy-of select="document(\'f.xml\')/node()"/></xsl:variable><xsl:template match="/"><out m="{generate-id(/)}" o="{generate-id(document(\'o.xml\'))}" '
               'f="{generate-id(xalan:nodeset($f))}">%s</out></xsl:template>%s</xsl:stylesheet>' % (body, c02.VARS_PATH_TEMPLATES))
        try:
            r = w.request('tr', xsl, dm.to_xml(), 'r:o.xml=' + do.to_xml(), 'r:f.xml=' + dr.to_xml())
        except vlib.WorkerDied as wd:
            viols.append(('multi|fatal|batch %d' % bi, {'stderr': wd.stderr_tail[-1200:]}))
            continue
        if r[0] != '0':
            viols.append(('multi|transform-error|%s' % r[1][:80], {'error': r[1][:300]}))
            continue
        out = R.parse_xml(r[2])
        ids = {a.value: a.local for a in out.docel.attrs}
        for u in out.docel.children:
            if u.kind != R.ELEM:
                continue
            i = int(u.attrs[0].value)
            combo = batch[i]
            got = [(ids.get(h.attrs[0].value, '?'), h.string_value().strip()) for h in u.children if h.kind == R.ELEM]
            want = set()
            for k in combo:
                want |= set(refsets[k])
            counts['multi_evaluations'] += 1
            if len(set(t for t, _ in want)) > 1:
                counts['multi_nontrivial'] += 1
            text = ' | '.join(optext(*OPS[k]) for k in combo)
            kind = None
            if len(got) != len(set(got)):
                kind = 'duplicates'
            elif set(got) != want:
                kind = 'different-set'
            else:
                seen = []
                for t, _ in got:
                    if not seen or seen[-1] != t:
                        if t in seen:
                            kind = 'documents-interleaved'
                            break
                        seen.append(t)
                if kind is None:
                    for t in set(t for t, _ in got):
                        seq = [order[t][p_] for tt, p_ in got if tt == t]
                        if seq != sorted(seq):
                            kind = 'out-of-document-order'
            if kind:
                viols.append(('multi|%s|%s' % (kind, text), {'expr': text, 'got': got, 'expected_set': sorted(want)}))
    w.close()
    return {'counts': counts, 'viols': viols, 'samples': ['multi: %s' % ' | '.join(optext(*OPS[k]) for k in combos[len(combos) // 2])] if shard == 0 else []}


def main():
    tier, replay = vlib.tier_from_argv()
    if replay:
        rec = json.load(open(replay))
        if 'expr' in rec['detail']:
            return c02.replay(replay)
        print(rec['detail'])
        return
    t0 = time.time()
    counts, viols, samples = vlib.run_cpp_sharded('c12', [tier])
    res = vlib.run_sharded(c02.shard_main, (tier, 'order'))
    ccounts = vlib.merge_counts([r['counts'] for r in res])
    viols += [vlib.Violation('expr-' + sig, det) for r in res for sig, det in r['viols']]
    rres = vlib.run_sharded(rtf_shard, (tier,))
    rcounts = vlib.merge_counts([r['counts'] for r in rres])
    viols += [vlib.Violation(sig, det) for r in rres for sig, det in r['viols']]
    mres = vlib.run_sharded(multi_shard, (tier,))
    mcounts = vlib.merge_counts([r['counts'] for r in mres])
    viols += [vlib.Violation(sig, det) for r in mres for sig, det in r['viols']]
    cov = {
        'states': counts.get('states', 0),
        'transitions': counts.get('transitions', 0),
        'traces_validated_against_impl': counts.get('transitions', 0),
        'samples': samples[:8] + [x for r in res for x in r['samples']][:3] + [x for r in rres for x in r['samples']][:2],
        'max_depth': counts.get('max_depth', 0),
        'pairs_checked': counts.get('pairs', 0),
        'expression_evaluations': ccounts.get('evaluations', 0),
        'expression_cases': ccounts.get('cases', 0),
        'rtf_evaluations': rcounts.get('rtf_evaluations', 0), 'rtf_cases': rcounts.get('rtf_cases', 0), 'rtf_transformations': rcounts.get('rtf_transformations', 0),
        'multi_tree_union_evaluations': mcounts.get('multi_evaluations', 0),
        'evaluations': counts.get('evaluations', 0) + ccounts.get('evaluations', 0) + rcounts.get('rtf_evaluations', 0) + mcounts.get('multi_evaluations', 0),
        'distinct_nontrivial': counts.get('bfs_nontrivial_states', 0) + ccounts.get('nontrivial', 0) + rcounts.get('rtf_nontrivial', 0) + mcounts.get('multi_nontrivial', 0),
        'rule': '(b) breadth-first search over ALL histories of {addNodeInDocOrder(n) for 8 nodes of two documents, 5 bulk '
                'addNodesInDocOrder with honest doc/reverse/unknown flags, clear} to depth 6 (quick) / 9 (thorough), states = (node '
                'sequence, order flag) de-duplicated; the search saturates (max_depth reported). Invariant in every state: no duplicate, '
                'per-document pre-order, documents not interleaved. Every transition is executed on the real MutableNodeRefList, so '
                'traces validated = transitions. (a) isNodeAfter for every ordered pair of non-document nodes of 4 documents in 3 '
                'representations (native indexed tree, Xerces wrapper built eagerly, Xerces wrapper in mapping mode) vs pre-order rank. '
                '(c) every node-set expression of the C02 families step1/step2/abbrev/filter/union x 5 documents x every context node: '
                'the delivered list equals the reference list in order. (d) the expressions of step1/abbrev/union(/filter) with every node of a '
                'RESULT TREE FRAGMENT as context (xalan:nodeset of a variable built by xsl:copy-of and by xsl:element/xsl:text/xsl:comment/PI '
                'instructions from 3 / 5 documents, one with mixed content): delivered order == reference order. (e) every ordered pair and triple '
                '(thorough: quadruple) of 7 union operands over three trees (main document, document() tree, result tree fragment), plus '
                'unions that return to a tree already seen: no duplicates, trees not interleaved, document order inside each tree. States that violate the '
                'invariant are reported and not expanded.',
        'exhaustive': counts.get('restart_cap_hit', 0) == 0,
    }
    vlib.finish('C12', tier, 'model_checking', cov, viols, t0,
                assumptions=['pre-order numbering with an element before its attributes before its children is the document order',
                             'lib/refxpath.py for part (c)'])


main()
