#!/usr/bin/env python3
"""C08: output options change only the lexical form, never the content. Result trees (all child sequences up to length 3 over
text / whitespace text / text needing escapes / element / comment / PI, two levels) x option vectors (all with <=2 deviations
from the default; the full product on a subset in thorough). xml: parsed tree equals the baseline's, except that indent may
insert whitespace-only text nodes where the baseline has none. text: exactly the concatenated text. html: parsed by HTML rules."""
import os, sys, time, json, itertools, re, html.parser
sys.path.insert(0, os.path.join(os.path.dirname(os.path.abspath(__file__)), '..', 'lib'))
import vlib, refdoc as R
import xml.parsers.expat

PROP = 'C08'
XSL = 'http://www.w3.org/1999/XSL/Transform'

ITEMS = {
    'T': '<xsl:text>xt</xsl:text>',
    'W': '<xsl:text> </xsl:text>',
    'X': '<xsl:text>a&lt;b&amp;c&gt;d"\'</xsl:text>',
    'C': '<xsl:comment>c m</xsl:comment>',
    'P': '<xsl:processing-instruction name="pi">d d</xsl:processing-instruction>',
    'U': '<xsl:text>é€\U0001F600</xsl:text>',       # Latin-1, BMP beyond Latin-1, supplementary: raw / character reference per encoding
    'B': '<xsl:text>q]]&gt;</xsl:text>',          # text that ENDS in the CDATA terminator (split needed at the very end of a section)
}
INNER = ['', 'T', 'W', 'eTC', 'X', 'Ue', 'B', 'TB', 'Be', 'BT', 'BB']


def tree_xsl(seq, inner):
    out = []
    for it in seq:
        if it == 'E':
            body = ''.join(ITEMS[c] if c != 'e' else '<e2 b="1"/>' for c in inner)
            out.append('<e a="v w" b="&lt;&amp;&quot;é">%s</e>' % body)
        else:
            out.append(ITEMS[it])
    return ''.join(out)


def trees(tier):
    alpha = ['T', 'W', 'X', 'E', 'C', 'P', 'U']
    for n in range(0, 4):
        for seq in itertools.product(alpha, repeat=n):
            # adjacent text items merge into one text node: keep them, the comparison is on merged text
            inners = INNER if 'E' in seq else ['']
            for inner in inners:
                yield ''.join(seq), inner


# option dimensions: name -> list of (label, xsl:output attribute text, driver option)
DIMS = [
    ('indent', [('yes', ' indent="yes"', None), ('no', ' indent="no"', None)]),
    ('amount', [('0', ' xalan:indent-amount="0"', None), ('3', ' xalan:indent-amount="3"', None), ('api2', '', 'o:indent=2')]),
    ('encoding', [('UTF-16', ' encoding="UTF-16"', None), ('ISO-8859-1', ' encoding="ISO-8859-1"', None), ('US-ASCII', ' encoding="US-ASCII"', None),
                  ('apiLatin1', '', 'o:encoding=ISO-8859-1'),
                  # four bytes per unit: the stream needs several transcoder passes per chunk (written little endian without BOM)
                  ('UTF-32', ' encoding="UTF-32"', None)]),
    ('omit', [('yes', ' omit-xml-declaration="yes"', None)]),
    ('standalone', [('yes', ' standalone="yes"', None), ('no', ' standalone="no"', None)]),
    ('doctype', [('sys', ' doctype-system="d.dtd"', None), ('pub', ' doctype-system="d.dtd" doctype-public="-//X//Y"', None)]),
    ('cdata', [('e', ' cdata-section-elements="e"', None), ('out', ' cdata-section-elements="out e"', None)]),
    ('version', [('1.1', ' version="1.1"', None)]),
    ('media', [('mt', ' media-type="text/x"', None)]),
]


def option_vectors(tier, full=False):
    choices = [[(d, None)] + [(d, v) for v in vals] for d, vals in DIMS]
    if full:
        for combo in itertools.product(*choices):
            yield [c for c in combo if c[1] is not None]
        return
    idx = list(range(len(DIMS)))
    yield []
    for i in idx:
        for v in DIMS[i][1]:
            yield [(DIMS[i][0], v)]
    for i, j in itertools.combinations(idx, 2):
        for v in DIMS[i][1]:
            for w in DIMS[j][1]:
                yield [(DIMS[i][0], v), (DIMS[j][0], w)]


def stylesheet(seq, inner, vec, method=None):
    attrs = ''.join(v[1] for _, v in vec)
    if method:
        attrs += ' method="%s"' % method
    return ('<xsl:stylesheet version="1.0" xmlns:xsl="%s" xmlns:xalan="http://xml.apache.org/xalan" exclude-result-prefixes="xalan">'
            '<xsl:output%s/><xsl:template match="/"><out>%s</out></xsl:template></xsl:stylesheet>' % (XSL, attrs, tree_xsl(seq, inner)))


def parse_bytes(b):
    """bytes -> canonical tree; version 1.1 declarations are rewritten for expat; returns (canon, decl)"""
    m = re.match(rb'^(\xff\xfe|\xfe\xff)?', b)
    head = b[:200]
    if head.startswith(b'<\x00\x00\x00') or head.startswith(b'\xff\xfe\x00\x00'):
        # UTF-32 (little endian): the parsers at hand do not read it: decode here, hand the text over as UTF-8
        txt = b.decode('utf-32-le').lstrip('\ufeff')
        txt = txt.replace('version="1.1"', 'version="1.0"', 1).replace('encoding="UTF-32"', 'encoding="UTF-8"', 1)
        return R.parse_xml(txt.encode('utf-8'))
    is16 = head.startswith(b'\xff\xfe') or head.startswith(b'\xfe\xff') or b'\x00' in head[:4]
    if is16:
        txt = b.decode('utf-16')
        txt = txt.replace('version="1.1"', 'version="1.0"', 1)
        data = txt.encode('utf-16')
    else:
        data = b.replace(b'version="1.1"', b'version="1.0"', 1)
    d = R.parse_xml(data)
    return d


def align(base, got, path=''):
    """returns None if got equals base modulo inserted whitespace-only text nodes, else a description"""
    if base.kind != got.kind:
        return '%s: node kind %s vs %s' % (path, base.kind, got.kind)
    if base.kind == R.ELEM:
        if (base.uri, base.local) != (got.uri, got.local):
            return '%s: name' % path
        ba = sorted((a.uri or '', a.local, a.value) for a in base.attrs)
        ga = sorted((a.uri or '', a.local, a.value) for a in got.attrs)
        if ba != ga:
            return '%s: attributes %r vs %r' % (path, ba, ga)
    if base.kind in (R.TEXT, R.COMMENT):
        return None if base.value == got.value else '%s: %s %r vs %r' % (path, base.kind, base.value, got.value)
    if base.kind == R.PI:
        return None if (base.local, base.value) == (got.local, got.value) else '%s: pi' % path
    bi = 0
    bk = base.children
    for gi, g in enumerate(got.children):
        if bi < len(bk) and bk[bi].kind == g.kind and not (g.kind == R.TEXT and bk[bi].value != g.value and g.value.strip(' \t\r\n') == '' and bk[bi].kind != R.TEXT):
            r = align(bk[bi], g, '%s/%d' % (path, bi))
            if r is None:
                bi += 1
                continue
            if g.kind == R.TEXT and g.value.strip(' \t\r\n') == '' and bk[bi].kind != R.TEXT:
                continue
            return r
        if g.kind == R.TEXT and g.value.strip(' \t\r\n') == '' and (bi >= len(bk) or bk[bi].kind != R.TEXT):
            continue    # inserted whitespace-only text node where the baseline has no text node
        return '%s: child %d (%s) does not line up with baseline child %d' % (path, gi, g.kind, bi)
    if bi != len(bk):
        return '%s: %d baseline children missing' % (path, len(bk) - bi)
    return None


def vec_label(vec):
    return ','.join('%s=%s' % (d, v[0]) for d, v in vec) or 'default'


class TextTree(html.parser.HTMLParser):
    def __init__(self):
        html.parser.HTMLParser.__init__(self, convert_charrefs=True)
        self.events = []

    def handle_starttag(self, tag, attrs):
        self.events.append(('start', tag, tuple(attrs)))

    def handle_endtag(self, tag):
        self.events.append(('end', tag))

    def handle_data(self, data):
        if self.events and self.events[-1][0] == 'data':
            self.events[-1] = ('data', self.events[-1][1] + data)
        else:
            self.events.append(('data', data))

    def handle_comment(self, data):
        self.events.append(('comment', data))

    def handle_pi(self, data):
        self.events.append(('pi', data))


HTML_XSL = ('<xsl:stylesheet version="1.0" xmlns:xsl="%s" xmlns:xalan="http://xml.apache.org/xalan" exclude-result-prefixes="xalan"><xsl:output%%s/><xsl:template match="/"><html><head><title>t&amp;t</title>'
            '<script>if (a &lt; b &amp;&amp; c) x("%%s");</script><style>p &gt; b {}</style></head><body><p id="a&lt;b">x<br/>y &lt; z &amp; w &lt;b&gt;m&lt;/b&gt; &amp;amp;</p><hr/><img src="u v.png" alt="&lt;"/>'
            '<input type="checkbox" checked="checked" disabled="disabled"/><a href="http://x/a b?c=d&amp;e=é中ह">l</a><textarea> k </textarea><pre> p\n q</pre>%%s</body></html></xsl:template></xsl:stylesheet>' % XSL)


def html_expect_events(extra):
    ev = [('start', 'html'), ('start', 'head'), ('start', 'title'), ('data', 't&t'), ('end', 'title'),
          ('start', 'script'), ('data', 'if (a < b && c) x("%s");' % extra), ('end', 'script'), ('start', 'style'), ('data', 'p > b {}'), ('end', 'style'), ('end', 'head'),
          ('start', 'body'), ('start', 'p'), ('data', 'x'), ('start', 'br'), ('data', 'y < z & w <b>m</b> &amp;'), ('end', 'p'), ('start', 'hr'), ('start', 'img'),
          ('start', 'input'), ('start', 'a'), ('data', 'l'), ('end', 'a'), ('start', 'textarea'), ('data', ' k '), ('end', 'textarea'),
          ('start', 'pre'), ('data', ' p\n q'), ('end', 'pre')]
    return ev


def shard_main(shard, nshards, tier):
    thorough = tier == 'thorough'
    w = vlib.Worker('xdrv', stderr_path=os.path.join(vlib.BUILD, 'tmp', 'c08.%d.err' % shard))
    counts = {'evaluations': 0, 'transformations': 0, 'nontrivial': 0, 'trees': 0}
    viols = []
    samples = []
    vecs = list(option_vectors(tier))
    fullvecs = list(option_vectors(tier, True)) if thorough else []
    src = '<r/>'
    for ti, (seq, inner) in enumerate(trees(tier)):
        if ti % nshards != shard:
            continue
        counts['trees'] += 1
        try:
            rb = w.request('tr', stylesheet(seq, inner, []), src)
        except vlib.WorkerDied as wd:
            viols.append(('xml|fatal|default|%s/%s' % (seq, inner), {'stderr': wd.stderr_tail[-1000:]}))
            continue
        if rb[0] != '0':
            viols.append(('xml|baseline-error|%s/%s' % (seq, inner), {'err': rb[1]}))
            continue
        base = R.parse_xml(rb[2].encode('utf-8', 'surrogateescape'))
        text_expect = base.docel.string_value()
        use = vecs + (fullvecs if (thorough and ti % 40 == 0) else [])
        for vec in use:
            opts = [v[2] for _, v in vec if v[2]]
            try:
                r = w.request('tr', stylesheet(seq, inner, vec), src, *opts)
            except vlib.WorkerDied as wd:
                viols.append(('xml|fatal|%s' % vec_label(vec), {'tree': seq + '/' + inner, 'stderr': wd.stderr_tail[-1000:]}))
                continue
            counts['transformations'] += 1
            counts['evaluations'] += 1
            if vec:
                counts['nontrivial'] += 1
            lab = vec_label(vec)
            if r[0] != '0':
                viols.append(('xml|transform-error|%s' % lab, {'tree': seq + '/' + inner, 'err': r[1]}))
                continue
            raw = r[2].encode('utf-8', 'surrogateescape')
            try:
                encs = [v[0] for d, v in vec if d == 'encoding']
                if any(d == 'omit' for d, v in vec) and encs and encs[0] in ('ISO-8859-1', 'apiLatin1', 'US-ASCII') and not raw.startswith(b'<?xml '):
                    # without a declaration the parser cannot know a non-UTF encoding: decode with the requested one
                    # (standalone= makes this processor write the declaration in spite of omit-xml-declaration: then it is believed)
                    raw = raw.decode('latin-1').encode('utf-8')
                got = parse_bytes(raw)
            except Exception as e:
                viols.append(('xml|not-well-formed|%s' % lab, {'tree': seq + '/' + inner, 'error': str(e), 'output': r[2][:600]}))
                continue
            # an indent amount (xalan:indent-amount, setIndent) turns indenting on in this processor: same allowance as indent="yes"
            indent_on = any((d == 'indent' and v[0] == 'yes') or d == 'amount' for d, v in vec)
            if indent_on:
                diff = align(base.docel, got.docel)
            else:
                diff = None if R.canon(base.root) == R.canon(got.root) else 'trees differ'
                if diff:
                    diff = align(base.docel, got.docel) or 'whitespace inserted although indent is not on'
            if diff:
                viols.append(('xml|content-changed|%s|%s' % (lab, re.sub(r'[0-9]+', 'N', diff.split(':')[-1].strip())[:60]),
                              {'tree': seq + '/' + inner, 'difference': diff, 'baseline': rb[2][:600], 'output': r[2][:600]}))
        # method=text
        for enc in ('', 'UTF-16', 'ISO-8859-1'):
            vec = [('encoding', (enc, ' encoding="%s"' % enc, None))] if enc else []
            r = w.request('tr', stylesheet(seq, inner, vec, 'text'), src)
            counts['transformations'] += 1
            counts['evaluations'] += 1
            if r[0] != '0':
                viols.append(('text|transform-error|%s' % (enc or 'default'), {'tree': seq + '/' + inner, 'err': r[1]}))
                continue
            raw = r[2].encode('utf-8', 'surrogateescape')
            try:
                got = raw.decode('utf-16') if enc == 'UTF-16' else (raw.decode('latin-1') if enc == 'ISO-8859-1' else raw.decode('utf-8'))
            except Exception as e:
                got = 'UNDECODABLE %s' % e
            exp = text_expect if enc != 'ISO-8859-1' else text_expect.replace('€', '?')
            if got.lstrip('﻿') != exp and not (enc == 'ISO-8859-1' and ('€' in text_expect or '\U0001F600' in text_expect)):
                viols.append(('text|wrong-text|%s' % (enc or 'default'), {'tree': seq + '/' + inner, 'expected': exp, 'got': got[:300]}))
        if len(samples) < 3 and ti % 211 == shard:
            samples.append('tree %s/%s x %d option vectors' % (seq, inner, len(use)))
    # long text with a character outside the BMP at every offset round the 512-unit stream buffer (text, html and xml methods)
    EMO = '\U0001F600'
    for method in ('text', 'html', 'xml'):
        for n in list(range(505, 517)) + list(range(1017, 1029)):
            if (n % nshards) != shard:
                continue
            xsl = ('<xsl:stylesheet version="1.0" xmlns:xsl="%s"><xsl:output method="%s"/><xsl:template match="/"><o><xsl:value-of select="."/></o></xsl:template></xsl:stylesheet>' % (XSL, method))
            body = 'a' * n + EMO + 'b'
            try:
                r = w.request('tr', xsl, '<r>' + body + '</r>')
            except vlib.WorkerDied as wd:
                viols.append(('%s|fatal-or-hang|non-BMP character at stream offset' % method, {'offset': n, 'how': str(wd.rc)}))
                continue
            counts['transformations'] += 1
            counts['evaluations'] += 1
            counts['nontrivial'] += 1
            out = r[2].encode('utf-8', 'surrogateescape').decode('utf-8', 'replace')
            ok = r[0] == '0' and ((method == 'text' and out == body) or (method == 'xml' and ('>' + body + '<') in out) or
                                  (method == 'html' and (('>' + body + '<') in out or ('>' + 'a' * n + '&#128512;b<') in out)))
            if not ok:
                viols.append(('%s|wrong-output|non-BMP character at stream offset' % method, {'offset': n, 'rc': r[0], 'err': r[1][:200], 'output_tail': out[-60:]}))
    # html: one document, option vectors with <=2 deviations over the html-relevant dimensions
    if shard == 0:
        for vec in [v for v in vecs if all(d in ('indent', 'amount', 'encoding', 'omit', 'media') for d, _ in v)]:
            extra = '&lt;/p&gt;'
            attrs = ' method="html"' + ''.join(v[1] for _, v in vec)
            opts = [v[2] for _, v in vec if v[2]]
            xsl = HTML_XSL % (attrs, 'q', '')
            r = w.request('tr', xsl, src, *opts)
            counts['transformations'] += 1
            counts['evaluations'] += 1
            lab = vec_label(vec)
            if r[0] != '0':
                viols.append(('html|transform-error|%s' % lab, {'err': r[1]}))
                continue
            raw = r[2].encode('utf-8', 'surrogateescape')
            enc = [v[0] for d, v in vec if d == 'encoding']
            try:
                txt = raw.decode('utf-32-le').lstrip('\ufeff') if 'UTF-32' in enc else raw.decode('utf-16') if 'UTF-16' in enc else raw.decode('latin-1' if ('ISO-8859-1' in enc or 'apiLatin1' in enc) else ('ascii' if 'US-ASCII' in enc else 'utf-8'))
            except Exception as e:
                viols.append(('html|undecodable|%s' % lab, {'error': str(e)}))
                continue
            p = TextTree()
            p.feed(txt)
            ev = []
            for e in p.events:
                if e[0] == 'data':
                    if e[1].strip(' \t\r\n') == '' and not (ev and ev[-1][:2] in (('start', 'textarea'), ('start', 'pre'))):
                        continue
                    ev.append(('data', e[1]))
                elif e[0] == 'start':
                    if e[1] == 'meta':
                        continue
                    if e[1] == 'a':
                        # URL attributes may be written with %XX escapes (UTF-8): the decoded value must be the requested one
                        import urllib.parse
                        href = dict(e[2]).get('href', '')
                        if urllib.parse.unquote(href, errors='replace') != 'http://x/a b?c=d&e=é中ह':
                            viols.append(('html|url-attribute-changed|%s' % lab, {'href': href, 'decoded': urllib.parse.unquote(href, errors='replace')}))
                    ev.append(('start', e[1]))
                elif e[0] == 'end':
                    ev.append(('end', e[1]))
            exp = html_expect_events('q')
            # trim insignificant leading/trailing whitespace in ordinary text (indent may add it around blocks), keep inside pre/textarea
            def norm(evs):
                out = []
                for i, e in enumerate(evs):
                    if e[0] == 'data' and not (out and out[-1] in (('start', 'textarea'), ('start', 'pre'), ('start', 'script'), ('start', 'style'))):
                        out.append(('data', e[1].strip(' \t\r\n')))
                    else:
                        out.append(e)
                return [e for e in out if e not in (('end', 'body'), ('end', 'html'))]
            if norm(ev) != norm(exp):
                a_, b_ = norm(ev), norm(exp)
                k = next((i for i in range(min(len(a_), len(b_))) if a_[i] != b_[i]), min(len(a_), len(b_)))
                viols.append(('html|structure-differs|%s' % lab, {'first_difference': [a_[k:k + 2], b_[k:k + 2]], 'output': txt[:1200]}))
            if re.search(r'</(br|hr|img|input)>', txt, re.I) or re.search(r'<(br|hr|img|input)[^>]*/>', txt, re.I):
                viols.append(('html|void-element-closed|%s' % lab, {'output': txt[:800]}))
            if 'checked="checked"' in txt or 'disabled="disabled"' in txt:
                viols.append(('html|boolean-attribute-not-minimised|%s' % lab, {'output': txt[:800]}))
    w.close()
    return {'counts': counts, 'viols': viols, 'samples': samples}


def main():
    tier, rp = vlib.tier_from_argv()
    if rp:
        print(json.dumps(json.load(open(rp))['detail'], indent=1)[:6000])
        return
    t0 = time.time()
    res = vlib.run_sharded(shard_main, (tier,))
    counts = vlib.merge_counts([r['counts'] for r in res])
    best = {}
    for r in res:
        for sig, det in r['viols']:
            if sig not in best or len(json.dumps(det)) < len(json.dumps(best[sig])):
                best[sig] = det
    viols = [vlib.Violation(sig, det) for sig, det in best.items()]
    cov = {
        'evaluations': counts['evaluations'],
        'distinct_nontrivial': counts['nontrivial'],
        'rule': 'Result trees: every child sequence of length 0..3 over {text, whitespace-only text, text with < & > quotes, element with attributes, '
                'comment, PI, non-ASCII text} below the document element, each element with 6 inner contents. Option vectors: every vector with '
                '<= 2 deviations from the default over indent, indent-amount (xsl:output and setIndent), encoding (UTF-16, ISO-8859-1, US-ASCII, '
                'setOutputEncoding), omit-xml-declaration, standalone, doctype-system/public, cdata-section-elements, version 1.1, media-type; the '
                'FULL product on every 40th tree in thorough. xml: the output is decoded and parsed (expat); the tree must equal the baseline tree; '
                'with indent=yes whitespace-only text nodes may appear only where the baseline has no text node. text: exactly the string value in '
                'the encoding. html: one document with script/style/void elements/boolean attributes/URL attributes parsed with an HTML parser.',
        'samples': [x for r in res for x in r['samples']][:5] or ['none'],
        'trees': counts['trees'], 'transformations': counts['transformations'],
        'exhaustive': True,
    }
    vlib.finish(PROP, tier, 'exploration', cov, viols, t0, assumptions=['expat / Python html.parser as the parsers'])


if __name__ == '__main__':
    main()
