#!/usr/bin/env python3
"""C04: XML output is well formed and parses back to exactly the result tree (harness/c04.cpp).

Bounded exhaustive enumeration of serializer x encoding x XML version x item kind x character item x offset relative
to the 512-unit writer buffers; every produced byte string is re-parsed by expat and libxml2."""
import os, sys, time, json, re, subprocess
sys.path.insert(0, os.path.join(os.path.dirname(os.path.abspath(__file__)), '..', 'lib'))
import vlib

# max_allocation_size_mb: one known defect (XalanOutputStream::transcode doubling its buffer for ever) must end quickly as
# a fatal outcome instead of eating the machine; quarantine: the cases are tiny, a small quarantine avoids page-fault churn.
ASAN = ('detect_leaks=0:abort_on_error=1:allocator_may_return_null=1:detect_stack_use_after_return=0:symbolize=0:'
        'max_allocation_size_mb=32:quarantine_size_mb=8')


def load_known_with_extra(prop, _orig=vlib.load_known):
    """KNOWN_FINDINGS.json plus, when VERIF_KNOWN_EXTRA names a file (proposed entries not merged yet), its entries."""
    known = _orig(prop)
    extra = os.environ.get('VERIF_KNOWN_EXTRA')
    if extra:
        with open(extra) as f:
            data = json.load(f)
        ents = data.get('findings', []) if isinstance(data, dict) else data
        known += [e for e in ents if e.get('property') == prop and e.get('status') == 'open']
    return known


vlib.load_known = load_known_with_extra

OFF_RE = re.compile(r'\boff=(\d+):(-?\d+)\b')
CASE_RE = re.compile(r'\bcase=([SE]:[^ )]+)')


NOFF_RE = re.compile(r'\bnoff=(\d+)\b')


def normalise(viols):
    """Harness signatures carry no offset. Failures seen at only some of the enumerated offsets get '|edge'.
    Fatal outcomes (isolate.hpp format) are rewritten to <ser>|<enc>|<ver>|<kind>|<item>|fatal(<how>)."""
    groups = {}
    for v in viols:
        sig = v.signature
        det = v.detail.get('case', '') if isinstance(v.detail, dict) else str(v.detail)
        f = sig.split('|')
        if len(f) >= 8 and f[1] == 'fatal':
            sig = '|'.join(f[3:8]) + '|fatal(%s)' % f[2]
        m = OFF_RE.search(det)
        off = m.group(0) if m else None
        g = groups.setdefault(sig, {'offs': set(), 'first': v, 'n': 0, 'noff': 0})
        g['n'] += 1
        if off:
            g['offs'].add(off)
        m = NOFF_RE.search(det)
        if m:
            g['noff'] = max(g['noff'], int(m.group(1)))
    out = []
    for sig, g in sorted(groups.items()):
        total = g['noff']   # offsets enumerated for the widest case family that collapsed onto this signature
        edge = 0 < len(g['offs']) < total
        det = g['first'].detail.get('case', '') if isinstance(g['first'].detail, dict) else str(g['first'].detail)
        m = CASE_RE.search(det)
        detail = {'case': det, 'replay_case': m.group(1) if m else None, 'failing_offsets': sorted(g['offs']),
                  'offsets_enumerated': total, 'raw_cases': g['n']}
        out.append(vlib.Violation(sig + ('|edge' if edge else ''), detail))
    return out


def replay(path):
    d = json.load(open(path))
    det = d.get('detail', {})
    case = det.get('replay_case')
    if not case:
        m = CASE_RE.search(json.dumps(det))
        case = m.group(1) if m else None
    print('signature: %s' % d.get('signature'))
    if not case:
        print('no replayable case in %s' % path)
        print(json.dumps(det, indent=1))
        sys.exit(2)
    env = dict(os.environ)
    env.update(vlib.ASAN_ENV)
    env['ASAN_OPTIONS'] = ASAN
    p = subprocess.run([os.path.join(vlib.HBIN, 'c04'), 'replay', case], env=env)
    if p.returncode < 0 or p.returncode > 2:
        print('replay ended abnormally: rc=%s (fatal outcome reproduced)' % p.returncode)
        sys.exit(1)
    sys.exit(p.returncode)


def wide_shard(shard, nshards, tier):
    """end to end through XalanTransformer with encodings whose transcoder needs several passes per stream chunk (4 bytes per unit:
    UTF-32; escape-sequence heavy: ISO-2022-JP): every text length 0..70 (thorough 0..1100: across two 512-unit chunks) x 6 content
    patterns; the bytes are decoded here (the XML parsers at hand do not read these encodings) and must parse back to the tree"""
    import refdoc as R
    w = vlib.Worker('xdrv', stderr_path=os.path.join(vlib.BUILD, 'tmp', 'c04w.%d.err' % shard))
    counts = {'wide_evaluations': 0, 'wide_nontrivial': 0}
    viols = []
    lens = range(0, 1101) if tier == 'thorough' else list(range(0, 71)) + list(range(500, 530)) + list(range(1010, 1040))
    pats = [('ascii', 'x'), ('latin', '\u00e9'), ('kana-ascii', '\u30a2a'), ('cjk', '\u4e2d'), ('astral', '\U00020000'), ('markup', '<&')]
    encs = [('UTF-32', 'utf-32-le'), ('ISO-2022-JP', 'iso2022_jp')]
    jobs = [(e, p, n) for e in encs for p in pats for n in lens]
    for ji, ((enc, codec), (pname, unit), n) in enumerate(jobs):
        if ji % nshards != shard:
            continue
        if enc == 'ISO-2022-JP' and pname in ('latin', 'astral'):
            continue        # not representable: character references, exercised by the other encodings
        text = (unit * (n // len(unit) + 1))[:n]
        xsl = ('<xsl:stylesheet version="1.0" xmlns:xsl="http://www.w3.org/1999/XSL/Transform"><xsl:output encoding="%s"/><xsl:template match="/">'
               '<o a="{/r}"><xsl:value-of select="/r"/><e/><xsl:comment>c</xsl:comment></o></xsl:template></xsl:stylesheet>' % enc)
        src = '<r>' + text.replace('&', '&amp;').replace('<', '&lt;') + '</r>'
        counts['wide_evaluations'] += 1
        try:
            r = w.request('tr', xsl, src)
        except vlib.WorkerDied as wd:
            viols.append(('wide|%s|%s|fatal' % (enc, pname), {'length': n, 'stderr': wd.stderr_tail[-800:]}))
            continue
        if r[0] != '0':
            viols.append(('wide|%s|%s|unexpected-error' % (enc, pname), {'length': n, 'error': r[1][:200]}))
            continue
        raw = r[2].encode('utf-8', 'surrogateescape')
        try:
            txt = raw.decode(codec).lstrip('\ufeff')
            txt = txt.replace('encoding="%s"' % enc, 'encoding="UTF-8"', 1)
            d = R.parse_xml(txt.encode('utf-8'))
            o = d.docel
            got = (o.local, [(a.local, a.value) for a in o.attrs], [(c.kind, c.value if c.kind in (R.TEXT, R.COMMENT) else c.local) for c in o.children])
        except Exception as e:
            viols.append(('wide|%s|%s|illformed' % (enc, pname), {'length': n, 'error': str(e)[:200], 'bytes': len(raw), 'head': raw[:80].hex(), 'tail': raw[-80:].hex()}))
            continue
        exp = ('o', [('a', text)], ([(R.TEXT, text)] if text else []) + [(R.ELEM, 'e'), (R.COMMENT, 'c')])
        counts['wide_nontrivial'] += 1
        if got != exp:
            viols.append(('wide|%s|%s|different-tree' % (enc, pname), {'length': n, 'expected_text_length': len(text), 'got': str(got)[:300]}))
    w.close()
    return {'counts': counts, 'viols': viols, 'samples': []}


def main():
    tier, rp = vlib.tier_from_argv()
    if rp:
        replay(rp)
    t0 = time.time()
    env = {'ASAN_OPTIONS': ASAN}
    counts, viols, samples = vlib.run_cpp_sharded('c04', [tier], env=env)
    harness_bad = [v for v in viols if v.signature.startswith('harness|')]
    viols = normalise([v for v in viols if not v.signature.startswith('harness|')]) + harness_bad
    wres = vlib.run_sharded(wide_shard, (tier,))
    wcounts = vlib.merge_counts([r['counts'] for r in wres])
    seenw = set()
    for r in wres:
        for sig, det in r['viols']:
            if sig not in seenw:
                seenw.add(sig)
                viols.append(vlib.Violation(sig, det))
    hist = {k[4:]: counts.get(k, 0) for k in ('out_ok', 'out_error_as_expected', 'out_unexpected_error', 'out_illformed',
                                              'out_different_tree', 'out_serializers_disagree', 'out_harness')}
    hist['fatal'] = counts.get('fatal_outcomes', 0)
    cov = {
        'evaluations': counts.get('evaluations', 0) + wcounts.get('wide_evaluations', 0),
        'distinct_nontrivial': counts.get('nontrivial', 0) + wcounts.get('wide_nontrivial', 0),
        'wide_encoding_evaluations': wcounts.get('wide_evaluations', 0),
        'rule': 'Family wide (end to end, UTF-32 and ISO-2022-JP, whose transcoders need several passes per stream chunk): every text length '
                '0..70 and around 512 and 1024 (thorough: every length 0..1100) x 6 content patterns in text and attribute value; decoded here. '
                'Every combination of serializer {XalanXMLSerializerFactory product, legacy FormatterToXML} x encoding {UTF-8, UTF-16, '
                'ISO-8859-1, US-ASCII, windows-1252 and GB18030 (both ICU transcoder)} x XML version {1.0, 1.1} x item kind {text, attribute '
                'value, CDATA section (cdata on), comment, PI data, element name, attribute name} x 35 character items (markup characters, '
                'TAB/CR/LF, ]]> ]] ], -- -, ?>, U+0080 U+0085 U+00FF U+0100 U+07FF U+0800 U+2028 U+FFFD U+FFFE U+FFFF U+10000 U+10FFFF, lone '
                'surrogates, U+0001 U+0008 U+007F U+009F, two spans followed in memory by "]>" / ">"; 5 non-ASCII letters for names) x '
                'every offset 512*m+d, m in {1,2}, d in -8..+8 of the item in the writer buffers (ASCII padding computed from a probe of '
                'the bytes already emitted, handed over in boundary-aligned chunks); thorough adds every ordered PAIR of adjacent items '
                '(33x33) at m=1, d in -8..+8. Each script is driven directly into the FormatterListener; the same trees (m=1, d in -4..+4) '
                'are also built by a real stylesheet through XalanTransformer (e2e; cdata-section-elements on for the cdata kind). Oracle: '
                'the bytes are parsed by expat and libxml2 (XML 1.1 rules applied by a pre-scan); they must be well formed and give the '
                'script tree, or the call must fail when the tree is not representable. Non-trivial (measured) = a buffer flush falls '
                'on/inside the item bytes, or the item was not written verbatim.',
        'samples': samples[:8] or ['none'],
        'space_singles': counts.get('space_singles', 0), 'space_pairs': counts.get('space_pairs', 0), 'space_e2e': counts.get('space_e2e', 0),
        'evaluations_factory': counts.get('evaluations_factory', 0), 'evaluations_legacy': counts.get('evaluations_legacy', 0),
        'evaluations_e2e': counts.get('evaluations_e2e', 0),
        'edge_touch_measured': counts.get('edge_touch', 0), 'escaped_measured': counts.get('escaped', 0),
        'outcomes': hist, 'distinct_outcomes': len([k for k, v in hist.items() if v]),
        'parsers_disagree': counts.get('parsers_disagree', 0),
        'violations_raw': counts.get('violations_raw', 0),
        'fatal_outcomes': counts.get('fatal_outcomes', 0),
        'cpu_s_serialize': round((counts.get('us_serialize_factory', 0) + counts.get('us_serialize_legacy', 0) + counts.get('us_serialize_e2e', 0)) / 1e6, 1),
        'cpu_s_parse': round(counts.get('us_parse', 0) / 1e6, 1),
        'exhaustive': counts.get('restart_cap_hit', 0) == 0,
    }
    vlib.finish('C04', tier, 'exploration', cov, viols, t0,
                assumptions=['expat 2.5 and libxml2 2.9 implement XML 1.0 well-formedness, line-end and attribute-value normalisation',
                             'XML 1.1 differences (restricted characters, NEL/LSEP line ends, references to C0 controls) are the 60-line pre-scan in harness/c04.cpp',
                             'offsets -8..+8 around the first two 512 boundaries stand for all offsets (buffers are stateless between flushes)',
                             'one or two adjacent items stand for all strings (escaping decisions look at most 2 units ahead)'],
                max_report=60)


main()
