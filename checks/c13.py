#!/usr/bin/env python3
"""C13: whitespace stripping acts as if the stripped text nodes were not in the source (metamorphic).
output(S + declarations, D) must equal output(S, strip(D, declarations)) for a stylesheet S of ~40 observers."""
import os, sys, time, json, itertools, copy
sys.path.insert(0, os.path.join(os.path.dirname(os.path.abspath(__file__)), '..', 'lib'))
import vlib, refdoc as R

PROP = 'C13'
XSL = 'http://www.w3.org/1999/XSL/Transform'

# declaration: (kind 'strip'|'preserve', name test text, module 'main'|'imp')
NAMES = ['*', 'a', 'b', 'p:*', 'p:a']


def decl_sets(tier):
    singles = [(k, n) for k in ('strip', 'preserve') for n in NAMES]
    out = []
    for s in singles:
        if s[0] == 'strip':
            out.append([s + ('main',)])
    for s1, s2 in itertools.combinations(singles, 2):
        if s1[0] == 'preserve' and s2[0] == 'preserve':
            continue
        if s1[1] == s2[1]:
            # same name stripped and preserved: decided by import precedence only (a tie is a recoverable error)
            out.append([s1 + ('main',), s2 + ('imp',)])
            out.append([s1 + ('imp',), s2 + ('main',)])
            continue
        out.append([s1 + ('main',), s2 + ('main',)])
        if tier == 'thorough' or (s1[1] in ('*', 'a') and s2[1] in ('a', 'p:*', 'p:a')):
            out.append([s1 + ('main',), s2 + ('imp',)])
            out.append([s1 + ('imp',), s2 + ('main',)])
    # several names in one attribute
    out.append([('strip', 'a b', 'main')])
    out.append([('strip', '*', 'main'), ('preserve', 'a p:a', 'main')])
    return out


def decl_priority(nametest):
    if nametest == '*':
        return -0.5
    if nametest.endswith(':*'):
        return -0.25
    return 0.0


def name_matches(nametest, elem):
    if nametest == '*':
        return True
    if nametest.endswith(':*'):
        return (elem.uri or '') == 'u1'
    if ':' in nametest:
        return (elem.uri or '') == 'u1' and elem.local == nametest.split(':')[1]
    return (elem.uri or '') == '' and elem.local == nametest


def strips(elem, decls):
    """does whitespace-only text directly inside elem get stripped under decls (ignoring xml:space)"""
    best = None
    for i, (kind, names, mod) in enumerate(decls):
        for nt in names.split():
            if name_matches(nt, elem):
                k = (1 if mod == 'main' else 0, decl_priority(nt), i)
                if best is None or k > best[0]:
                    best = (k, kind)
    return best is not None and best[1] == 'strip'


def is_ws(t):
    return t != '' and all(c in ' \t\r\n' for c in t)


def strip_doc(node, decls, preserve=False):
    """returns a deep copy of the subtree with the stripped whitespace text nodes removed"""
    n = R.Node(node.kind, node.prefix, node.local, node.uri, node.value)
    n.nsdecls = list(node.nsdecls)
    for a in node.attrs:
        n.add_attr(R.Node(R.ATTR, a.prefix, a.local, a.uri, a.value))
    pres = preserve
    if node.kind == R.ELEM:
        for a in node.attrs:
            if a.prefix == 'xml' and a.local == 'space':
                pres = (a.value == 'preserve')
    for c in node.children:
        if c.kind == R.TEXT and is_ws(c.value) and node.kind == R.ELEM and not pres and strips(node, decls):
            continue
        n.add(strip_doc(c, decls, pres))
    return n


def gen_docs(tier):
    thorough = tier == 'thorough'
    names = ['a', 'b', 'p:a']
    patterns = ['sp', 'nl', 'alt', 'first', 'last', 'text-first'] if thorough else ['sp', 'alt', 'first', 'text-first']
    docs = []
    for n in range(1, 4 if thorough else 3):
        for forest in R.tree_shapes(n):
            slots = R.count_nodes(forest)
            for labels in itertools.product(names, repeat=slots):
                for pat in patterns:
                    for xs in (None, 'preserve', 'default'):
                        if xs and not (pat == 'sp'):
                            continue
                        # the same tree once more with a default namespace on the root: its unprefixed elements are then in a
                        # namespace, and the unprefixed names of the declarations (no namespace) no longer match them
                        for defns in ((False, True) if (pat == 'sp' and xs is None) else (False,)):
                            it = iter(labels)
                            cnt = [0]

                            def gap():
                                cnt[0] += 1
                                k = cnt[0]
                                if pat == 'sp':
                                    return ' '
                                if pat == 'nl':
                                    return '\n\t'
                                if pat == 'alt':
                                    return ' ' if k % 2 else 't'
                                if pat == 'first':
                                    return ' ' if k == 1 else None
                                if pat == 'last':
                                    return None if k == 1 else ' '
                                if pat == 'text-first':
                                    return 't' if k == 1 else ' '
                                return None

                            def build(t, depth):
                                nm = next(it)
                                kids = []
                                g = gap()
                                if g:
                                    kids.append(R.T(g))
                                for c in t:
                                    kids.append(build(c, depth + 1))
                                    g2 = gap()
                                    if g2 and not (kids and kids[-1].kind == R.TEXT):
                                        kids.append(R.T(g2))
                                attrs = []
                                if xs and depth == 1:
                                    attrs.append(('xml:space', xs))
                                return R.E(nm, attrs, kids)

                            kids = []
                            g = gap()
                            if g:
                                kids.append(R.T(g))
                            for t in forest:
                                kids.append(build(t, 1))
                                g2 = gap()
                                if g2 and kids[-1].kind != R.TEXT:
                                    kids.append(R.T(g2))
                            rootattrs = [('xml:space', 'preserve')] if xs == 'default' else []
                            docs.append(R.make_doc([R.E('r', rootattrs, kids, ns=[('p', 'u1')] + ([('', 'u2')] if defns else []))]))
    return docs


OBSERVERS = '''
<o1><xsl:value-of select="count(//node())"/>,<xsl:value-of select="count(//text())"/>,<xsl:value-of select="count(//*/node())"/></o1>
<o2><xsl:for-each select="//*"><e n="{name()}" c="{count(node())}" t="{count(text())}" p="{position()}" l="{last()}" s="{string(.)}" sl="{string-length(.)}" ns="{normalize-space(.)}"
  f="{name(node()[1])}:{node()[1]=' '}" fl="{count(node()[last()]/preceding-sibling::node())}" fs="{name(following-sibling::node()[1])}" ps="{count(preceding-sibling::node())}"
  pt="{count(preceding::text())}" ft="{count(following::text())}" d="{count(descendant::text())}"/></xsl:for-each></o2>
<o3><xsl:for-each select="//text()"><t p="{position()}" l="{last()}" v="{.}" par="{name(..)}" i="{count(preceding-sibling::node())}"/></xsl:for-each></o3>
<o4><xsl:for-each select="//*/node()"><n p="{position()}" k="{name()}"/></xsl:for-each></o4>
<o5><xsl:copy-of select="/"/></o5>
<o6><xsl:apply-templates select="/" mode="b"/></o6>
<o7><xsl:for-each select="//node()"><k n="{count(key('kt', string(.)))}" m="{count(key('kp', name(..)))}"/></xsl:for-each></o7>
<o8><xsl:for-each select="//node()"><u><xsl:number level="any" count="text()|*"/>/<xsl:number level="multiple" count="text()|*" format="1."/>/<xsl:number count="text()"/></u></xsl:for-each></o8>
<o9><xsl:value-of select="//*[not(text())][1]/@none"/>|<xsl:value-of select="count(//*[text()=' '])"/>|<xsl:value-of select="count(//*[.=' '])"/>|<xsl:value-of select="count(//*[node()])"/>|<xsl:value-of select="string(//a[1]/node()[2])"/></o9>
<o10><xsl:apply-templates select="//*" mode="pos"/></o10>
<o11><xsl:for-each select="//*"><xsl:sort select="count(node())" data-type="number"/><xsl:sort select="string(.)"/><s n="{name()}" c="{count(node())}"/></xsl:for-each></o11>
<o13><xsl:value-of select="count(key('kt', //*))"/>|<xsl:value-of select="count(key('ks', //*))"/>|<xsl:for-each select="//*"><xsl:value-of select="count(key('ks', *|.))"/>,</xsl:for-each></o13>
<o12><xsl:value-of select="sum(//*[number(.)=number(.)])"/>|<xsl:value-of select="concat('[', //b, ']')"/>|<xsl:value-of select="boolean(//a/text())"/>|<xsl:value-of select="count(//text()[normalize-space()=''])"/></o12>
'''


def stylesheet(decls, with_decls, via_document=False):
    main_decl = ''
    imp_decl = ''
    for kind, names, mod in decls:
        x = '<xsl:%s-space elements="%s"/>' % (kind, names)
        if mod == 'main':
            main_decl += x
        else:
            imp_decl += x
    if not with_decls:
        main_decl = imp_decl = ''
    main = ('<xsl:stylesheet version="1.0" xmlns:xsl="%s" xmlns:p="u1" exclude-result-prefixes="p"><xsl:import href="imp.xsl"/>%s'
            '<xsl:key name="kt" match="text()" use="."/><xsl:key name="kp" match="node()" use="name(..)"/><xsl:key name="ks" match="*" use="."/>'
            '<xsl:template match="/"><out>%s</out></xsl:template>'
            '<xsl:template match="/" mode="b"><xsl:apply-templates mode="b"/></xsl:template>'
            '<xsl:template match="*" mode="b"><xsl:element name="{local-name()}"><xsl:apply-templates mode="b"/></xsl:element></xsl:template>'
            '<xsl:template match="*" mode="pos"><q n="{name()}"><xsl:apply-templates select="node()" mode="pos2"/></q></xsl:template>'
            '<xsl:template match="node()" mode="pos2"><i p="{position()}" l="{last()}"/></xsl:template>'
            '</xsl:stylesheet>' % (XSL, main_decl, ('<xsl:for-each select="document(\'d.xml\')">%s</xsl:for-each>' % OBSERVERS) if via_document else OBSERVERS))
    imp = '<xsl:stylesheet version="1.0" xmlns:xsl="%s" xmlns:p="u1">%s</xsl:stylesheet>' % (XSL, imp_decl)
    return main, imp


def shard_main(shard, nshards, tier):
    w = vlib.Worker('xdrv', stderr_path=os.path.join(vlib.BUILD, 'tmp', 'c13.%d.err' % shard))
    docs = gen_docs(tier)
    dsets = decl_sets(tier)
    thorough = tier == 'thorough'
    counts = {'evaluations': 0, 'transformations': 0, 'nontrivial': 0, 'documents': 0}
    viols = []
    samples = []
    plain_cache = {}
    for di, d in enumerate(docs):
        if di % nshards != shard:
            continue
        counts['documents'] += 1
        xml = d.to_xml()
        for si, decls in enumerate(dsets):
            stripped = R.make_doc([strip_doc(c, decls) for c in d.root.children])
            sxml = stripped.to_xml()
            with_main, with_imp = stylesheet(decls, True)
            no_main, no_imp = stylesheet(decls, False)
            try:
                r1 = w.request('tr', with_main, xml, 'r:imp.xsl=' + with_imp)
                if sxml not in plain_cache:
                    plain_cache[sxml] = w.request('tr', no_main, sxml, 'r:imp.xsl=' + no_imp)
                    counts['transformations'] += 1
                r2 = plain_cache[sxml]
            except vlib.WorkerDied as wd:
                viols.append(('fatal|%s' % decl_text(decls), {'xml': xml, 'stderr': wd.stderr_tail[-1500:]}))
                continue
            counts['transformations'] += 1
            counts['evaluations'] += 1
            if sxml != xml:
                counts['nontrivial'] += 1
            if r1[0] != '0' or r2[0] != '0':
                viols.append(('transform-error|%s' % decl_text(decls), {'xml': xml, 'r1': r1[:2], 'r2': r2[:2]}))
                continue
            if (thorough or si % 4 == 0) and r1[0] == '0' and r2[0] == '0' and r1[2] == r2[2]:
                # the same comparison with the document loaded through document(): stripping applies to every source tree
                dm, dimp = stylesheet(decls, True, True)
                try:
                    r3 = w.request('tr', dm, '<dummy/>', 'r:imp.xsl=' + dimp, 'r:d.xml=' + xml)
                    kd = ('doc', sxml)
                    if kd not in plain_cache:
                        pm, pimp = stylesheet(decls, False, True)
                        plain_cache[kd] = w.request('tr', pm, '<dummy/>', 'r:imp.xsl=' + pimp, 'r:d.xml=' + sxml)
                        counts['transformations'] += 1
                    r4 = plain_cache[kd]
                    counts['transformations'] += 1
                    counts['evaluations'] += 1
                    if r3[0] != '0' or r4[0] != '0':
                        viols.append(('document()|transform-error|%s' % decl_text(decls), {'xml': xml, 'r3': r3[:2], 'r4': r4[:2]}))
                    elif r3[2] != r4[2]:
                        o1 = R.parse_xml(r3[2]); o2 = R.parse_xml(r4[2])
                        obs = '?'
                        for a_, b_ in zip(o1.docel.children, o2.docel.children):
                            if R.canon(a_) != R.canon(b_):
                                obs = a_.local
                                break
                        viols.append(('document()|differs|%s|observer %s' % (decl_text(decls), obs),
                                      {'xml': xml, 'stripped_xml': sxml, 'decls': decls, 'with_declarations': r3[2][:3000], 'physically_stripped': r4[2][:3000]}))
                except vlib.WorkerDied as wd:
                    viols.append(('document()|fatal|%s' % decl_text(decls), {'xml': xml, 'stderr': wd.stderr_tail[-1500:]}))
            if r1[2] != r2[2]:
                # which observer differs first
                o1 = R.parse_xml(r1[2]); o2 = R.parse_xml(r2[2])
                obs = '?'
                for a_, b_ in zip(o1.docel.children, o2.docel.children):
                    if R.canon(a_) != R.canon(b_):
                        obs = a_.local
                        break
                viols.append(('differs|%s|observer %s' % (decl_text(decls), obs),
                              {'xml': xml, 'stripped_xml': sxml, 'decls': decls, 'with_declarations': r1[2][:3000], 'physically_stripped': r2[2][:3000]}))
        if len(samples) < 3 and di % 97 == shard:
            samples.append('%s with %d declaration sets' % (xml, len(dsets)))
    w.close()
    return {'counts': counts, 'viols': viols, 'samples': samples}


def decl_text(decls):
    return '; '.join('%s %s in %s' % d for d in decls)


def main():
    tier, rp = vlib.tier_from_argv()
    if rp:
        print(json.dumps(json.load(open(rp))['detail'], indent=1)[:8000])
        return
    t0 = time.time()
    res = vlib.run_sharded(shard_main, (tier,))
    counts = vlib.merge_counts([r['counts'] for r in res])
    best = {}
    for r in res:
        for sig, det in r['viols']:
            if sig not in best or len(det.get('xml', '')) < len(best[sig].get('xml', '')):
                best[sig] = det
    viols = [vlib.Violation(sig, det) for sig, det in best.items()]
    cov = {
        'evaluations': counts['evaluations'],
        'distinct_nontrivial': counts['nontrivial'],
        'rule': 'Documents: every ordered tree with 1..2 (quick) / 1..3 (thorough) elements below the root over names {a,b,p:a} x 4/6 whitespace '
                'placements in every gap (before/between/after children, only child, mixed with real text) + xml:space preserve/default variants. '
                'Declaration sets: every single strip-space over {*,a,b,p:*,p:a}, every pair of strip/preserve declarations, in the same module '
                'and split across an import (precedence) with different priorities (name > prefix:* > *), lists of names. For every (document, '
                'set): the output of a stylesheet with ~40 observers (child/descendant/sibling axes, position()/last(), count, string values, '
                'keys, xsl:number, copy-of, built-in rules, sort, sum) with the declarations on the original document must be byte-identical '
                'to the output of the same stylesheet without declarations on the document from which the harness removed the nodes. '
                'Non-trivial = at least one node is actually stripped. The same comparison is repeated with the document loaded through document() instead of being the main source (a quarter of the declaration sets in quick, all in thorough).',
        'samples': [x for r in res for x in r['samples']][:6] or ['none'],
        'documents': counts['documents'], 'transformations': counts['transformations'], 'declaration_sets': len(decl_sets(tier)),
        'exhaustive': True,
    }
    vlib.finish(PROP, tier, 'exploration', cov, viols, t0,
                assumptions=['the harness strip() implements XSLT 3.4 (name tests, import precedence, priority, xml:space)'])


if __name__ == '__main__':
    main()
