#!/usr/bin/env python3
"""C05: the result does not depend on how source, stylesheet and output are supplied.

Bounded EXHAUSTIVE configuration enumeration: the complete product
    source form (8) x stylesheet form (5) x result form (8) x API layer (3)  =  960 combinations
is requested for every stylesheet/document pair of a form-sensitive pair set; combinations that do not exist in the API are
answered 'na' (and counted), every existing one is run on a fresh transformer (harness/c05.cpp; the command line program is
run from here) and its canonicalised result is compared with the baseline combination (stream, stream, ostream, cpp)."""
import os, sys, re, json, time, itertools, subprocess, shutil
sys.path.insert(0, os.path.join(os.path.dirname(os.path.abspath(__file__)), '..', 'lib'))
import vlib, refdoc as R

PROP = 'C05'
X = 'xmlns:xsl="http://www.w3.org/1999/XSL/Transform"'
CLI = os.path.join(vlib.BUILD, 'asan', 'src', 'xalanc', 'Xalan')


def load_known_with_extra(prop, _orig=vlib.load_known):
    """KNOWN_FINDINGS.json plus, when VERIF_KNOWN_EXTRA names a file (proposed entries not merged yet), its entries."""
    known = _orig(prop)
    extra = os.environ.get('VERIF_KNOWN_EXTRA')
    if extra:
        with open(extra) as f:
            data = json.load(f)
        ents = data.get('findings', []) if isinstance(data, dict) else data
        known += [e for e in ents if e.get('property') == prop and e.get('status') == 'open']
    return known


vlib.load_known = load_known_with_extra

# ---------------------------------------------------------------------------------------------------------------------
# the configuration space

SRC = ['stream', 'file', 'parsed', 'parsed-xerces', 'xerces-wrap', 'builder', 'builder-split', 'st-wrap']
STY = ['stream', 'file', 'compiled', 'compiled-file', 'pi']
RES = ['ostream', 'file', 'callback', 'cdata', 'xerces-dom', 'source-tree', 'xerces-frag', 'source-tree-frag']
LAYER = ['cpp', 'c', 'cli']
DIMS = ['source', 'stylesheet', 'result', 'layer']
BASELINE = ('stream', 'stream', 'ostream', 'cpp')
TREE_BASELINE = ('stream', 'stream', 'xerces-dom', 'cpp')     # used only for html output that is not XML (see compare)
PRODUCT = list(itertools.product(SRC, STY, RES, LAYER))
TREE_RESULTS = ('xerces-dom', 'source-tree', 'xerces-frag', 'source-tree-frag')


def cli_valid(c):
    """Xalan [-t] [-a] [-p name expr] [-o file] source|- [stylesheet|-]
    file/stream(stdin) sources; stylesheet file, stdin or -a (xml-stylesheet PI); -t parses and compiles first and then
    transforms (parsed source handle, compiled stylesheet handle) - that is the 'parsed' x 'compiled-file' / 'pi' path."""
    src, sty, res, layer = c
    if res not in ('ostream', 'file'):
        return False
    if src == 'file':
        return sty in ('file', 'stream', 'pi')
    if src == 'stream':
        return sty in ('file', 'pi')
    if src == 'parsed':
        return sty in ('compiled-file', 'pi')
    return False


# ---------------------------------------------------------------------------------------------------------------------
# the pair set

def sheet(body, top='', method=None, extra_ns='', out_attrs=''):
    o = ''
    if method or out_attrs:
        o = '<xsl:output%s%s/>' % ((' method="%s"' % method) if method else '', (' ' + out_attrs) if out_attrs else '')
    return ('<xsl:stylesheet version="1.0" %s%s>%s%s<xsl:template match="/">%s</xsl:template></xsl:stylesheet>'
            % (X, (' ' + extra_ns) if extra_ns else '', o, top, body))


# describes one node in a way that does not depend on the supply form
DESC = ('<xsl:template name="d"><n k="{count(self::*)}{count(self::text())}{count(self::comment())}{count(self::processing-instruction())}'
        '{count(../@*[generate-id()=generate-id(current())])}" nm="{name()}" u="{namespace-uri()}"><xsl:value-of select="."/></n></xsl:template>')

D_MIX = ('<!--top1--><?tp   d1  ?><r x="1" y="2" xmlns:p="urn:p"><a id="i1" p:q="3">t1<b/>t2<!--c1--><?pi1 d?><b w="8" z="9">t3</b></a>'
         '<p:a>u</p:a><c xml:space="preserve"> <d/> </c><e> <d/>\n</e>tail</r><!--top2--><?tp2 d2?>')
D_ID = ('<!DOCTYPE r [<!ATTLIST e id ID #IMPLIED ref IDREFS #IMPLIED tok NMTOKENS #IMPLIED><!ATTLIST f def CDATA "dflt" n NMTOKEN "k">]>'
        '<r><e id="a1" ref=" a2   a3 " tok="  x   y ">A</e><e id="a2" ref="a1">B</e><g><e id="a3">C</e><e id="a4" ref="nosuch a3">D</e></g>'
        '<f/><f def="given"/><h id="a1">not an ID here</h></r>')
D_NS = ('<r xmlns="urn:d" xmlns:p="urn:p" xmlns:q="urn:q"><a p:x="1" x="2"/><b xmlns=""><c xmlns:q="urn:q2" q:y="3"/><p:d/></b>'
        '<q:e xmlns:p="urn:p2"><p:f/><g xmlns:z="urn:z"/></q:e></r>')
D_TEXT = ('<r><t>a&amp;b&lt;c&gt;d\r\ne\rf\ng&#13;h&#10;i\tj  k</t><m>one<i>two</i>three<!--x-->four<?p q?>five<j/><j/>six</m>'
          '<v a="x&#10;y\nz\tw&#9;q  r" b="" c="&lt;&amp;&quot;&apos;"/><w>\U0001F600 é中</w><z></z><z/></r>')
D_NUM = ('<r><s><i n="3">c</i><i n="1">a</i><k/><i n="2">b</i></s><s><i n="10">j</i><t><i n="9">i</i><i n="9">h</i></t></s>'
         '<i n="7">top</i></r>')
D_WS = '<r>\n <a> <b/> </a>\n <p xml:space="preserve"> <q> </q> </p>\n <a>x<b> </b> y </a>\n <k xml:space="default"> <l xml:space="preserve"> </l> </k>\n</r>'
D_LANG = '<r xml:lang="en"><a xml:lang="de-AT"><b/></a><c xml:lang=""><d/></c><e/></r>'
D_ATTR = '<r><e zeta="1" alpha="2" mid="3" Beta="4" xmlns:n="urn:n" n:alpha="5" beta="6"/><e b="1" a="2"/></r>'


def pad_doc(nchars):
    """string-value of the document = nchars+ characters, in 1000-character text nodes. (Not one long node and not thousands
    of short ones: XalanDOMString::append grows its buffer to the exact size, so both building one text node from
    one-character events and concatenating thousands of text nodes into a string-value are quadratic.)"""
    return '<r>' + ''.join('<t>' + ''.join('%04d%05d;' % (i, j) for j in range(100)) + '</t>' for i in range(nchars // 1000 + 2)) + '</r>'


def long_text_doc(nchars):
    return '<r><t>' + ''.join('%07d;' % i for i in range(nchars // 8)) + '</t><u>é</u></r>'

D_ENT = ('<!DOCTYPE r [<!ENTITY e "ent<i>x</i>ity"><!ENTITY pic SYSTEM "pic.gif" NDATA gif><!NOTATION gif SYSTEM "viewer">'
         '<!ATTLIST g img ENTITY #IMPLIED>]><r><t>a&e;b</t><g img="pic"/></r>')


def many(n):
    return '<r>' + ''.join('<i g="%d" n="%d"><j>%d</j></i>' % (i % 7, i, i) for i in range(n)) + '</r>'


def len_pair(n, method='text'):
    """output of exactly n bytes (text method) / exactly n bytes including declaration and wrapper (xml method)"""
    if method == 'text':
        return dict(name='len-text-%d' % n, method='text', D=pad_doc(n),
                    S=sheet('<xsl:value-of select="substring(/r,1,%d)"/>' % n, method='text'), explen=n)
    over = len('<?xml version="1.0" encoding="UTF-8"?><o></o>')
    return dict(name='len-xml-%d' % n, D=pad_doc(n), S=sheet('<o><xsl:value-of select="substring(/r,1,%d)"/></o>' % (n - over)), explen=n)


def build_pairs(tier):
    P = []

    def add(name, S, D, aux=None, params=(), expect='ok', **kw):
        m = re.search(r'<xsl:output[^>]*\smethod="(\w+)"', S)
        d = dict(name=name, S=S, D=D, method=m.group(1) if m else 'xml', aux=aux or {}, params=list(params), expect=expect)
        d.update(kw)
        P.append(d)

    # --- document order: unions and the long axes over every node kind (index based vs structural order)
    add('union-kinds', sheet('<o><xsl:for-each select="//b | //@* | //comment() | //processing-instruction() | //text() | /r | //p:a | /comment()">'
                             '<xsl:call-template name="d"/></xsl:for-each></o>', DESC, extra_ns='xmlns:p="urn:p"'), D_MIX)
    add('union-reverse-operands', sheet('<o><xsl:for-each select="/r/e/d | /r/c/@* | /r/a/b/@z | /r/a/b | /r/@y | /r/a/text() | /r/a/comment() | /r/@x">'
                                        '<xsl:call-template name="d"/></xsl:for-each></o>', DESC), D_MIX)
    add('preceding-following', sheet('<o><xsl:for-each select="//b | //b/@z | //c | //comment()[.=\'c1\'] | //p:a/text()">'
                                     '<c><p><xsl:for-each select="preceding::node()"><xsl:call-template name="d"/></xsl:for-each></p>'
                                     '<f><xsl:for-each select="following::node()"><xsl:call-template name="d"/></xsl:for-each></f></c></xsl:for-each></o>',
                                     DESC, extra_ns='xmlns:p="urn:p"'), D_MIX)
    add('reverse-axes-position', sheet('<o><xsl:for-each select="//d | //b[@z] | //b/@z">'
                                       '<c a1="{name(ancestor::*[1])}" a2="{name(ancestor::*[2])}" al="{name(ancestor::*[last()])}" '
                                       'p1="{name(preceding::*[1])}" p3="{name(preceding::*[3])}" ps="{count(preceding-sibling::node())}" '
                                       'ps1="{preceding-sibling::node()[1]}" f1="{name(following::*[1])}" fs="{count(following-sibling::node())}" '
                                       'aos="{count(ancestor-or-self::node())}" pt="{preceding::text()[1]}" pc="{preceding::comment()[1]}"/>'
                                       '</xsl:for-each></o>'), D_MIX)
    add('position-last-all-nodes', sheet('<o n="{count(//node())}" a="{count(//@*)}" ns="{count(//namespace::*[name()!=\'xml\'])}" t="{count(//text())}">'
                                         '<xsl:for-each select="//node()"><i p="{position()}" l="{last()}" s="{string-length(.)}" nm="{name()}"/></xsl:for-each></o>'), D_MIX)
    add('top-level-nodes', sheet('<o c="{count(/comment())}" p="{count(/processing-instruction())}" n="{count(/node())}" e="{name(/*)}" '
                                 'tp="{/processing-instruction(\'tp\')}" first="{name(/node()[1])}" last="{name(/node()[last()])}" '
                                 'fc="{/r/following::comment()}" pp="{name(/r/preceding::processing-instruction()[1])}">'
                                 '<xsl:for-each select="/node()"><xsl:call-template name="d"/></xsl:for-each></o>', DESC), D_MIX)
    add('identity-copy-of', sheet('<xsl:copy-of select="/"/>'), D_MIX)
    add('identity-templates', '<xsl:stylesheet version="1.0" %s><xsl:template match="@*|node()"><xsl:copy><xsl:apply-templates select="@*|node()"/></xsl:copy></xsl:template></xsl:stylesheet>' % X, D_MIX)
    add('kind-templates', '<xsl:stylesheet version="1.0" %s xmlns:p="urn:p"><xsl:template match="/"><o><xsl:apply-templates select="//node()|//@*"/></o></xsl:template>'
        '<xsl:template match="*"><e n="{name()}"/></xsl:template><xsl:template match="p:*" priority="2"><pe/></xsl:template><xsl:template match="text()"><t v="{.}"/></xsl:template>'
        '<xsl:template match="text()[normalize-space()=\'\']" priority="1"><ws l="{string-length()}"/></xsl:template><xsl:template match="comment()"><c v="{.}"/></xsl:template>'
        '<xsl:template match="processing-instruction()"><p n="{name()}" v="{.}"/></xsl:template><xsl:template match="processing-instruction(\'pi1\')" priority="1"><pi1/></xsl:template>'
        '<xsl:template match="@*"><a n="{name()}" v="{.}"/></xsl:template><xsl:template match="@p:q"><aq/></xsl:template><xsl:template match="b/@z" priority="3"><az p="{name(..)}"/></xsl:template>'
        '</xsl:stylesheet>' % X, D_MIX)
    add('parent-of-attr-ns', sheet('<o><xsl:for-each select="//@*"><a n="{name()}" p="{name(..)}" same="{count(..|../..)}" up="{count(ancestor::node())}"/></xsl:for-each>'
                                   '<xsl:for-each select="//*/namespace::*[name()!=\'xml\']"><xsl:sort select="concat(name(..),\'|\',name())"/><s n="{name()}" p="{name(..)}" v="{.}" up="{count(ancestor::node())}"/></xsl:for-each></o>'), D_MIX)

    # --- id(), keys, DTD supplied attribute defaults and normalisation
    add('id-function', sheet('<o a="{id(\'a1\')}" b="{count(id(\'a1 a3 a2 nosuch\'))}" h="{name(id(\'a1\'))}">'
                             '<xsl:for-each select="id(\'a3 a1\')"><i v="{.}"/></xsl:for-each><xsl:for-each select="//e"><r id="{@id}" ref="[{@ref}]" tok="[{@tok}]" n="{count(id(@ref))}" '
                             'names="{id(@ref)[1]}{id(@ref)[2]}"/></xsl:for-each><x><xsl:value-of select="id(//e/@ref)"/></x><y n="{count(id(id(\'a1\')/@ref))}"/></o>'), D_ID)
    add('dtd-defaults', sheet('<o n="{count(//f/@*)}" d="{count(//f[@def=\'dflt\'])}"><xsl:for-each select="//f"><f def="{@def}" n="{@n}" c="{count(@*)}"/></xsl:for-each><xsl:copy-of select="/r/f"/></o>'), D_ID)
    # XPath data model: there is no node for the document type declaration
    add('doctype-is-not-a-node', sheet('<o n="{count(/node())}" all="{count(//node())}" pre="{count(/r/preceding::node())}" sib="{count(/r/preceding-sibling::node())}" first="[{name(/node()[1])}]" second="[{name(/node()[2])}]">'
                                       '<xsl:for-each select="/node()"><i e="{count(self::*)}" p="{count(self::processing-instruction())}" nm="{name()}"><xsl:number count="node()"/></i></xsl:for-each></o>'), D_ID)
    add('key-basic', sheet('<o><xsl:for-each select="key(\'k\',\'b\') | key(\'k\',\'z\') | key(\'k\',\'id\')"><xsl:call-template name="d"/></xsl:for-each>'
                           '<c t="{count(key(\'t\',\'t\'))}" k1="{name(key(\'k\',\'d\')[1]/..)}" k2="{name(key(\'k\',\'d\')[2]/..)}"/></o>',
                           '<xsl:key name="k" match="*|@*" use="name()"/><xsl:key name="t" match="text()|comment()" use="substring(.,1,1)"/>' + DESC), D_MIX)
    add('key-muenchian', sheet('<o><xsl:for-each select="//i[generate-id()=generate-id(key(\'g\',@g)[1])]"><xsl:sort select="@g" data-type="number"/>'
                               '<g k="{@g}" n="{count(key(\'g\',@g))}" first="{key(\'g\',@g)[1]/@n}" last="{key(\'g\',@g)[last()]/@n}" sum="{sum(key(\'g\',@g)/j)}"/></xsl:for-each></o>',
                               '<xsl:key name="g" match="i" use="@g"/>'), many(60))
    add('key-idrefs', sheet('<o><xsl:for-each select="//e"><e id="{@id}" k="{count(key(\'byref\',@id))}" who="{key(\'byref\',@id)/@id}"/></xsl:for-each></o>',
                            '<xsl:key name="byref" match="e" use="id(@ref)/@id"/>'), D_ID)

    # --- namespaces
    add('namespace-axis', sheet('<o><xsl:for-each select="//*"><e n="{name()}" u="{namespace-uri()}" l="{local-name()}" c="{count(namespace::*[name()!=\'xml\'])}">'
                                '<xsl:for-each select="namespace::*[name()!=\'xml\']"><xsl:sort select="name()"/><s p="{name()}" l="{local-name()}" u="{.}" nu="{namespace-uri()}"/></xsl:for-each>'
                                '<xsl:for-each select="@*"><xsl:sort select="name()"/><a n="{name()}" u="{namespace-uri()}" l="{local-name()}"/></xsl:for-each></e></xsl:for-each></o>'), D_NS)
    add('namespace-copy', sheet('<o><x><xsl:copy-of select="//*[local-name()=\'c\']"/></x><y><xsl:for-each select="//*[local-name()=\'f\']"><xsl:copy/></xsl:for-each></y>'
                                '<z><xsl:copy-of select="//*[local-name()=\'g\']/namespace::*"/></z><w><xsl:copy-of select="/*/*[1]"/></w></o>'), D_NS)
    add('namespace-identity', sheet('<xsl:copy-of select="/"/>'), D_NS)
    add('default-namespace-match', '<xsl:stylesheet version="1.0" %s xmlns:d="urn:d" xmlns:pp="urn:p" exclude-result-prefixes="d pp"><xsl:template match="/"><o><xsl:apply-templates select="//*"/></o></xsl:template>'
        '<xsl:template match="d:*"><d n="{name()}"/></xsl:template><xsl:template match="d:a" priority="1"><da x="{@x}" px="{@pp:x}"/></xsl:template>'
        '<xsl:template match="pp:*"><p n="{local-name()}" u="{namespace-uri()}"/></xsl:template><xsl:template match="*"><none n="{name()}" u="{namespace-uri()}"/></xsl:template></xsl:stylesheet>' % X, D_NS)
    add('generated-prefixes', sheet('<o><xsl:for-each select="//*"><xsl:element name="{local-name()}" namespace="urn:gen:{position() mod 3}"><xsl:attribute name="q" namespace="urn:att:{position() mod 2}">v</xsl:attribute>'
                                    '<xsl:attribute name="p:r" namespace="urn:other">w</xsl:attribute></xsl:element></xsl:for-each></o>'), D_NS)
    # the implicit xml namespace node, observed by this pair ONLY (the other namespace pairs leave it out)
    add('xml-namespace-node', sheet('<o><xsl:for-each select="//*"><e n="{name()}" c="{count(namespace::xml)}" v="{namespace::xml}" all="{count(namespace::*)}"/></xsl:for-each></o>'), D_NS)
    # XPath 5: namespace nodes precede attribute nodes (element c declares xmlns:q and has q:y, which sorts before "xmlns:q")
    add('ns-before-attr', sheet('<o><xsl:for-each select="//*"><e n="{name()}"><xsl:for-each select="@* | namespace::*[name()!=\'xml\']"><i k="{count(../@*[generate-id()=generate-id(current())])}"/></xsl:for-each></e></xsl:for-each></o>'), D_NS)
    add('lang', sheet('<o><xsl:for-each select="//*"><e n="{name()}" en="{lang(\'en\')}" de="{lang(\'de\')}" deat="{lang(\'DE-at\')}" l="{ancestor-or-self::*[@xml:lang][1]/@xml:lang}"/></xsl:for-each></o>'), D_LANG)

    # --- generate-id
    add('generate-id', sheet('<o same="{generate-id(//b[1])=generate-id((//b)[1])}" diff="{generate-id(//b[1])=generate-id((//b)[2])}" root="{generate-id(/)=generate-id(/r/..)}" '
                             'empty="[{generate-id(/nosuch)}]" alpha="{translate(substring(generate-id(),1,1),\'abcdefghijklmnopqrstuvwxyzABCDEFGHIJKLMNOPQRSTUVWXYZ_\',\'\')=\'\'}">'
                             '<xsl:for-each select="//node()|//@*"><i u="{count(//node()[generate-id()=generate-id(current())] | //@*[generate-id()=generate-id(current())])}" '
                             'ok="{translate(generate-id(),\'abcdefghijklmnopqrstuvwxyzABCDEFGHIJKLMNOPQRSTUVWXYZ0123456789_-.\',\'\')=\'\'}"/></xsl:for-each></o>'), D_MIX)

    # --- xsl:number, sort
    add('number-levels', sheet('<o><xsl:for-each select="//i"><n s="{@n}"><a><xsl:number/></a><b><xsl:number level="multiple" count="i|s|t" format="1.a.i"/></b><c><xsl:number level="any"/></c>'
                               '<d><xsl:number level="any" from="s" count="i|k"/></d><e><xsl:number level="any" count="node()"/></e><f><xsl:number count="*"/></f></n></xsl:for-each></o>'), D_NUM)
    add('number-mixed-kinds', sheet('<o><xsl:for-each select="//node()"><n k="{name()}"><xsl:number level="any" count="text()|comment()|processing-instruction()|b"/>/'
                                    '<xsl:number level="single" count="node()"/></n></xsl:for-each></o>'), D_MIX)
    add('sort', sheet('<o><xsl:for-each select="//i"><xsl:sort select="@n" data-type="number" order="descending"/><xsl:sort select="."/><i n="{@n}" v="{.}" p="{position()}"/></xsl:for-each>'
                      '<xsl:for-each select="//i"><xsl:sort select="@n"/><j n="{@n}" v="{.}"/></xsl:for-each></o>'), D_NUM)

    # --- whitespace
    add('strip-space', sheet('<o t="{count(//text())}" n="{count(//node())}"><xsl:for-each select="//*"><e n="{name()}" c="{count(node())}" t="{count(text())}" l="{string-length(.)}" f="[{text()[1]}]"/></xsl:for-each>'
                             '<xsl:copy-of select="/r/a[2]"/></o>', '<xsl:strip-space elements="*"/><xsl:preserve-space elements="q"/>'), D_WS)
    add('strip-space-position', sheet('<o><xsl:for-each select="/r/node()"><i p="{position()}" n="{name()}" nx="{name(following-sibling::node()[1])}"/></xsl:for-each><xsl:for-each select="//e/node()|//c/node()"><j p="{position()}" n="{name()}" s="[{.}]"/></xsl:for-each></o>',
                                      '<xsl:strip-space elements="r e c a"/>'), D_MIX)
    add('no-strip-whitespace-nodes', sheet('<o t="{count(//text())}" ws="{count(//text()[normalize-space()=\'\'])}"><xsl:for-each select="//text()"><t l="{string-length()}" p="{name(..)}">[<xsl:value-of select="."/>]</t></xsl:for-each></o>'), D_WS)
    add('xml-space-attr', sheet('<o><xsl:for-each select="//*[@xml:space]"><e n="{name()}" v="{@xml:space}" c="{count(.//text())}"/></xsl:for-each><xsl:copy-of select="//k"/></o>', '<xsl:strip-space elements="*"/>'), D_WS)

    # --- character data
    add('char-data', sheet('<o l="{string-length(/r/t)}" cr="{string-length(translate(/r/t,\'&#13;\',\'\'))}" lf="{string-length(translate(/r/t,\'&#10;\',\'\'))}"><t><xsl:value-of select="/r/t"/></t>'
                           '<a v="{/r/t}" va="{/r/v/@a}" vb="[{/r/v/@b}]" vc="{/r/v/@c}" la="{string-length(/r/v/@a)}"/><w l="{string-length(/r/w)}"><xsl:value-of select="/r/w"/></w><xsl:copy-of select="/r/v"/>'
                           '<z n="{count(/r/z)}" c="{count(/r/z/node())}"/><xsl:comment><xsl:value-of select="/r/w"/></xsl:comment></o>'), D_TEXT)
    add('adjacent-text', sheet('<o n="{count(/r/m/text())}" c="{count(/r/m/node())}"><xsl:for-each select="/r/m/node()"><i p="{position()}" n="{name()}" v="{.}"/></xsl:for-each><s t2="{/r/m/text()[2]}" tl="{/r/m/text()[last()]}" '
                               'j="{count(/r/m/j[1]/following-sibling::node())}" pre="{/r/m/j[2]/preceding-sibling::text()[1]}"/><tt n="{count(/r/t/text())}" w="{count(/r/w/text())}"/></o>'), D_TEXT)
    # references inside character data make the parser deliver ONE text node in several characters() events, some of them
    # whitespace only: the pieces must end up in one node in every source form, with and without strip-space
    D_CHUNK = '<r><i> &amp; co</i><i>&#32;&lt;x</i><i>\n  &amp;\n  </i><i> a &amp; b </i><i>&#9;&#10;</i><i>x&#32;</i><j>\n <k/>&#32;\n</j></r>'
    CHUNK_BODY = ('<o t="{count(//text())}"><xsl:for-each select="//i|//j"><e c="{count(node())}" t="{count(text())}" l="{string-length(.)}" f="[{text()[1]}]" '
                  'z="[{text()[last()]}]" w="{count(text()[normalize-space()=\'\'])}"/></xsl:for-each></o>')
    add('text-chunks', sheet(CHUNK_BODY), D_CHUNK)
    add('text-chunks-strip', sheet(CHUNK_BODY, '<xsl:strip-space elements="*"/>'), D_CHUNK)
    # one text node longer than the parser's 16K / 32K character buffers: the SAX events must be merged into ONE node
    ltn = 20000 if tier == 'quick' else 40000
    add('long-text-node', sheet('<o n="{count(/r/t/text())}" l="{string-length(/r/t)}" l1="{string-length(/r/t/text()[1])}" end="{substring(/r/t, %d)}" mid="{substring(/r/t, 16380, 20)} {substring(/r/t, 32760, 20)}"/>' % (ltn - 10)), long_text_doc(ltn))
    add('string-value-root', sheet('<o l="{string-length(/)}" n="{normalize-space(/)}"><xsl:value-of select="/"/></o>'), D_MIX)
    # (no CR in the data: CR inside a CDATA section is written raw by the serializer - a C04 finding, not a supply-form matter)
    add('cdata-section-elements', sheet('<o><t><xsl:value-of select="/r/v/@c"/>&#10;<xsl:value-of select="/r/m"/></t><u>]]&gt;<xsl:value-of select="/r/w"/></u><v>plain</v></o>', out_attrs='cdata-section-elements="t u"'), D_TEXT)
    add('result-top-level-comment-pi', sheet('<xsl:comment>before</xsl:comment><xsl:processing-instruction name="rp">data</xsl:processing-instruction><o><xsl:value-of select="count(//node())"/></o><xsl:comment>after</xsl:comment>'), D_MIX)
    add('attr-sorted-iteration', sheet('<o><xsl:for-each select="//e"><e><xsl:for-each select="@*"><xsl:sort select="name()"/><a n="{name()}" v="{.}" p="{position()}"/></xsl:for-each><xsl:copy-of select="@*"/></e></xsl:for-each></o>'), D_ATTR)

    # --- output sizes around the buffers of the stream, callback and C API paths
    for n in (0, 511, 512, 513, 1023, 1024, 1025, 5000):
        P.append(dict(len_pair(n), aux={}, params=[], expect='ok'))
    for n in (512, 1024, 5003):
        P.append(dict(len_pair(n, 'xml'), method='xml', aux={}, params=[], expect='ok'))
    add('len-multibyte-straddle', sheet('x<xsl:for-each select="(//i)[position() &lt;= 600]"><xsl:value-of select="/r/u"/></xsl:for-each>', method='text'), many(600)[:-4] + '<u>é</u></r>')
    add('big-identity', sheet('<xsl:copy-of select="/"/>'), many(700))

    # --- other output methods / encodings
    add('text-method', sheet('<xsl:for-each select="//text()">[<xsl:value-of select="."/>]</xsl:for-each>&lt;&amp;', method='text'), D_MIX)
    # html output writes 512-unit blocks; raw supplementary characters (comment, script) of both parities cross the block boundaries:
    # file targets buffer 8192 units, stream / callback / C-API data targets 512
    EMO = '\U0001F600'
    add('html-nonbmp-raw-blocks', sheet('<html><head><script>var s="<xsl:value-of select="/r/e"/>";</script></head><body><xsl:comment><xsl:value-of select="/r/e"/> and <xsl:value-of select="/r/e"/></xsl:comment>'
                                        '<p><xsl:value-of select="/r/e"/></p></body></html>', method='html', out_attrs='indent="no"'),
        '<r><e>' + EMO * 300 + '</e></r>')
    add('html-method-xmlish', sheet('<html><body class="c"><p>a &amp; b &lt; c</p><div title="t&quot;q"><span><xsl:value-of select="count(//node())"/></span></div></body></html>', method='html', out_attrs='indent="no"'), D_MIX)
    add('html-method', sheet('<html><head><title>t</title></head><body><br/><p>é<xsl:value-of select="/r/a/b[2]"/></p><img src="x y.png"/><script>if (a &lt; b) x();</script></body></html>', method='html', out_attrs='indent="no"'), D_MIX)
    add('encoding-latin1', sheet('<o a="{/r/w}é"><xsl:value-of select="/r/w"/>ü</o>', out_attrs='encoding="ISO-8859-1"'), D_TEXT)

    # --- parameters, document()
    add('params', sheet('<o s="{$s}" n="{$n}" e="{$e}" d="{$d}" sum="{$n + $e}" ts="{string-length($s)}" nn="{$n * 2 = 5}" sel="{$sel}"/>',
                        '<xsl:param name="s" select="\'default\'"/><xsl:param name="n" select="0"/><xsl:param name="e"/><xsl:param name="d" select="\'dflt\'"/><xsl:param name="sel"/>'),
        D_MIX, params=["p:s='str ing'", 'n:n=2.5', 'p:e=1+2', 'p:sel=/r/a/b[2]'])
    add('document-function', sheet('<o x="{count(document(\'c05aux.xml\')//x)}" v="{document(\'c05aux.xml\')/a/x[2]}" same="{count(document(\'c05aux.xml\') | document(\'c05aux.xml\'))}" '
                                   'rel="{document(/r/@x, /)/a/x[1]}" ids="{generate-id(document(\'c05aux.xml\'))=generate-id(document(\'c05aux.xml\'))}"><xsl:copy-of select="document(\'c05aux.xml\')/a/x[@k=\'2\']"/>'
                                   '<xsl:for-each select="document(\'c05aux.xml\')//x | //b"><i n="{name()}" v="{.}"/></xsl:for-each></o>'),
        D_MIX.replace('x="1"', 'x="c05aux.xml"'), aux={'c05aux.xml': '<a><x k="1">one</x><!--c--><x k="2">two<y/></x></a>'})

    # --- stylesheet modules: href resolved against the base URI of the stylesheet, however that was supplied
    add('include-import', '<xsl:stylesheet version="1.0" %s><xsl:import href="c05imp.xsl"/><xsl:include href="c05inc.xsl"/><xsl:template match="/"><o v="{$iv}"><xsl:apply-templates select="//b|//d"/></o></xsl:template>'
        '<xsl:template match="b[@z]"><main><xsl:apply-imports/></main></xsl:template></xsl:stylesheet>' % X, D_MIX,
        aux={'c05imp.xsl': '<xsl:stylesheet version="1.0" %s><xsl:variable name="iv" select="\'imported\'"/><xsl:template match="b"><imp z="{@z}"/></xsl:template><xsl:template match="d"><impd/></xsl:template></xsl:stylesheet>' % X,
             'c05inc.xsl': '<xsl:stylesheet version="1.0" %s><xsl:template match="d"><inc p="{name(..)}"/></xsl:template></xsl:stylesheet>' % X})

    # --- pairs on which every combination must FAIL
    add('fail-terminate', sheet('<o><xsl:for-each select="//b"><e><xsl:if test="@z"><xsl:message terminate="yes">stop here</xsl:message></xsl:if></e></xsl:for-each></o>'), D_MIX, expect='fail')
    add('fail-ill-formed-source', sheet('<o><xsl:value-of select="count(//node())"/></o>'), '<r><a>text</b></r>', expect='fail')
    add('fail-stylesheet-error', sheet('<o><xsl:value-of select="1 +"/></o>'), D_MIX, expect='fail')

    if tier == 'thorough':
        for n in (1, 2047, 2048, 2049, 4095, 4096, 4097, 8191, 8192, 8193, 16384, 32768, 65535, 65536, 65537, 72000):
            P.append(dict(len_pair(n), aux={}, params=[], expect='ok'))
        for n in (511, 513, 1023, 1025, 2048, 4096, 8192, 65536):
            P.append(dict(len_pair(n, 'xml'), method='xml', aux={}, params=[], expect='ok'))
        # every xpgen document (the C01/C02/C12 document set) under the kind-describing observers
        sys.path.insert(0, os.path.join(vlib.ROOT, 'lib'))
        import xpgen
        obs = {
            'all-nodes': sheet('<o><xsl:for-each select="//node()|//@*"><xsl:call-template name="d"/></xsl:for-each></o>', DESC),
            'identity': sheet('<xsl:copy-of select="/"/>'),
            'axes': sheet('<o><xsl:for-each select="//node()|//@*"><c p="{count(preceding::node())}" f="{count(following::node())}" a="{count(ancestor::node())}" d="{count(descendant::node())}" '
                          'ps="{count(preceding-sibling::node())}" fs="{count(following-sibling::node())}" ns="{count(namespace::*[name()!=\'xml\'])}" p1="{name(preceding::node()[1])}" f1="{name(following::node()[1])}"/></xsl:for-each></o>'),
            'ids': sheet('<o><xsl:for-each select="//*"><e n="{name()}" i="{count(id(@x))}" j="{name(id(.))}" g="{generate-id()=generate-id(id(@id))}"/></xsl:for-each></o>'),
            'number': sheet('<o><xsl:for-each select="//node()"><n><xsl:number level="any" count="node()"/>.<xsl:number level="multiple" count="*" format="1-1"/></n></xsl:for-each></o>'),
        }
        for d in xpgen.docs():
            for on, s in obs.items():
                add('xpgen-%s-%s' % (d.name, on), s, d.to_xml())
        # ... and the documents of this file under the same observers (ns::xml excluded, attributes of the documents are in
        # name order, no DOCTYPE: the three recorded Xerces-DOM differences are observed by their dedicated pairs only)
        for dn, dt in (('mix', D_MIX), ('ns', D_NS), ('text', D_TEXT), ('ws', D_WS), ('num', D_NUM), ('many', many(40))):
            for on in ('all-nodes', 'axes', 'number'):
                add('own-%s-%s' % (dn, on), obs[on], dt)
        add('long-text-node-72000', sheet('<o n="{count(/r/t/text())}" l="{string-length(/r/t)}" end="{substring(/r/t, 71990)}" mid="{substring(/r/t, 49150, 20)} {substring(/r/t, 65530, 20)}"/>'), long_text_doc(72000))
        add('attr-unsorted-iteration', sheet('<o><xsl:for-each select="//e"><e first="{name(@*[1])}" last="{name(@*[last()])}"><xsl:for-each select="@*"><a n="{name()}" p="{position()}"/></xsl:for-each></e></xsl:for-each></o>'), D_ATTR)
        add('namespace-axis-unsorted', sheet('<o><xsl:for-each select="//*"><e n="{name()}" first="{name(namespace::*[name()!=\'xml\'][1])}"><xsl:for-each select="namespace::*[name()!=\'xml\']"><s p="{name()}"/></xsl:for-each></e></xsl:for-each></o>'), D_NS)
        add('internal-entity', sheet('<o n="{count(/r/t/node())}" t="{count(/r/t/text())}" t1="{/r/t/text()[1]}" t2="{/r/t/text()[2]}"><xsl:copy-of select="/r/t"/></o>'), D_ENT)
        add('unparsed-entity-uri', sheet('<o u="{substring-after(unparsed-entity-uri(/r/g/@img), \'/c05.\')}" none="[{unparsed-entity-uri(\'nosuch\')}]"/>'), D_ENT)
        add('document-self', sheet('<o n="{count(document(\'\')//xsl:template)}" v="{document(\'\')/*/xsl:variable[@name=\'marker\']}"/>', '<xsl:variable name="marker">here</xsl:variable>'), D_MIX)
        add('result-top-level-text', sheet('lead<a/>mid<b/>'), D_MIX)
        add('result-top-level-whitespace', sheet('<xsl:text>&#10; </xsl:text><xsl:value-of select="substring(/r/e, 1, 1)"/><xsl:copy-of select="/r/c/text()[1]"/><o/><xsl:text>&#10;</xsl:text><xsl:value-of select="substring(\'  xyz\', 1, 2)"/>'), D_MIX)
        add('result-two-roots', sheet('<a/><b/>'), D_MIX)
        add('encoding-utf16', sheet('<o><xsl:value-of select="/r/w"/></o>', out_attrs='encoding="UTF-16"'), D_TEXT)
        add('doctype-output', sheet('<o><xsl:value-of select="/r/w"/></o>', out_attrs='doctype-system="o.dtd" doctype-public="-//X//Y"'), D_TEXT)
        add('huge-identity', sheet('<xsl:copy-of select="/"/>'), many(5000))
        add('huge-preceding', sheet('<o a="{count((//j)[last()]/preceding::node())}" b="{count((//i)[2500]/following::*)}" c="{name((//j)[last()]/preceding::*[2])}" k="{count(key(\'g\',\'3\'))}" kl="{key(\'g\',\'3\')[last()]/@n}"/>', '<xsl:key name="g" match="i" use="@g"/>'), many(5000))
    names = [p['name'] for p in P]
    assert len(names) == len(set(names)), 'duplicate pair name'
    return P


PI_RE = re.compile(r'^(\s*<\?xml\s[^?]*\?>)?')


def materialise(pair):
    """named texts of a pair. The document ALWAYS carries the xml-stylesheet PI (so that it is the same document in
    every stylesheet form); names are unique per pair so that a stale file can never be picked up."""
    sname = pair['name'] + '.xsl'
    dname = pair['name'] + '.xml'
    pi = '<?xml-stylesheet type="text/xsl" href="%s"?>' % sname
    m = PI_RE.match(pair['D'])
    d = pair['D'][:m.end()] + pi + pair['D'][m.end():]
    defs = {sname: pair['S'], dname: d}
    defs.update(pair['aux'])
    return sname, dname, defs


# ---------------------------------------------------------------------------------------------------------------------
# running one combination

class Driver:
    def __init__(self, tag, exe=os.environ.get('C05_HARNESS', 'c05')):      # C05_HARNESS: scratch build for the sensitivity demonstration
        self.dir = os.path.join(vlib.BUILD, 'tmp', 'c05.%s' % tag)
        shutil.rmtree(self.dir, ignore_errors=True)
        os.makedirs(self.dir, exist_ok=True)
        self.w = vlib.Worker(exe, args=[self.dir], stderr_path=os.path.join(vlib.BUILD, 'tmp', 'c05.%s.err' % tag), timeout=120,
                             env={'ASAN_OPTIONS': vlib.ASAN_ENV['ASAN_OPTIONS'] + ':quarantine_size_mb=16'})
        self.defs = {}
        self.w.on_restart = lambda w: self.define(self.defs)

    def define(self, defs):
        self.defs = dict(defs)
        r = self.w._request(['def:%s=%s' % kv for kv in defs.items()])
        assert r[0] == 'ok', r

    def run(self, combo, pair, sname, dname):
        """-> ('na', reason) | dict(rc, err, out(bytes), errtext, info)"""
        if combo[3] == 'cli':
            if not cli_valid(combo):
                return ('na', 'no such command line form')
            return run_cli(self.dir, combo, pair, sname, dname, self.defs)
        r = self.w.request('run', combo[0], combo[1], combo[2], combo[3], sname, dname, *pair['params'])
        if r[0] == 'na':
            return ('na', r[1] if len(r) > 1 else '')
        if r[0] == 'e':
            raise RuntimeError('harness protocol error: %r' % (r,))
        return dict(rc=int(r[0]), err=r[1] == '1', out=r[2].encode('utf-8', 'surrogateescape'),
                    errtext=r[3] if len(r) > 3 else '', info=r[4] if len(r) > 4 else '')

    def close(self):
        self.w.close()
        shutil.rmtree(self.dir, ignore_errors=True)
        try:
            os.unlink(self.w.stderr_path)
        except OSError:
            pass


def run_cli(d, combo, pair, sname, dname, defs):
    src, sty, res, layer = combo
    args = [CLI]
    if src == 'parsed':
        args.append('-t')
    if sty == 'pi':
        args.append('-a')
    for p in pair['params']:
        name, val = p[2:].split('=', 1)
        args += ['-p', name, val]
    # the program is started in a SUBDIRECTORY of the directory that holds the files, and names them relatively: relative references
    # (xml-stylesheet href, xsl:include/import, document()) must be resolved against the referring entity, not the working directory
    cwd = os.path.join(d, 'cwd')
    os.makedirs(cwd, exist_ok=True)
    up = '../'
    if src == 'stream' or sty == 'stream':
        # an entity read from standard input has no base URI: its relative references (the href of an xml-stylesheet PI, xsl:include,
        # document()) can only be taken relative to the working directory, so these combinations are started where the files are
        cwd, up = d, ''
    outname = 'cliout.' + dname
    outpath = os.path.join(d, outname)
    if res == 'file':
        args += ['-o', up + outname]
        try:
            os.unlink(outpath)
        except OSError:
            pass
    stdin = b''
    if src == 'stream':
        args.append('-')
        stdin = defs[dname].encode('utf-8')
    else:
        args.append(up + dname)
    if sty == 'stream':
        args.append('-')
        stdin = defs[sname].encode('utf-8')
    elif sty in ('file', 'compiled-file'):
        args.append(up + sname)
    env = dict(os.environ)
    env.update(vlib.ASAN_ENV)
    try:
        p = subprocess.run(args, input=stdin, stdout=subprocess.PIPE, stderr=subprocess.PIPE, cwd=cwd, env=env, timeout=600)
    except subprocess.TimeoutExpired:
        raise vlib.WorkerDied('timeout', 'Xalan ' + ' '.join(args[1:]))
    errtext = p.stderr.decode('utf-8', 'replace')
    errlines = [l for l in errtext.splitlines() if not re.match(r'^(Source tree parsing time|Stylesheet compilation time|Transformation time)', l)
                and 'runtime error:' not in l and not l.startswith('SUMMARY: UndefinedBehaviorSanitizer')]
    if p.returncode < 0 or 'AddressSanitizer' in errtext:
        raise vlib.WorkerDied(p.returncode, errtext[-3000:])
    out = p.stdout
    if res == 'file':
        try:
            with open(outpath, 'rb') as f:
                out = f.read()
            os.unlink(outpath)
        except OSError:
            out = b''
    return dict(rc=p.returncode, err=bool(errlines), out=out, errtext='\n'.join(errlines)[:2000], info='argv=' + ' '.join(args[1:]))


# ---------------------------------------------------------------------------------------------------------------------
# canonicalisation and comparison

DECL_RE = re.compile(r'^\s*<\?xml\s+version\s*=\s*["\'][^"\']*["\'](\s+encoding\s*=\s*["\']([^"\']*)["\'])?[^?]*\?>')
DOCTYPE_RE = re.compile(r'^\s*<!DOCTYPE\s+[^>\[]*(\[[^\]]*\])?\s*>')


def decode_entity(b):
    """bytes of a serialised result -> (text without XML declaration and DOCTYPE)"""
    enc = 'utf-8'
    if b[:2] in (b'\xff\xfe', b'\xfe\xff'):
        enc = 'utf-16'
    elif b[:4] in (b'<\0?\0',):
        enc = 'utf-16-le'
    elif b[:4] in (b'\0<\0?',):
        enc = 'utf-16-be'
    else:
        m = re.match(rb'^\s*<\?xml[^>]*encoding\s*=\s*["\']([A-Za-z0-9._-]+)["\']', b[:200])
        if m:
            enc = m.group(1).decode('ascii')
    s = b.decode(enc)          # strict: undecodable output is itself a difference (caught by the caller)
    if s[:1] == '﻿':
        s = s[1:]
    m = DECL_RE.match(s)
    if m:
        s = s[m.end():]
    m = DOCTYPE_RE.match(s)
    if m:
        s = s[m.end():]
    return s


def is_ws(t):
    return all(c in ' \t\r\n' for c in t)


_CANON = {}


def canon_tree(b):
    k = hash(b), len(b)
    if k not in _CANON:
        if len(_CANON) > 64:
            _CANON.clear()
        try:
            _CANON[k] = (b, _canon_tree(b), None)
        except Exception as e:
            _CANON[k] = (b, None, e)
    ent = _CANON[k]
    if ent[0] != b:
        return _canon_tree(b)
    if ent[2] is not None:
        raise ent[2]
    return ent[1]


def _canon_tree(b):
    """canonical form of a serialised result taken as a well-formed external general parsed entity (XSLT 16.1): it is parsed
    inside a wrapper element, so that top-level text / several top-level elements / nothing at all are representable;
    whitespace-only text at the top level is not part of a result tree's content and is dropped."""
    s = decode_entity(b)
    doc = R.parse_xml('<C05-wrapper>' + s + '</C05-wrapper>')
    c = R.canon(doc.root.children[0], with_ns=True)
    kids = tuple(k for k in c[5] if not (k[0] == 'text' and is_ws(k[1])))
    return kids


def tree_text(kids):
    out = []

    def rec(k):
        if k[0] == 'text':
            out.append(k[1])
        elif k[0] == 'elem':
            for x in k[5]:
                rec(x)
    for k in kids:
        rec(k)
    return ''.join(out)


def is_document(pair, out):
    """is the (baseline) result a well-formed DOCUMENT: one element, no text beside it (XSLT allows any entity)"""
    if pair['method'] == 'text':
        return False
    try:
        kids = canon_tree(out)
    except Exception:
        return pair['method'] == 'html'
    return len([k for k in kids if k[0] == 'elem']) == 1 and not [k for k in kids if k[0] == 'text']


def compare(pair, combo, base, got, treebase=None):
    """-> None when equivalent, else (kind, explanation)"""
    bok, gok = base['rc'] == 0, got['rc'] == 0
    if bok != gok:
        kind = 'rc-differs'
        if bok and not is_document(pair, base['out']):
            kind += '/non-document-result'
        return (kind, 'baseline rc %d, this combination rc %d (%s)' % (base['rc'], got['rc'], (got['errtext'] or base['errtext'])[:300]))
    if not gok:
        if not got['err']:
            return ('no-error-text', 'rc %d without an error message' % got['rc'])
        return None
    method = pair['method']
    tree_form = combo[2] in TREE_RESULTS
    if method == 'xml' or tree_form:
        ref = base
        if tree_form and method == 'html':
            try:
                canon_tree(base['out'])
            except Exception:
                ref = treebase           # html that is not XML: tree targets are compared with the tree baseline
                if ref is None:
                    return None
        try:
            cb = canon_tree(ref['out'])
        except Exception as e:
            if tree_form and method == 'text':
                cb = None
            else:
                return ('tree-differs', 'baseline output does not parse: %s' % e)
        try:
            cg = canon_tree(got['out'])
        except Exception as e:
            return ('tree-differs', 'output does not parse: %s' % e)
        if tree_form and method == 'text':
            # a text-method result sent to a tree target: the tree's text must be the baseline's bytes
            exp = base['out'].decode('utf-8', 'replace')
            return None if tree_text(cg) == exp else ('tree-differs', 'text of the result tree differs from the text output')
        if cb != cg:
            return ('tree-differs', first_difference(cb, cg))
        # the same serializer behind another source / stylesheet form: the BYTES must be the same too (CDATA sections, escaping,
        # declaration, indentation are decided by the stylesheet, not by the way it was supplied)
        if (method == 'xml' and combo[2] in ('ostream', 'file', 'callback') and combo[3] == 'cpp' and combo[0] not in ('parsed-xerces', 'xerces-wrap')
                and base['out'] != got['out']):      # (Xerces-DOM sources deliver attributes in name order: a known finding, same tree)
            n = next((i for i in range(min(len(base['out']), len(got['out']))) if base['out'][i] != got['out'][i]), min(len(base['out']), len(got['out'])))
            return ('lexical-form-differs', 'same tree, different bytes from byte %d: %r / %r' % (n, base['out'][max(0, n - 20):n + 30], got['out'][max(0, n - 20):n + 30]))
        return None
    if base['out'] != got['out']:
        n = next((i for i in range(min(len(base['out']), len(got['out']))) if base['out'][i] != got['out'][i]), min(len(base['out']), len(got['out'])))
        return ('bytes-differ', 'first difference at byte %d; lengths %d / %d' % (n, len(base['out']), len(got['out'])))
    return None


def first_difference(a, b, path='/'):
    if a == b:
        return ''
    if isinstance(a, tuple) and isinstance(b, tuple) and a and b and a[0] == 'elem' and b[0] == 'elem':
        if a[1:3] != b[1:3]:
            return '%s: element {%s}%s vs {%s}%s' % (path, a[1], a[2], b[1], b[2])
        if a[3] != b[3]:
            return '%s%s: attributes %r vs %r' % (path, a[2], a[3], b[3])
        if a[4] != b[4]:
            return '%s%s: namespaces %r vs %r' % (path, a[2], a[4], b[4])
        return first_difference(a[5], b[5], path + a[2] + '/')
    if isinstance(a, tuple) and isinstance(b, tuple) and (not a or not isinstance(a[0], str)) and (not b or not isinstance(b[0], str)):
        for i, (x, y) in enumerate(zip(a, b)):
            if x != y:
                return first_difference(x, y, path + '[%d]' % i)
        return '%s: %d vs %d children (%r / %r)' % (path, len(a), len(b), (a[len(b):] or ['-'])[0] if len(a) > len(b) else '-', (b[len(a):] or ['-'])[0] if len(b) > len(a) else '-')
    return ('%s: %r vs %r' % (path, a, b))[:400]


# ---------------------------------------------------------------------------------------------------------------------
# the sharded enumeration

def evaluate(drv, pair, names, combo, cache):
    """one combination of one pair -> ('na',) | ('ok',) | ('viol', kind, explanation, got) ; cache holds the baselines"""
    sname, dname = names
    if 'base' not in cache:
        cache['base'] = drv.run(BASELINE, pair, sname, dname)
        cache['treebase'] = None
        if pair['method'] == 'html':
            cache['treebase'] = drv.run(TREE_BASELINE, pair, sname, dname)
    try:
        got = drv.run(combo, pair, sname, dname)
    except vlib.WorkerDied as wd:
        drv.define(drv.defs)
        return ('viol', 'fatal', 'driver died: %s' % wd.rc, {'rc': str(wd.rc), 'out': b'', 'errtext': wd.stderr_tail[-2500:], 'info': ''})
    if isinstance(got, tuple):
        return ('na', got[1])
    v = compare(pair, combo, cache['base'], got, cache['treebase'])
    if v is None:
        return ('ok', got)
    return ('viol', v[0], v[1], got)


def shard_main(shard, nshards, tier):
    pairs = build_pairs(tier)
    drv = Driver('s%d' % shard)
    counts = {'evaluations': 0, 'na': 0, 'nontrivial': 0, 'both_fail': 0}
    fails = []          # (pair index, combo, kind, explanation, got summary)
    valid = set()
    nas = {}
    expect_wrong = []
    idx = 0
    for pi, pair in enumerate(pairs):
        mine = [c for k, c in enumerate(PRODUCT) if (pi * len(PRODUCT) + k) % nshards == shard]
        if not mine:
            continue
        sname, dname, defs = materialise(pair)
        drv.define(defs)
        cache = {}
        for combo in mine:
            r = evaluate(drv, pair, (sname, dname), combo, cache)
            if r[0] == 'na':
                counts['na'] += 1
                nas[combo] = r[1]
                continue
            valid.add(combo)
            if combo == BASELINE:
                # the baseline itself: the pair must behave as designed (otherwise the pair tests nothing)
                b = cache['base']
                ok = b['rc'] == 0
                if ok != (pair['expect'] == 'ok'):
                    expect_wrong.append((pair['name'], b['rc'], b['errtext'][:300]))
                if 'explen' in pair and len(b['out']) != pair['explen']:
                    expect_wrong.append((pair['name'], 'length %d instead of %d' % (len(b['out']), pair['explen']), ''))
                continue
            counts['evaluations'] += 1
            if cache['base']['rc'] == 0 and len(cache['base']['out']) > 0:
                counts['nontrivial'] += 1
            if cache['base']['rc'] != 0:
                counts['both_fail'] += 1
            if r[0] == 'viol':
                got = r[3]
                fails.append((pi, combo, r[1], r[2], {'rc': got['rc'], 'out': got['out'][:1500].decode('utf-8', 'replace'), 'errtext': got['errtext'][:600], 'info': got.get('info', '')}))
    drv.close()
    return {'counts': counts, 'fails': fails, 'valid': sorted(valid), 'nas': sorted(nas.items()), 'expect_wrong': expect_wrong}


# ---------------------------------------------------------------------------------------------------------------------
# signatures: collapse over the dimensions that do not matter

def collapse(failing, universe):
    """failing: set of combos (of one pair and one kind); universe: every valid non-baseline combo.
    Returns [(label, [combos])]: the failing set covered by sub-cubes of the configuration space, largest first: everything;
    one dimension fixed; two; three; single combinations. A cube is used only when ALL its valid combinations fail."""
    failing = set(failing)
    left = set(failing)
    out = []
    if failing == set(universe):
        return [('all-combinations', sorted(failing))]
    for k in (1, 2, 3):
        cand = {}
        for dims in itertools.combinations(range(4), k):
            for c in sorted(failing):
                label = ','.join('%s=%s' % (DIMS[d], c[d]) for d in dims)
                if label in cand:
                    continue
                cube = [u for u in universe if all(u[d] == c[d] for d in dims)]
                if cube and all(u in failing for u in cube):
                    cand[label] = cube
        # largest cubes first, so that a cube contained in another one of the same rank is never reported beside it
        for label, cube in sorted(cand.items(), key=lambda kv: (-len(kv[1]), kv[0])):
            if any(u in left for u in cube):
                out.append((label, sorted(cube)))
                left.difference_update(cube)
        if not left:
            break
    for c in sorted(left):
        out.append((','.join(c), [c]))
    return out


def replay(path_):
    rec = json.load(open(path_))
    d = rec['detail']
    pair = d['pair']
    combo = tuple(d['combination'])
    drv = Driver('replay')
    sname, dname, defs = materialise(pair)
    drv.define(defs)
    base = drv.run(BASELINE, pair, sname, dname)
    got = drv.run(combo, pair, sname, dname)
    tb = drv.run(TREE_BASELINE, pair, sname, dname) if pair['method'] == 'html' else None
    print('pair      :', pair['name'])
    print('stylesheet:', pair['S'][:3000])
    print('document  :', defs[dname][:3000])
    print('params    :', pair['params'])
    for title, c, r in (('baseline', BASELINE, base), ('combination', combo, got)):
        print('--- %s %s' % (title, ','.join(c)))
        if isinstance(r, tuple):
            print('    not applicable:', r[1])
            continue
        print('    rc=%d error-text=%r info=%s' % (r['rc'], r['errtext'][:500], r['info']))
        print('    output (%d bytes): %r' % (len(r['out']), r['out'][:6000]))
    v = compare(pair, combo, base, got, tb) if not isinstance(got, tuple) else None
    print('verdict   :', v if v else 'equivalent')
    drv.close()
    return 1 if v else 0


def main():
    tier, rp = vlib.tier_from_argv()
    if rp:
        sys.exit(replay(rp))
    t0 = time.time()
    pairs = build_pairs(tier)
    res = vlib.run_sharded(shard_main, (tier,))
    counts = vlib.merge_counts([r['counts'] for r in res])
    valid = set()
    nas = {}
    for r in res:
        valid.update(tuple(c) for c in r['valid'])
        for c, why in r['nas']:
            nas[tuple(c)] = why
    universe = sorted(c for c in valid if c != BASELINE)
    viols = []
    for r in res:
        for name, what, txt in r['expect_wrong']:
            viols.append(vlib.Violation('%s|baseline|pair-not-as-designed' % name, {'what': str(what), 'text': txt}))

    # every failing combination is re-run alone in a fresh driver; only verdicts that reproduce are reported
    raw = [f for r in res for f in r['fails']]
    confirmed = []
    flaky = 0
    if raw:
        drv = Driver('confirm')
        bypair = {}
        for f in raw:
            bypair.setdefault(f[0], []).append(f)
        for pi in sorted(bypair):
            pair = pairs[pi]
            sname, dname, defs = materialise(pair)
            drv.define(defs)
            cache = {}
            for f in bypair[pi]:
                r = evaluate(drv, pair, (sname, dname), tuple(f[1]), cache)
                if r[0] == 'viol' and r[1] == f[2]:
                    confirmed.append(f)
                else:
                    flaky += 1
        drv.close()

    groups = {}
    for pi, combo, kind, why, got in confirmed:
        groups.setdefault((pi, kind), []).append((tuple(combo), why, got))
    for (pi, kind), items in sorted(groups.items()):
        pair = pairs[pi]
        bycombo = {c: (why, got) for c, why, got in items}
        for label, cube in collapse(bycombo.keys(), universe):
            ex = max((c for c in cube if c in bycombo), key=lambda c: (sum(1 for i in range(4) if c[i] == BASELINE[i]), c))
            why, got = bycombo[ex]
            viols.append(vlib.Violation('%s|%s|%s' % (pair['name'], label, kind), {
                'pair': pair, 'combination': list(ex), 'combinations_failing': [','.join(c) for c in cube][:60], 'n_failing': len(cube),
                'explanation': why, 'got': got}))

    allc = [(p['name'],) + c for p in pairs for c in universe]
    cov = {
        'evaluations': counts['evaluations'],
        'distinct_nontrivial': counts['nontrivial'],
        'rule': 'COMPLETE product source form %r x stylesheet form %r x result form %r x layer %r = %d combinations requested for each of %d stylesheet/document pairs; '
                'combinations the API does not have are answered na (C API: file name or XalanParseSource[FromStream] handle, stylesheet file/NULL or compiled handle, ToFile/ToData/ToHandler; '
                'command line: file or stdin, -a, -t, -o), every other one is one transformation on a fresh transformer. Result (return code; canonical tree for xml output and for DOM / '
                'source-tree targets, which the harness walks itself; bytes for text and html) must equal that of the baseline (stream, stream, ostream, cpp). The document always carries the '
                'xml-stylesheet PI. evaluations = non-baseline valid combinations x pairs; non-trivial = those whose baseline succeeded with non-empty output. Failing combinations are re-run in '
                'a fresh driver and signed by the smallest set of fixed dimensions for which ALL combinations fail.'
                % (SRC, STY, RES, LAYER, len(PRODUCT), len(pairs)),
        'samples': [' '.join(x) for x in vlib.sample3(allc)] or ['none'],
        'combinations_product': len(PRODUCT),
        'combinations_valid': len(valid),
        'combinations_na': len(PRODUCT) - len(valid),
        'combinations_valid_by_layer': {l: len([c for c in valid if c[3] == l]) for l in LAYER},
        'pairs': len(pairs),
        'pairs_expected_to_fail': len([p for p in pairs if p['expect'] == 'fail']),
        'both_fail_evaluations': counts['both_fail'],
        'raw_failing_evaluations': len(raw),
        'not_reproduced': flaky,
        'exhaustive': True,
    }
    assert len(valid) + len(nas) == len(PRODUCT), (len(valid), len(nas))
    vlib.finish(PROP, tier, 'exploration', cov, viols, t0,
                assumptions=['documents contain no CDATA sections and (quick tier) no entity references, as the property requires for DOM-supplied sources',
                             'streams are given a system identifier (the API\'s way to make relative URIs resolvable); the command line program reading stdin runs in the directory of the files',
                             'relative order of attributes and of namespace nodes is implementation dependent: observers sort them (the unsorted observers of the thorough tier are reported separately)',
                             'the output is never indented and disable-output-escaping is not used (both are serializer features that tree targets cannot have)'],
                max_report=60)


if __name__ == '__main__':
    main()
