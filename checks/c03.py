#!/usr/bin/env python3
"""C03: no input crashes, hangs or corrupts memory; every failure is a reported error (harness/c03.cpp).

Bounded EXHAUSTIVE enumeration with deviation bounding (nothing is sampled or random):
 (a) xpath       every token string up to a length over the 30-token alphabet of C02 / a 12-token subset, through a long-lived
                 XPathEvaluator and through the XPath C API
 (b) stylesheet  every 0/1-deviation variant (finite edit menu applied at EVERY applicable position) of a seed corpus covering
                 every XSLT instruction; every 2-deviation variant of a 10-stylesheet subset (thorough)
 (c) source      every truncation, every single-byte replacement/insertion from a 7-byte menu of 8 seed documents, encoding
                 declarations that disagree with the bytes; stream, parseSource native and Xerces
 (d) magnitude   +-10^k, 2^k and neighbours through every number-consuming construct; strings up to 2^20; nesting depths 2^k
 (e) param       token strings as top-level parameter expressions
 (f) steady      identical requests repeated on the long-lived objects: outstanding memory must reach a steady state
 (g) entry       every public transform overload once with valid input
 (h) outpos      a multi-byte character at every output offset around the serializer buffer boundaries
"""
import os, sys, time, json, re, itertools, copy, shutil, struct
from fractions import Fraction
sys.path.insert(0, os.path.join(os.path.dirname(os.path.abspath(__file__)), '..', 'lib'))
sys.path.insert(0, os.path.dirname(os.path.abspath(__file__)))
import vlib

PROP = 'C03'
XSLNS = 'http://www.w3.org/1999/XSL/Transform'


def load_known_with_extra(prop, _orig=vlib.load_known):
    """KNOWN_FINDINGS.json plus, when VERIF_KNOWN_EXTRA names a file (proposed entries not merged yet), its entries."""
    known = _orig(prop)
    extra = os.environ.get('VERIF_KNOWN_EXTRA')
    if extra:
        with open(extra) as f:
            data = json.load(f)
        ents = data.get('findings', []) if isinstance(data, dict) else data
        known += [e for e in ents if e.get('property') == prop and e.get('status') == 'open']
    return known


vlib.load_known = load_known_with_extra


def B(s):
    return s if isinstance(s, bytes) else s.encode('utf-8')


# ---------------------------------------------------------------------------------------------
# a minimal XML tree that keeps attribute values RAW (so that an edit can write text that is not even well formed)

class El:
    __slots__ = ('name', 'attrs', 'kids', 'id')

    def __init__(self, name, attrs=None, kids=None, id=None):
        self.name, self.attrs, self.kids, self.id = name, attrs or [], kids or [], id

    def clone(self):
        return El(self.name, [list(a) for a in self.attrs], [k.clone() if isinstance(k, El) else k for k in self.kids], self.id)


TAG_RE = re.compile(r'<(/?)([\w:.-]+)((?:\s+[\w:.-]+\s*=\s*(?:"[^"]*"|\'[^\']*\'))*)\s*(/?)>', re.S)
ATTR_RE = re.compile(r'([\w:.-]+)\s*=\s*(?:"([^"]*)"|\'([^\']*)\')', re.S)


def parse_xml(text):
    """parses the subset used by the seed stylesheets (elements, attributes, text with entity references kept raw)"""
    pos = 0
    root = None
    stack = []
    counter = [0]
    for m in TAG_RE.finditer(text):
        if m.start() > pos and stack:
            stack[-1].kids.append(text[pos:m.start()])
        pos = m.end()
        close, name, attrs, selfclose = m.group(1), m.group(2), m.group(3), m.group(4)
        if close:
            assert stack and stack[-1].name == name, (name, text[:80])
            stack.pop()
            continue
        e = El(name, [[a.group(1), a.group(2) if a.group(2) is not None else a.group(3)] for a in ATTR_RE.finditer(attrs)], id=counter[0])
        counter[0] += 1
        if stack:
            stack[-1].kids.append(e)
        else:
            root = e
        if not selfclose:
            stack.append(e)
    assert not stack and root is not None, text[:80]
    return root


def ser(e, out=None):
    top = out is None
    if top:
        out = []
    out.append('<' + e.name)
    for k, v in e.attrs:
        q = "'" if '"' in v and "'" not in v else '"'
        out.append(' %s=%s%s%s' % (k, q, v, q))
    if not e.kids:
        out.append('/>')
    else:
        out.append('>')
        for k in e.kids:
            if isinstance(k, El):
                ser(k, out)
            else:
                out.append(k)
        out.append('</' + e.name + '>')
    if top:
        return ''.join(out)


def walk(e, parent=None):
    yield e, parent
    for k in e.kids:
        if isinstance(k, El):
            yield from walk(k, e)


def find(root, id_):
    for e, p in walk(root):
        if e.id == id_:
            return e, p
    return None, None


# ---------------------------------------------------------------------------------------------
# the edit menu of family (b)

NASTY = [
    ('empty', ''), ('lbrace', '{'), ('rbrace', '}'), ('lbrace2', '{{'), ('quote', "'"), ('1e400', '1e400'),
    ('4k', 'x' * 4096), ('qname3', 'a:b:c'), ('undeclared', 'zz:x'), ('xmlns', 'xmlns'), ('nonbmp', '\U00010400'),
    ('surrogate-ref', '&#xD800;'), ('nul-ref', '&#0;'), ('neg', '-1'),
]
WRONG_NS = 'http://www.w3.org/1999/XSL/TransformX'


def is_xsl(e):
    return e.name.startswith('xsl:')


def edits_of(root, with_recursion=True):
    """every single edit applicable to the tree: list of (site label, function(tree copy) -> bool applied).
    Targets are addressed by node id so that a second edit can be applied after a first one."""
    out = []
    templates = [e for e, p in walk(root) if e.name == 'xsl:template']
    for e, parent in walk(root):
        nm = e.name
        for ai, (an, av) in enumerate(e.attrs):
            def del_attr(t, id_=e.id, an=an):
                x, _ = find(t, id_)
                if x is None:
                    return False
                n = len(x.attrs)
                x.attrs = [a for a in x.attrs if a[0] != an]
                return len(x.attrs) != n
            out.append(('%s@%s:del-attr' % (nm, an), del_attr))
            for vn, vv in NASTY:
                def set_attr(t, id_=e.id, an=an, vv=vv):
                    x, _ = find(t, id_)
                    if x is None:
                        return False
                    for a in x.attrs:
                        if a[0] == an:
                            a[1] = vv
                            return True
                    return False
                out.append(('%s@%s:set(%s)' % (nm, an, vn), set_attr))
        if parent is not None:
            def del_elem(t, id_=e.id):
                x, p = find(t, id_)
                if x is None or p is None:
                    return False
                p.kids = [k for k in p.kids if k is not x]
                return True
            out.append(('%s:del-elem' % nm, del_elem))

            def dup_elem(t, id_=e.id):
                x, p = find(t, id_)
                if x is None or p is None:
                    return False
                i = [j for j, k in enumerate(p.kids) if k is x][0]
                c = x.clone()
                for y, _ in walk(c):
                    y.id = None
                p.kids.insert(i + 1, c)
                return True
            out.append(('%s:dup-elem' % nm, dup_elem))
            if parent is root:
                # a top-level element moves into a template (the first one that is not itself)
                tgt = [t_ for t_ in templates if t_ is not e]
                if tgt:
                    def move_in(t, id_=e.id, tid=tgt[0].id):
                        x, p = find(t, id_)
                        y, _ = find(t, tid)
                        if x is None or p is None or y is None:
                            return False
                        p.kids = [k for k in p.kids if k is not x]
                        y.kids.insert(0, x)
                        return True
                    out.append(('%s:move-into-template' % nm, move_in))
            else:
                def move_top(t, id_=e.id):
                    x, p = find(t, id_)
                    if x is None or p is None:
                        return False
                    p.kids = [k for k in p.kids if k is not x]
                    t.kids.append(x)
                    return True
                out.append(('%s:move-to-top' % nm, move_top))
        # namespace of the element: none at all / a prefix bound to a different URI / an LRE claimed for XSLT
        if is_xsl(e):
            def ns_none(t, id_=e.id):
                x, _ = find(t, id_)
                if x is None or ':' not in x.name:
                    return False
                x.name = x.name.split(':', 1)[1]
                return True
            out.append(('%s:ns-none' % nm, ns_none))

            def ns_wrong(t, id_=e.id):
                x, _ = find(t, id_)
                if x is None or ':' not in x.name:
                    return False
                x.name = 'w:' + x.name.split(':', 1)[1]
                if not any(a[0] == 'xmlns:w' for a in t.attrs):
                    t.attrs.append(['xmlns:w', WRONG_NS])
                return True
            out.append(('%s:ns-wrong' % nm, ns_wrong))
        elif ':' not in nm:
            def ns_xsl(t, id_=e.id):
                x, _ = find(t, id_)
                if x is None or ':' in x.name:
                    return False
                x.name = 'xsl:' + x.name
                return True
            out.append(('%s:ns-xsl' % nm, ns_xsl))
        if with_recursion and nm == 'xsl:template':
            def recurse(t, id_=e.id):
                x, _ = find(t, id_)
                if x is None:
                    return False
                name = [a[1] for a in x.attrs if a[0] == 'name']
                mode = [a[1] for a in x.attrs if a[0] == 'mode']
                if name:
                    call = El('xsl:call-template', [['name', name[0]]])
                else:
                    call = El('xsl:apply-templates', [['select', '.']] + ([['mode', mode[0]]] if mode else []))
                # after leading xsl:param children
                i = 0
                while i < len(x.kids) and (not isinstance(x.kids[i], El) or x.kids[i].name == 'xsl:param'):
                    i += 1
                x.kids.insert(i, call)
                return True
            out.append(('%s:recurse' % nm, recurse))
    return out


# ---------------------------------------------------------------------------------------------
# seed corpus of family (b): (name, stylesheet, source, resources)

def S(body, extra=''):
    return '<xsl:stylesheet version="1.0" xmlns:xsl="%s"%s>%s</xsl:stylesheet>' % (XSLNS, extra, body)


DOC1 = '<r><i n="3" g="x">c</i><i n="10" g="y">j</i><i n="1" g="x">a</i><e/></r>'
INC = S('<xsl:template name="inc"><inc/></xsl:template><xsl:template match="e"><from-module/></xsl:template>')

SEEDS = [
    ('template', S('<xsl:template match="/"><o><xsl:apply-templates/></o></xsl:template>'
                   '<xsl:template match="i" priority="2"><p/></xsl:template><xsl:template match="i[@g]" mode="m"><q/></xsl:template>')),
    ('apply-templates', S('<xsl:template match="/"><xsl:apply-templates select="r/i" mode="m"/></xsl:template>'
                          '<xsl:template match="i" mode="m"><v><xsl:value-of select="."/></v></xsl:template>')),
    ('call-template', S('<xsl:template match="/"><xsl:call-template name="t"><xsl:with-param name="a" select="2"/></xsl:call-template></xsl:template>'
                        '<xsl:template name="t"><xsl:param name="a" select="1"/><v><xsl:value-of select="$a"/></v></xsl:template>')),
    ('for-each', S('<xsl:template match="/"><o><xsl:for-each select="r/i"><v><xsl:value-of select="position()"/></v></xsl:for-each></o></xsl:template>')),
    ('sort', S('<xsl:template match="/"><o><xsl:for-each select="r/i"><xsl:sort select="@n" data-type="number" order="descending" case-order="upper-first" lang="en"/>'
               '<xsl:value-of select="."/></xsl:for-each></o></xsl:template>')),
    # a sort key that fails at run time for the LAST node (key k1 is not declared), after the keys of the other nodes were computed:
    # whatever the sorter keeps must not reach the golden transformation that follows on the same transformer
    ('sort-key-fails-late', S('<xsl:key name="k3" match="i" use="@g"/><xsl:key name="k10" match="i" use="@g"/><xsl:template match="/"><o><xsl:for-each select="r/i">'
                              '<xsl:sort select="count(key(concat(\'k\', @n), \'x\'))" data-type="number"/><xsl:sort select="concat(@g, count(key(concat(\'k\', @n), \'y\')))"/>'
                              '<xsl:value-of select="."/></xsl:for-each></o></xsl:template>')),
    ('value-of', S('<xsl:template match="/"><o><xsl:value-of select="r/i[2]" disable-output-escaping="no"/></o></xsl:template>')),
    ('copy', S('<xsl:template match="@*|node()"><xsl:copy use-attribute-sets="s"><xsl:apply-templates select="@*|node()"/></xsl:copy></xsl:template>'
               '<xsl:attribute-set name="s"><xsl:attribute name="k">v</xsl:attribute></xsl:attribute-set>')),
    ('copy-of', S('<xsl:template match="/"><o><xsl:copy-of select="r/i[@g=\'x\']"/></o></xsl:template>')),
    ('element', S('<xsl:template match="/"><xsl:element name="el" namespace="urn:n" use-attribute-sets="s"><xsl:value-of select="1"/></xsl:element></xsl:template>'
                  '<xsl:attribute-set name="s"><xsl:attribute name="k">v</xsl:attribute></xsl:attribute-set>')),
    ('attribute', S('<xsl:template match="/"><o><xsl:attribute name="p:a" namespace="urn:n">v<xsl:value-of select="2"/></xsl:attribute></o></xsl:template>')),
    ('attribute-set', S('<xsl:attribute-set name="a" use-attribute-sets="b"><xsl:attribute name="x">1</xsl:attribute></xsl:attribute-set>'
                        '<xsl:attribute-set name="b"><xsl:attribute name="y">2</xsl:attribute></xsl:attribute-set>'
                        '<xsl:template match="/"><o xsl:use-attribute-sets="a"/></xsl:template>')),
    ('text', S('<xsl:template match="/"><o><xsl:text disable-output-escaping="yes">&lt;t&gt;</xsl:text></o></xsl:template>')),
    ('comment', S('<xsl:template match="/"><o><xsl:comment>c<xsl:value-of select="1"/></xsl:comment></o></xsl:template>')),
    ('pi', S('<xsl:template match="/"><o><xsl:processing-instruction name="tgt">d<xsl:value-of select="1"/></xsl:processing-instruction></o></xsl:template>')),
    ('if', S('<xsl:template match="/"><o><xsl:if test="r/i &gt; 2"><y/></xsl:if></o></xsl:template>')),
    ('choose', S('<xsl:template match="/"><o><xsl:choose><xsl:when test="r/none"><a/></xsl:when><xsl:when test="r/i"><b/></xsl:when>'
                 '<xsl:otherwise><c/></xsl:otherwise></xsl:choose></o></xsl:template>')),
    ('variable', S('<xsl:variable name="g" select="count(//i)"/><xsl:template match="/"><xsl:variable name="l"><f><xsl:value-of select="$g"/></f></xsl:variable>'
                   '<o><xsl:copy-of select="$l"/><xsl:value-of select="$g + 1"/></o></xsl:template>')),
    ('param', S('<xsl:param name="p" select="\'d\'"/><xsl:template match="/"><o><xsl:value-of select="$p"/></o></xsl:template>')),
    ('with-param', S('<xsl:template match="/"><xsl:apply-templates select="r/e"><xsl:with-param name="a">rtf</xsl:with-param></xsl:apply-templates></xsl:template>'
                     '<xsl:template match="e"><xsl:param name="a"/><v><xsl:value-of select="$a"/></v></xsl:template>')),
    ('number', S('<xsl:template match="/"><o><xsl:for-each select="r/i"><xsl:number level="single" count="i" from="r" format="1.a" lang="en" letter-value="alphabetic" '
                 'grouping-separator="," grouping-size="3"/></xsl:for-each></o></xsl:template>')),
    ('number-value', S('<xsl:template match="/"><o><xsl:number value="1234567" format="I" grouping-separator="," grouping-size="3"/>'
                       '<xsl:number level="any" count="i|e"/><xsl:number level="multiple" count="*" format="1.1"/></o></xsl:template>')),
    ('key', S('<xsl:key name="k" match="i" use="@g"/><xsl:template match="/"><o><xsl:value-of select="count(key(\'k\',\'x\'))"/></o></xsl:template>')),
    ('import', S('<xsl:import href="inc.xsl"/><xsl:template match="/"><o><xsl:call-template name="inc"/><xsl:apply-templates select="r/e"/></o></xsl:template>'
                 '<xsl:template match="e"><main/><xsl:apply-imports/></xsl:template>')),
    ('include', S('<xsl:include href="inc.xsl"/><xsl:template match="/"><o><xsl:call-template name="inc"/></o></xsl:template>')),
    ('strip-space', S('<xsl:strip-space elements="r"/><xsl:preserve-space elements="i"/><xsl:template match="/"><o><xsl:value-of select="count(r/text())"/></o></xsl:template>')),
    ('lre-avt', S('<xsl:template match="/"><o a="{r/i[1]}-{{x}}" xml:lang="en" xsl:version="1.0"><p:e xmlns:p="urn:p" p:b="{1+1}"/></o></xsl:template>')),
    ('exclude-result-prefixes', S('<xsl:template match="/"><o xsl:exclude-result-prefixes="q" xmlns:q="urn:q"><a:e/></o></xsl:template>',
                                  ' xmlns:a="urn:a" xmlns:b="urn:b" exclude-result-prefixes="b" extension-element-prefixes="b"')),
    ('namespace-alias', S('<xsl:namespace-alias stylesheet-prefix="o" result-prefix="xsl"/><xsl:template match="/"><o:stylesheet version="1.0"><o:template match="/"/></o:stylesheet></xsl:template>',
                          ' xmlns:o="urn:alias"')),
    ('output-xml', S('<xsl:output method="xml" version="1.0" encoding="UTF-8" omit-xml-declaration="no" standalone="yes" doctype-public="pub" doctype-system="sys" '
                     'cdata-section-elements="c" indent="yes" media-type="text/xml"/><xsl:template match="/"><o><c>x&lt;y</c></o></xsl:template>')),
    ('output-html', S('<xsl:output method="html" encoding="ISO-8859-1" indent="no"/><xsl:template match="/"><html><body><p title="&#233;">t<br/></p></body></html></xsl:template>')),
    ('output-text', S('<xsl:output method="text" encoding="UTF-16"/><xsl:template match="/">t<xsl:value-of select="r/i[1]"/></xsl:template>')),
    ('decimal-format', S('<xsl:decimal-format name="d" decimal-separator="," grouping-separator="." infinity="INF" minus-sign="-" NaN="nan" percent="%" per-mille="&#8240;" '
                         'zero-digit="0" digit="#" pattern-separator=";"/><xsl:template match="/"><o><xsl:value-of select="format-number(1234.5,\'#.##0,00\',\'d\')"/></o></xsl:template>')),
    ('format-number', S('<xsl:template match="/"><o><xsl:value-of select="format-number(sum(r/i/@n) div 7,\'#,##0.00;(#)\')"/></o></xsl:template>')),
    ('message', S('<xsl:template match="/"><o><xsl:message terminate="no">m<xsl:value-of select="1"/></xsl:message></o></xsl:template>')),
    ('fallback', S('<xsl:template match="/"><o><x:ext xmlns:x="urn:x" xsl:extension-element-prefixes="x"><xsl:fallback><f/></xsl:fallback></x:ext></o></xsl:template>')),
    ('document', S('<xsl:template match="/"><o><xsl:value-of select="count(document(\'inc.xsl\')//*)"/><xsl:value-of select="count(document(\'\')//*)"/></o></xsl:template>')),
    ('functions', S('<xsl:template match="/"><o a="{generate-id(r) = generate-id(r)}"><xsl:value-of select="concat(system-property(\'xsl:version\'),function-available(\'key\'),'
                    'element-available(\'xsl:if\'),unparsed-entity-uri(\'u\'),name(current()))"/></o></xsl:template>')),
    ('modes-priority', S('<xsl:template match="i" priority="1.5" mode="a"><one/></xsl:template><xsl:template match="r/i" mode="a"><two/></xsl:template>'
                         '<xsl:template match="/"><xsl:apply-templates select="//i" mode="a"/></xsl:template>')),
    ('apply-imports', S('<xsl:import href="inc.xsl"/><xsl:template match="e"><xsl:apply-imports/></xsl:template>')),
    ('simplified', '<o xsl:version="1.0" xmlns:xsl="%s"><xsl:value-of select="count(//i)"/></o>' % XSLNS),
    ('rtf-nodeset', S('<xsl:variable name="t"><a>1</a><a>2</a></xsl:variable><xsl:template match="/"><o><xsl:value-of select="string($t)"/><xsl:for-each select="r/i[position() &lt; 2]">'
                      '<xsl:copy/></xsl:for-each></o></xsl:template>')),
]
SEED_RES = {'inc.xsl': INC}
# ten small seeds for the 2-deviation level
SUBSET2 = ['apply-templates', 'call-template', 'for-each', 'value-of', 'copy-of', 'attribute', 'if', 'param', 'key', 'lre-avt']


def seed_trees():
    return [(n, parse_xml(x)) for n, x in SEEDS]


# ---------------------------------------------------------------------------------------------
# family (a): XPath token strings

def tokens30():
    import c02
    # the alphabet is the literal list inside c02.gen_cases (family 'tokens'); read it from the source so that both checks
    # enumerate the same strings
    src = open(c02.__file__).read()
    m = re.search(r"toks = (\[.*?\])\n\s*maxlen", src, re.S)
    toks = eval(m.group(1))
    assert len(toks) == 30, toks
    return toks


TOK12 = ['a', '*', '/', '//', '(', ')', '[', ']', '|', '-', '1', '@']
XP_DOC = '<r a="1"><a>1</a><b>2</b><b>3</b></r>'


def xp_case(fam, expr, site=None, timeout=None):
    return {'fam': fam, 'k': 'xp', 'expr': expr, 'site': site or expr, 'nonseed': True, 'timeout': timeout}


def blocks_xpath(tier):
    toks = tokens30()
    assert all(t in toks for t in TOK12)
    max30 = 4 if tier == 'thorough' else 3
    max12 = 5 if tier == 'thorough' else 4
    out = []

    def add(alpha, n):
        plen = min(2, n - 1)
        for prefix in itertools.product(alpha, repeat=plen):
            def gen(prefix=prefix, alpha=alpha, n=n):
                for rest in itertools.product(alpha, repeat=n - len(prefix)):
                    yield xp_case('xpath', ' '.join(prefix + rest))
            out.append(('xpath', len(alpha) ** (n - plen), gen))
    for n in range(1, max30 + 1):
        add(toks, n)
    for n in range(max30 + 1, max12 + 1):
        add(TOK12, n)

    # expression lengths around the fixed-size buffers of the C API transcoding (100 units on the stack, 1024-unit blocks)
    def lengths():
        for L in list(range(94, 106)) + list(range(1018, 1030)) + [2047, 2048, 2049]:
            for ch, w in (('x', 1), ('é', 2), ('€', 3), ('\U00010400', 4)):
                n = max(0, (L - 2) // w)
                yield xp_case('xpath', "'" + ch * n + "'", site='literal-length')
                yield xp_case('xpath', "'" + 'x' * ((L - 2) - n * w if w > 1 else 0) + ch * n + "'", site='literal-length')
            yield xp_case('xpath', '1' + ' ' * (L - 1), site='literal-length')
        for bad in (b'\x80', b'\xff', b'\xc3', b"'\xed\xa0\x80'", b"'\xf4\x90\x80\x80'", b"'\xc0\x80'"):
            yield {'fam': 'xpath', 'k': 'xp', 'expr': bad, 'site': 'invalid-utf8', 'nonseed': True, 'timeout': None, 'no_agree': True}
    out.append(('xpath', 250, lengths))
    return out


# ---------------------------------------------------------------------------------------------
# family (b): stylesheet deviations

def tr_case(fam, xsl, xml, site, entry='stream', opts=(), res=None, nonseed=True, timeout=None, parts=None):
    o = ['e:' + entry] + list(opts)
    for k, v in (res or {}).items():
        o.append(B('r:%s=' % k) + B(v))
    return {'fam': fam, 'k': 'tr', 'xsl': B(xsl), 'xml': B(xml), 'opts': o, 'site': site, 'nonseed': nonseed, 'timeout': timeout,
            'parts': parts, 'entry': entry}


INVALID_SHEETS = [
    ('key-use-calls-key', S('<xsl:key name="k" match="i" use="key(\'k\', @g)/@n"/><xsl:template match="/"><o><xsl:value-of select="count(key(\'k\', \'3\'))"/></o></xsl:template>')),
    ('key-use-calls-other-key', S('<xsl:key name="k" match="i" use="key(\'j\', @g)/@n"/><xsl:key name="j" match="i" use="key(\'k\', @n)/@g"/><xsl:template match="/"><o><xsl:value-of select="count(key(\'k\', \'3\'))"/></o></xsl:template>')),
    ('key-match-calls-key', S('<xsl:key name="k" match="key(\'k\', \'x\')" use="@n"/><xsl:template match="/"><o><xsl:value-of select="count(key(\'k\', \'3\'))"/></o></xsl:template>')),
    ('key-use-variable', S('<xsl:variable name="v" select="1"/><xsl:key name="k" match="i" use="$v"/><xsl:template match="/"><o><xsl:value-of select="count(key(\'k\', \'1\'))"/></o></xsl:template>')),
    ('key-match-variable', S('<xsl:variable name="v" select="1"/><xsl:key name="k" match="i[$v]" use="@n"/><xsl:template match="/"><o><xsl:value-of select="count(key(\'k\', \'3\'))"/></o></xsl:template>')),
    ('template-match-variable', S('<xsl:variable name="v" select="1"/><xsl:template match="i[$v]"><p/></xsl:template><xsl:template match="/"><o><xsl:apply-templates select="//i"/></o></xsl:template>')),
    ('circular-global-variables', S('<xsl:variable name="a" select="$b + 1"/><xsl:variable name="b" select="$a + 1"/><xsl:template match="/"><o><xsl:value-of select="$a"/></o></xsl:template>')),
    ('circular-global-through-template', S('<xsl:variable name="a"><xsl:call-template name="t"/></xsl:variable><xsl:template name="t"><xsl:value-of select="$a"/></xsl:template><xsl:template match="/"><o><xsl:value-of select="$a"/></o></xsl:template>')),
    ('circular-key-in-global', S('<xsl:key name="k" match="i" use="@n"/><xsl:variable name="a" select="count(key(\'k\', $a))"/><xsl:template match="/"><o><xsl:value-of select="$a"/></o></xsl:template>')),
    ('attribute-set-cycle', S('<xsl:attribute-set name="a" use-attribute-sets="b"><xsl:attribute name="x">1</xsl:attribute></xsl:attribute-set><xsl:attribute-set name="b" use-attribute-sets="a"/>'
                              '<xsl:template match="/"><o xsl:use-attribute-sets="a"/></xsl:template>')),
    ('attribute-set-self', S('<xsl:attribute-set name="a" use-attribute-sets="a"><xsl:attribute name="x">1</xsl:attribute></xsl:attribute-set><xsl:template match="/"><o xsl:use-attribute-sets="a"/></xsl:template>')),
    ('import-itself', S('<xsl:import href="main.xsl"/><xsl:template match="/"><o/></xsl:template>')),
    ('include-itself', S('<xsl:include href="main.xsl"/><xsl:template match="/"><o/></xsl:template>')),
    ('duplicate-named-templates', S('<xsl:template name="t"><a/></xsl:template><xsl:template name="t"><b/></xsl:template><xsl:template match="/"><o><xsl:call-template name="t"/></o></xsl:template>')),
    ('call-unknown-template', S('<xsl:template match="/"><o><xsl:call-template name="nosuch"/></o></xsl:template>')),
    ('duplicate-variable-in-scope', S('<xsl:template match="/"><o><xsl:variable name="v" select="1"/><xsl:variable name="v" select="2"/><xsl:value-of select="$v"/></o></xsl:template>')),
    ('param-after-content', S('<xsl:template match="/"><o><xsl:call-template name="t"/></o></xsl:template><xsl:template name="t"><a/><xsl:param name="p" select="1"/><xsl:value-of select="$p"/></xsl:template>')),
    ('apply-imports-in-for-each', S('<xsl:template match="/"><o><xsl:for-each select="//i"><xsl:apply-imports/></xsl:for-each></o></xsl:template>')),
    ('apply-imports-without-current-rule', S('<xsl:template match="/"><o><xsl:call-template name="t"/></o></xsl:template><xsl:template name="t"><xsl:for-each select="//i"><xsl:apply-imports/></xsl:for-each></xsl:template>')),
    ('unknown-decimal-format', S('<xsl:template match="/"><o><xsl:value-of select="format-number(1, \'0\', \'nosuch\')"/></o></xsl:template>')),
    ('duplicate-decimal-format', S('<xsl:decimal-format name="d" decimal-separator=","/><xsl:decimal-format name="d" decimal-separator=";"/><xsl:template match="/"><o><xsl:value-of select="format-number(1.5, \'0,0\', \'d\')"/></o></xsl:template>')),
    ('sort-outside', S('<xsl:template match="/"><o><xsl:sort select="."/><xsl:if test="1"><xsl:sort select="."/></xsl:if></o></xsl:template>')),
    ('namespace-alias-unknown-prefix', S('<xsl:namespace-alias stylesheet-prefix="zz" result-prefix="yy"/><xsl:template match="/"><o/></xsl:template>')),
    ('element-prefix-undeclared', S('<xsl:template match="/"><xsl:element name="zz:e"><xsl:attribute name="yy:a">1</xsl:attribute></xsl:element></xsl:template>')),
    ('text-with-element-child', S('<xsl:template match="/"><o><xsl:text>a<b/>c</xsl:text></o></xsl:template>')),
    ('value-of-with-content', S('<xsl:template match="/"><o><xsl:value-of select="1">x<b/></xsl:value-of></o></xsl:template>')),
    ('attribute-after-child', S('<xsl:template match="/"><o><b/><xsl:attribute name="a">1</xsl:attribute></o></xsl:template>')),
    ('attribute-at-top', S('<xsl:template match="/"><xsl:attribute name="a">1</xsl:attribute><o/></xsl:template>')),
    ('number-from-root-any', S('<xsl:template match="/"><o><xsl:number level="any" from="/" count="/"/><xsl:number level="multiple" count="/" from="nosuch"/></o></xsl:template>')),
    ('message-terminate-in-global', S('<xsl:variable name="g"><xsl:message terminate="yes">stop</xsl:message></xsl:variable><xsl:template match="/"><o><xsl:value-of select="$g"/></o></xsl:template>')),
    ('document-of-itself-recursive', S('<xsl:template match="/"><o><xsl:apply-templates select="document(\'\')/*/xsl:template" mode="m"/></o></xsl:template><xsl:template match="xsl:template" mode="m"><t><xsl:apply-templates select="document(\'\')/*/xsl:variable" mode="m"/></t></xsl:template>')),
]


def blocks_stylesheet(tier):
    thorough = tier == 'thorough'
    entries1 = ['stream', 'compiled-st', 'capis', 'mixed', 'target'] if thorough else ['stream', 'compiled-st']
    out = []
    seeds = seed_trees()

    def seed0():
        for name, tree in seeds:
            for en in ['stream', 'target', 'compiled-st', 'compiled-xw', 'mixed', 'pi', 'capi', 'capis']:
                yield tr_case('stylesheet', ser(tree), DOC1, 'seed:' + name, en, res=SEED_RES, nonseed=False)
    out.append(('stylesheet', len(seeds) * 8, seed0))

    # stylesheets with a semantic error that only a check of the PROCESSOR finds (the XML is well formed, every instruction is known):
    # each must be answered by an error or by a defined recovery, never by a crash, a hang or an endless recursion
    def invalid():
        for name, x in INVALID_SHEETS:
            for en in ['stream', 'compiled-st'] + (['capis', 'mixed'] if thorough else []):
                yield tr_case('stylesheet', x, DOC1, 'invalid:' + name, en, ['o:cap=%d' % RECURSION_CAP_MB], res=SEED_RES, timeout=30)
    out.append(('stylesheet', len(INVALID_SHEETS) * 2, invalid))
    for name, tree in seeds:
        eds = edits_of(tree)
        # the edits that make a template call itself run until the memory cap: one block each so that they spread over the shards
        slow = [i for i, (site, fn) in enumerate(eds) if site.endswith(':recurse')]
        fast = [i for i in range(len(eds)) if i not in slow]

        def gen(idx, name=name, tree=tree, eds=eds):
            for i in idx:
                site, fn = eds[i]
                t = tree.clone()
                if not fn(t):
                    continue
                x = ser(t)
                rec = site.endswith(':recurse')
                for en in entries1:
                    if rec and en in ('mixed', 'target'):
                        continue        # same doTransform as stream / compiled-st; each such case runs until the memory cap
                    yield tr_case('stylesheet', x, DOC1, site, en, ['o:cap=%d' % RECURSION_CAP_MB] if rec else (), res=SEED_RES, timeout=30 if rec else None)
        for chunk in range(0, len(fast), 40):
            idx = fast[chunk:chunk + 40]
            out.append(('stylesheet', len(idx) * len(entries1), lambda idx=idx, gen=gen: gen(idx)))
        for i in slow:
            out.append(('stylesheet', len(entries1), lambda i=i, gen=gen: gen([i])))
    if thorough:
        for name, tree in seeds:
            if name not in SUBSET2:
                continue
            eds = edits_of(tree, with_recursion=False)
            for i in range(len(eds)):
                def gen2(i=i, tree=tree, eds=eds):
                    s1, f1 = eds[i]
                    t1 = tree.clone()
                    if not f1(t1):
                        return
                    for j in range(i + 1, len(eds)):
                        s2, f2 = eds[j]
                        t2 = t1.clone()
                        if not f2(t2):
                            continue
                        yield tr_case('stylesheet2', ser(t2), DOC1, s1 + '+' + s2, 'stream', res=SEED_RES)
                out.append(('stylesheet2', len(eds) - i - 1, gen2))
    return out


# ---------------------------------------------------------------------------------------------
# family (c): source bytes

SRC_XSL = S('<xsl:key name="k" match="*" use="name()"/>'
            '<xsl:template match="/"><out><xsl:copy-of select="."/><xsl:for-each select="//node()|//@*|//namespace::*">'
            '<n t="{name()}" u="{namespace-uri()}" l="{local-name()}"><xsl:value-of select="."/></n></xsl:for-each>'
            '<xsl:value-of select="count(id(\'i1\'))"/><xsl:value-of select="count(key(\'k\',\'r\'))"/>'
            '<xsl:value-of select="unparsed-entity-uri(\'u\')"/><xsl:value-of select="string-length(normalize-space(.))"/></out></xsl:template>')

SRC_DOCS = [
    ('plain', b'<r a="1"><b>t</b><c/></r>'),
    ('utf8', b'<?xml version="1.0" encoding="UTF-8"?><r a="\xc3\xa9">\xe2\x82\xac\xf0\x90\x90\x80</r>'),
    ('refs', b'<r a="&lt;&#65;&#x10000;">&amp;&gt;&quot;&apos;&#9;</r>'),
    ('misc', b'<r><!--c--><?t d?><![CDATA[<x>]]></r>'),
    ('ns', b'<p:r xmlns:p="urn:p" xmlns="urn:d" xml:lang="en" xml:space="preserve"><a p:b="1"> </a></p:r>'),
    ('dtd', b'<!DOCTYPE r [<!ATTLIST i id ID #IMPLIED d CDATA "v"><!ENTITY e "x"><!ENTITY u SYSTEM "u.gif" NDATA g><!NOTATION g SYSTEM "g">]><r><i id="i1">&e;</i></r>'),
    ('utf16', '\ufeff<?xml version="1.0" encoding="UTF-16"?><r a="é">t</r>'.encode('utf-16-le')),
    ('latin1', b'<?xml version="1.0" encoding="ISO-8859-1"?><r a="\xe9">\xff</r>'),
]
BYTE_MENU = [b'<', b'>', b'&', b'"', b'\x00', b'\x80', b'\xff']
SRC_ENTRIES = ['stream', 'compiled-st', 'compiled-xw']


def bname(b):
    return {b'<': 'lt', b'>': 'gt', b'&': 'amp', b'"': 'quot', b'\x00': 'nul', b'\x80': 'x80', b'\xff': 'xff'}[b]


def blocks_source(tier):
    docs = SRC_DOCS if tier == 'thorough' else SRC_DOCS[:3]
    out = []

    def seed0():
        for name, d in SRC_DOCS:
            for en in SRC_ENTRIES + ['capi', 'capis', 'pi']:
                yield tr_case('source', SRC_XSL, d, 'seed:' + name, en, nonseed=False)
    out.append(('source', len(SRC_DOCS) * 6, seed0))
    for name, d in docs:
        L = len(d)
        for lo in range(0, L + 1, 8):
            def gen(lo=lo, name=name, d=d, L=L):
                for p in range(lo, min(lo + 8, L + 1)):
                    variants = []
                    if p < L:
                        variants.append(('%s:truncate' % name, d[:p]))
                        for b in BYTE_MENU:
                            if d[p:p + 1] != b:
                                variants.append(('%s:replace(%s)' % (name, bname(b)), d[:p] + b + d[p + 1:]))
                    for b in BYTE_MENU:
                        variants.append(('%s:insert(%s)' % (name, bname(b)), d[:p] + b + d[p:]))
                    for site, v in variants:
                        for en in SRC_ENTRIES:
                            yield tr_case('source', SRC_XSL, v, site, en)
            out.append(('source', 8 * 15 * 3, gen))

    # declared encoding vs actual bytes
    def enc():
        body = '<r a="é">€</r>'
        decls = ['UTF-8', 'UTF-16', 'UTF-16LE', 'UTF-16BE', 'ISO-8859-1', 'US-ASCII', 'UCS-4', 'ISO-10646-UCS-4', 'windows-1252', 'IBM037',
                 'EBCDIC-CP-US', 'Shift_JIS', 'x-nope', '', 'utf-8', 'UTF-7', 'UTF-32']
        reals = [('utf-8', ''), ('utf-8', '\ufeff'), ('utf-16-le', ''), ('utf-16-le', '\ufeff'), ('utf-16-be', ''), ('utf-16-be', '\ufeff'),
                 ('utf-32-le', ''), ('utf-32-be', '\ufeff'), ('latin-1', ''), ('cp037', '')]
        for dn in decls:
            for rn, bom in reals:
                text = '%s<?xml version="1.0" encoding="%s"?>%s' % (bom, dn, body if rn not in ('latin-1', 'cp037') else '<r a="é">t</r>')
                data = text.encode(rn)
                site = 'encoding:declared(%s)-actual(%s%s)' % (dn or 'empty', rn, '+bom' if bom else '')
                for en in SRC_ENTRIES:
                    yield tr_case('source', SRC_XSL, data, site, en)
        # UTF-16 with an odd number of bytes, every BOM followed by every other declaration is above; odd lengths here
        for rn in ('utf-16-le', 'utf-16-be'):
            for bom in ('', '\ufeff'):
                data = ('%s<?xml version="1.0" encoding="UTF-16"?><r>t€</r>' % bom).encode(rn)
                for cut in (1, 3):
                    for en in SRC_ENTRIES:
                        yield tr_case('source', SRC_XSL, data[:-cut], 'encoding:utf16-odd-length(%s)' % rn, en)
                for extra in (b'\x00', b'<', b'\xd8', b'\xff'):
                    for en in SRC_ENTRIES:
                        yield tr_case('source', SRC_XSL, data + extra, 'encoding:utf16-odd-length(%s)' % rn, en)
        for en in SRC_ENTRIES:
            yield tr_case('source', SRC_XSL, b'', 'empty-document', en)
            yield tr_case('source', SRC_XSL, b'\xef\xbb\xbf', 'bom-only', en)
            yield tr_case('source', SRC_XSL, b'\xff\xfe', 'bom-only', en)
            yield tr_case('source', SRC_XSL, b'\xef\xbb\xbf\xff\xfe<\x00r\x00/\x00>\x00', 'two-boms', en)
    out.append(('source', 600, enc))
    return out


# ---------------------------------------------------------------------------------------------
# family (d): magnitudes and nesting depths

def exact_decimal(fr):
    """exact decimal expansion (no exponent: XPath has none) of a Fraction whose denominator is 2^m * 5^n"""
    neg = fr < 0
    fr = abs(fr)
    ip = fr.numerator // fr.denominator
    rem = fr - ip
    if rem == 0:
        s = str(ip)
    else:
        d = rem.denominator
        m = 0
        while d % 10 == 0:
            d //= 10
            m += 1
        a = b = 0
        while d % 2 == 0:
            d //= 2
            a += 1
        while d % 5 == 0:
            d //= 5
            b += 1
        assert d == 1
        k = m + max(a, b)
        digits = rem.numerator * (10 ** k // rem.denominator)
        s = '%d.%s' % (ip, str(digits).zfill(k).rstrip('0'))
    return ('-' if neg else '') + s


def neighbours(x):
    bits = struct.unpack('>Q', struct.pack('>d', x))[0]
    out = []
    for b in (bits - 1, bits + 1):
        if 0 < b < 0x7ff0000000000000:
            out.append(struct.unpack('>d', struct.pack('>Q', b))[0])
    return out


def magnitude_numbers(tier):
    """(label, literal) pairs"""
    thorough = tier == 'thorough'
    out = []
    for k in range(-330, 311, 1 if thorough else 10):
        fr = Fraction(10) ** k
        out.append(('10^%d' % k, exact_decimal(fr)))
        out.append(('-10^%d' % k, exact_decimal(-fr)))
    for k in range(-1080, 1031, 1 if thorough else 16):
        fr = Fraction(2) ** k
        vals = [('2^%d' % k, fr)]
        if 0 <= k <= 64:
            vals += [('2^%d-1' % k, fr - 1), ('2^%d+1' % k, fr + 1)]
        elif -1074 <= k <= 1023:
            vals += [('2^%d%s' % (k, '-ulp' if y < 2.0 ** k else '+ulp'), Fraction(y)) for y in neighbours(2.0 ** k)]
        for lab, v in vals:
            out.append((lab, exact_decimal(v)))
            out.append(('-(' + lab + ')', exact_decimal(-v)))
    for lab, lit in (('0', '0'), ('-0', '-0'), ('nan', '(0 div 0)'), ('inf', '(1 div 0)'), ('-inf', '(-1 div 0)'), ('0.5', '0.5'), ('-0.5', '-0.5'),
                     ('max', exact_decimal(Fraction(1.7976931348623157e308))), ('min-denormal', exact_decimal(Fraction(5e-324)))):
        out.append((lab, lit))
    return out


NUM_CONSTRUCTS = [
    ('value-of', '<xsl:value-of select="N"/>'),
    ('avt', '<e a="{N}"/>'),
    ('string-length', '<xsl:value-of select="string-length(string(N))"/>'),
    ('number(string)', '<xsl:value-of select="number(string(N)) = N"/>'),
    ('xsl:number-1', '<xsl:number value="N"/>'),
    ('xsl:number-a', '<xsl:number value="N" format="a"/>'),
    ('xsl:number-I', '<xsl:number value="N" format="I"/>'),
    ('xsl:number-i', '<xsl:number value="N" format="i"/>'),
    ('xsl:number-001', '<xsl:number value="N" format="001"/>'),
    ('xsl:number-group', '<xsl:number value="N" format="1" grouping-separator="," grouping-size="3"/>'),
    ('xsl:number-greek', '<xsl:number value="N" format="&#x3b1;"/>'),
    ('xsl:number-traditional', '<xsl:number value="N" format="&#x10d0;" letter-value="traditional"/>'),
    ('format-number(#)', '<xsl:value-of select="format-number(N,\'#\')"/>'),
    ('format-number(0.0#)', '<xsl:value-of select="format-number(N,\'0.0#\')"/>'),
    ('format-number(#,##0.00)', '<xsl:value-of select="format-number(N,\'#,##0.00\')"/>'),
    ('format-number(pad40)', '<xsl:value-of select="format-number(N,\'%s.0\')"/>' % ('0' * 40)),
    ('format-number(#%)', '<xsl:value-of select="format-number(N,\'#%\')"/>'),
    ('format-number(permille)', '<xsl:value-of select="format-number(N,\'#&#8240;\')"/>'),
    ('format-number(frac40)', '<xsl:value-of select="format-number(N,\'#.%s\')"/>' % ('#' * 40)),
    ('format-number(neg)', '<xsl:value-of select="format-number(N,\'#;(#)\')"/>'),
    ('format-number(named)', '<xsl:value-of select="format-number(N,\'#.##0,0\',\'d\')"/>'),
    ('substring(s,N)', '<xsl:value-of select="substring(\'abcdef\',N)"/>'),
    ('substring(s,2,N)', '<xsl:value-of select="substring(\'abcdef\',2,N)"/>'),
    ('substring(s,0-N,N)', '<xsl:value-of select="substring(\'abcdef\',0 - N,N)"/>'),
    ('predicate(N)', '<xsl:value-of select="count((//i)[N])"/>'),
    ('predicate(position()<N)', '<xsl:value-of select="count(//i[position() &lt; N])"/>'),
    ('step[N]', '<xsl:value-of select="count(//i[N])"/>'),
    ('round', '<xsl:value-of select="round(N)"/>'),
    ('floor', '<xsl:value-of select="floor(N)"/>'),
    ('ceiling', '<xsl:value-of select="ceiling(N)"/>'),
    ('mod', '<xsl:value-of select="N mod 7"/>'),
    ('div', '<xsl:value-of select="1 div N"/>'),
    ('mul', '<xsl:value-of select="N * N"/>'),
    ('compare', '<xsl:value-of select="N &gt; 1 and N = N"/>'),
    ('sum', '<xsl:value-of select="sum(//i/@n) + N"/>'),
    ('sort', '<xsl:for-each select="//i"><xsl:sort select="@n * N" data-type="number"/><xsl:value-of select="@n"/></xsl:for-each>'),
    ('param-number', '<xsl:value-of select="$p"/><xsl:value-of select="format-number($p,\'#.#\')"/><xsl:number value="$p"/>'),
]
MAG_HEAD = ('<xsl:output omit-xml-declaration="yes"/><xsl:decimal-format name="d" decimal-separator="," grouping-separator="."/>'
            '<xsl:param name="p" select="0"/><xsl:template match="/"><o>')
MAG_TAIL = '</o></xsl:template>'


def mag_xsl(constructs, lit):
    return S(MAG_HEAD + ''.join('<c>%s</c>' % frag.replace('N', lit) for lab, frag in constructs) + MAG_TAIL)


def strtod_text(lit):
    # the decimal handed to strtod for the number-parameter entry point (n: option); expressions fall back to 1
    return lit if re.match(r'^-?[0-9.]+$', lit) else '1'


def blocks_magnitude(tier):
    thorough = tier == 'thorough'
    out = []
    nums = magnitude_numbers(tier)
    for lo in range(0, len(nums), 16):
        def gen(lo=lo):
            for lab, lit in nums[lo:lo + 16]:
                popt = [B('n:p=' + strtod_text(lit))]
                parts = [tr_case('magnitude', mag_xsl([c], lit), DOC1, c[0], 'stream', popt, timeout=1) for c in NUM_CONSTRUCTS]
                c = tr_case('magnitude', mag_xsl(NUM_CONSTRUCTS, lit), DOC1, 'number:' + lab, 'stream', popt, parts=parts, timeout=1)
                c['combine'] = lambda idx, lit=lit: B(mag_xsl([NUM_CONSTRUCTS[i] for i in idx], lit))
                c['label'] = lab
                yield c
        out.append(('magnitude', 16, gen))

    # strings of 2^m characters built by repeated concatenation
    STR_CONSTRUCTS = [
        ('string-length', '<xsl:value-of select="string-length($s)"/>'),
        ('substring-end', '<xsl:value-of select="substring($s,string-length($s) - 1)"/>'),
        ('substring-huge', '<xsl:value-of select="substring($s,2,%s)"/>' % ('9' * 30)),
        ('translate', '<xsl:value-of select="string-length(translate($s,\'a \',\'c\'))"/>'),
        ('normalize-space', '<xsl:value-of select="string-length(normalize-space($s))"/>'),
        ('contains', '<xsl:value-of select="contains($s,\'b a\')"/><xsl:value-of select="substring-before($s,\'zz\')"/>'),
        ('concat', '<xsl:value-of select="string-length(concat($s,$s,$s))"/>'),
        ('text', '<t><xsl:value-of select="$s"/></t>'),
        ('attribute', '<t a="{$s}"/>'),
        ('comment', '<xsl:comment><xsl:value-of select="$s"/></xsl:comment>'),
        ('pi', '<xsl:processing-instruction name="p"><xsl:value-of select="$s"/></xsl:processing-instruction>'),
        ('number', '<xsl:value-of select="number($s)"/>'),
        ('sort-key', '<xsl:for-each select="//i"><xsl:sort select="concat($s,@n)"/><xsl:value-of select="@n"/></xsl:for-each>'),
        ('element-name', '<xsl:element name="{translate($s,\' \',\'\')}"/>'),
    ]
    for m in range(0, (20 if thorough else 16) + 1):
        def gens(m=m):
            def xsl(cs):
                v = ''.join('<xsl:variable name="v%d" select="concat($v%d,$v%d)"/>' % (i, i - 1, i - 1) for i in range(1, m + 1))
                return S('<xsl:output omit-xml-declaration="yes"/><xsl:template match="/"><xsl:variable name="v0" select="\'a\'"/>' + v +
                         '<xsl:variable name="s" select="$v%d"/><o>' % m + ''.join(f for l, f in cs) + '</o></xsl:template>')
            parts = [tr_case('magnitude', xsl([c]), DOC1, 'string:' + c[0], 'stream', timeout=30) for c in STR_CONSTRUCTS]
            c = tr_case('magnitude', xsl(STR_CONSTRUCTS), DOC1, 'string:2^%d' % m, 'stream', timeout=30, parts=parts)
            c['combine'] = lambda idx, xsl=xsl: B(xsl([STR_CONSTRUCTS[i] for i in idx]))
            yield c
        out.append(('magnitude', 1, gens))

    # nesting depths 2^k
    kmax = 14 if thorough else 12
    DEPTH_XSL_PARTS = [
        ('count', '<xsl:value-of select="count(//a)"/>'),
        ('ancestors', '<xsl:value-of select="count((//a)[last()]/ancestor::*)"/>'),
        ('apply-templates', '<xsl:apply-templates/>'),
        ('copy-of', '<xsl:copy-of select="."/>'),
        ('string-value', '<xsl:value-of select="string-length(.)"/>'),
    ]

    def depth_xsl(cs):
        return S('<xsl:output omit-xml-declaration="yes"/><xsl:template match="/"><o>' + ''.join(f for l, f in cs) +
                 '</o></xsl:template><xsl:template match="a"><b><xsl:apply-templates/></b></xsl:template>')

    def sel_xsl(expr):
        return S('<xsl:output omit-xml-declaration="yes"/><xsl:template match="/"><o><xsl:value-of select="%s"/></o></xsl:template>'
                 % expr.replace('&', '&amp;').replace('<', '&lt;').replace('"', '&quot;'))

    XP_SHAPES = [
        ('parens', lambda D: '(' * D + '1' + ')' * D),
        ('predicates-nested', lambda D: 'a' + '[a' * D + ']' * D),
        ('unary-minus', lambda D: '-' * D + '1'),
        ('function-nesting', lambda D: 'not(' * D + '1' + ')' * D),
        ('additions', lambda D: '1' + '+1' * D),
        ('path-steps', lambda D: 'a' + '/a' * D),
        ('unions', lambda D: 'a' + '|a' * D),
        ('predicate-list', lambda D: 'a' + '[1]' * D),
        ('concat-arguments', lambda D: 'concat(' + ','.join(['1'] * (D + 1)) + ')'),
        ('and-chain', lambda D: '1' + ' and 1' * D),
        ('literal-length', lambda D: "'" + 'x' * D + "'"),
        ('name-length', lambda D: 'a' * D),
        ('digits', lambda D: '1' * D),
        ('fraction-digits', lambda D: '0.' + '0' * D + '1'),
    ]
    XSL_SHAPES = [
        ('xsl:if-nesting', lambda D: '<xsl:if test="1">' * D + 'x' + '</xsl:if>' * D),
        ('lre-nesting', lambda D: '<e>' * D + 'x' + '</e>' * D),
        ('for-each-nesting', lambda D: '<xsl:for-each select=".">' * D + 'x' + '</xsl:for-each>' * D),
        ('choose-nesting', lambda D: '<xsl:choose><xsl:when test="1">' * D + 'x' + '</xsl:when></xsl:choose>' * D),
        ('variable-chain', lambda D: '<xsl:variable name="v0" select="1"/>' + ''.join('<xsl:variable name="v%d" select="$v%d + 1"/>' % (i, i - 1) for i in range(1, D + 1)) +
         '<xsl:value-of select="$v%d"/>' % D),
        ('rtf-nesting', lambda D: '<xsl:variable name="v">' + '<e>' * D + 'x' + '</e>' * D + '</xsl:variable><xsl:copy-of select="$v"/>'),
        ('sibling-instructions', lambda D: '<xsl:value-of select="1"/>' * D),
        ('lre-attributes', lambda D: '<e ' + ' '.join('a%d="{%d}"' % (i, i) for i in range(D)) + '/>'),
        ('avt-parts', lambda D: '<e a="' + '{1}x' * D + '"/>'),
    ]
    for k in range(0, kmax + 1):
        D = 2 ** k

        def gd(D=D, k=k):
            tmo = 30
            doc = '<a>' * D + 't' + '</a>' * D
            for en in SRC_ENTRIES:
                parts = [tr_case('magnitude', depth_xsl([c]), doc, 'source-depth:' + c[0], en, timeout=tmo) for c in DEPTH_XSL_PARTS]
                yield tr_case('magnitude', depth_xsl(DEPTH_XSL_PARTS), doc, 'source-depth:2^%d' % k, en, timeout=tmo, parts=parts)
            wide = '<r>' + '<a/>' * D + '</r>'
            yield tr_case('magnitude', depth_xsl(DEPTH_XSL_PARTS[:1] + DEPTH_XSL_PARTS[2:4]), wide, 'source-width:2^%d' % k, 'stream', timeout=tmo)
            attrs = '<r ' + ' '.join('a%d="v"' % i for i in range(D)) + '/>'
            yield tr_case('magnitude', SRC_XSL, attrs, 'source-attributes:2^%d' % k, 'stream', timeout=tmo)
            yield tr_case('magnitude', SRC_XSL, '<r ' + ' '.join('xmlns:p%d="u%d"' % (i, i) for i in range(min(D, 1024))) + '><a/></r>', 'source-namespaces:2^%d' % k, 'stream', timeout=tmo)
            yield tr_case('magnitude', SRC_XSL, '<%s/>' % ('n' * D), 'source-name-length:2^%d' % k, 'stream', timeout=tmo)
            yield tr_case('magnitude', SRC_XSL, '<r a="%s">%s</r>' % ('v' * D, 't' * D), 'source-text-length:2^%d' % k, 'stream', timeout=tmo)
        out.append(('magnitude', 8, gd))

        def gx(D=D, k=k):
            for lab, f in XP_SHAPES:
                e = f(D)
                yield xp_case('magnitude', e, site='xpath-%s:2^%d' % (lab, k), timeout=30)
                yield tr_case('magnitude', sel_xsl(e), DOC1, 'select-%s:2^%d' % (lab, k), 'stream', timeout=30)
        out.append(('magnitude', 2 * len(XP_SHAPES), gx))

        def gs(D=D, k=k):
            for lab, f in XSL_SHAPES:
                # compiling nested instructions costs time quadratic in the depth (measured: 0.7 s at 2^10, 11 s at 2^12; xsl:choose 4x that):
                # only xsl:if goes to 2^(kmax-1), the other nesting shapes stop at 2^(kmax-2)
                nesting = lab.endswith('-nesting')
                if nesting and k > (kmax - 2 if lab != 'xsl:if-nesting' else kmax - 1) - (0 if thorough else 1):
                    continue
                x = S('<xsl:output omit-xml-declaration="yes"/><xsl:template match="/"><o>' + f(D) + '</o></xsl:template>')
                for en in ('stream', 'compiled-st'):
                    if nesting and k > kmax - 2 and en != 'stream':
                        continue
                    yield tr_case('magnitude', x, DOC1, '%s:2^%d' % (lab, k), en, timeout={12: 100, 13: 300}.get(k, 60) if nesting else 30)
            # template recursion of depth D (with a base case) by name and by apply-templates
            rec = S('<xsl:output omit-xml-declaration="yes"/><xsl:template match="/"><o><xsl:call-template name="t"><xsl:with-param name="n" select="%d"/></xsl:call-template></o></xsl:template>'
                    '<xsl:template name="t"><xsl:param name="n"/><xsl:if test="$n &gt; 0"><xsl:call-template name="t"><xsl:with-param name="n" select="$n - 1"/></xsl:call-template></xsl:if>'
                    '<xsl:if test="$n = 0">x</xsl:if></xsl:template>' % D)
            yield tr_case('magnitude', rec, DOC1, 'call-template-recursion:2^%d' % k, 'stream', timeout=30)
            rec2 = S('<xsl:output omit-xml-declaration="yes"/><xsl:template match="/"><o><xsl:apply-templates select="r"><xsl:with-param name="n" select="%d"/></xsl:apply-templates></o></xsl:template>'
                     '<xsl:template match="r"><xsl:param name="n"/><e><xsl:if test="$n &gt; 0"><xsl:apply-templates select="."><xsl:with-param name="n" select="$n - 1"/></xsl:apply-templates></xsl:if></e></xsl:template>' % D)
            yield tr_case('magnitude', rec2, DOC1, 'apply-templates-recursion:2^%d' % k, 'stream', timeout=30)
            if k <= 8:
                res = {}
                for i in range(D):
                    res['m%d.xsl' % i] = S('<xsl:import href="m%d.xsl"/>' % (i + 1))
                res['m%d.xsl' % D] = S('<xsl:template match="/"><deep/></xsl:template>')
                yield tr_case('magnitude', S('<xsl:import href="m0.xsl"/>'), DOC1, 'import-chain:2^%d' % k, 'stream', res=res, timeout=30)
        out.append(('magnitude', 2 * len(XSL_SHAPES) + 3, gs))
    return out


# ---------------------------------------------------------------------------------------------
# families (e) parameters, (f) steady state, (g) entry points

PARAM_XSL = S('<xsl:output omit-xml-declaration="yes"/><xsl:param name="p" select="\'d\'"/><xsl:template match="/"><o b="{boolean($p)}"><xsl:value-of select="$p"/>'
              '<xsl:copy-of select="$p"/><xsl:if test="$p">y</xsl:if></o></xsl:template>')


def blocks_outpos(tier):
    """any Unicode at any output position: N ASCII characters followed by a 2-, 3- or 4-byte character (and an unpaired surrogate
    through a character reference is not possible in XML, so: U+FFFD) in text / attribute / comment, for every N in a window that
    slides the character across every offset of the serializers' 512-unit buffers (thorough: every N up to two buffers, three encodings)"""
    thorough = tier == 'thorough'
    out = []
    pad = '<r><p>' + 'x' * 1200 + '</p></r>'
    chars = [('U+00E9', '\u00e9'), ('U+20AC', '\u20ac'), ('U+1D11E', '\U0001D11E'), ('U+10FFFD', '\U0010FFFD')]
    ns = list(range(0, 1100)) if thorough else list(range(430, 530)) + list(range(950, 1040, 3))
    encs = ['UTF-8', 'UTF-16', 'ISO-8859-1'] if thorough else ['UTF-8']
    ctxs = [('xml', 'text', '<o><xsl:value-of select="substring(/r/p,1,%d)"/>%s%s</o>'),
            ('xml', 'attr', '<o a="{substring(/r/p,1,%d)}%s%s"/>'),
            ('xml', 'comment', '<o><xsl:comment><xsl:value-of select="substring(/r/p,1,%d)"/>%s%s</xsl:comment></o>'),
            ('html', 'text', '<html><body><xsl:value-of select="substring(/r/p,1,%d)"/>%s%s</body></html>'),
            ('html', 'attr', '<html><body title="{substring(/r/p,1,%d)}%s%s"/></html>'),
            ('text', 'text', '<xsl:value-of select="substring(/r/p,1,%d)"/>%s%s')]
    for enc in encs:
        for (method, where, body) in ctxs:
            for lab, ch in chars:
                def gen(enc=enc, method=method, where=where, body=body, lab=lab, ch=ch):
                    for n in ns:
                        x = S('<xsl:output method="%s" encoding="%s"/><xsl:template match="/">%s</xsl:template>' % (method, enc, body % (n, ch, ch + 'y' + ch + 'z' * 700)))
                        c = tr_case('outpos', x, pad, '%s-%s:%s:%s' % (method, where, enc, lab), 'stream', ['o:strip=%d' % (2 if enc == 'UTF-16' else 1)], timeout=5)
                        c['group'] = ('%s-%s:%s:%s' % (method, where, enc, lab), n * (2 if enc == 'UTF-16' else 1))
                        yield c
                out.append(('outpos', len(ns), gen))
    return out


def blocks_param(tier):
    thorough = tier == 'thorough'
    toks = tokens30()
    out = []
    entries = ['stream', 'capis'] if thorough else ['stream']
    maxlen = 3 if thorough else 2
    for n in range(1, maxlen + 1):
        for prefix in itertools.product(toks, repeat=min(1, n - 1) if n < 3 else 2):
            def gen(prefix=prefix, n=n):
                for rest in itertools.product(toks, repeat=n - len(prefix)):
                    e = ' '.join(prefix + rest)
                    for en in entries:
                        yield tr_case('param', PARAM_XSL, DOC1, e, en, [B('p:p=' + e)])
            out.append(('param', 30 ** (n - len(prefix)) * len(entries), gen))

    def names():
        for vn, vv in NASTY:
            if '\t' in vv or '=' in vv:
                continue
            for en in entries:
                yield tr_case('param', PARAM_XSL, DOC1, 'name(%s)' % vn, en, [B('p:%s=1' % vv)])
                yield tr_case('param', PARAM_XSL, DOC1, 'value(%s)' % vn, en, [B('p:p=%s' % vv)])
    out.append(('param', 2 * len(NASTY), names))

    # variable references inside a parameter expression: the expression is evaluated while the top-level variables are being
    # pushed, with none, one or two of them already there (the token alphabet above has no '$')
    def varrefs():
        sheets = [('first', PARAM_XSL),
                  ('after-variable', PARAM_XSL.replace('<xsl:param name="p"', '<xsl:variable name="v" select="7"/><xsl:param name="p"', 1)),
                  ('between', PARAM_XSL.replace('<xsl:param name="p"', '<xsl:variable name="v" select="7"/><xsl:variable name="w" select="/r"/><xsl:param name="p"', 1)
                   .replace('<xsl:template match="/">', '<xsl:variable name="z" select="$p"/><xsl:param name="q" select="2"/><xsl:template match="/">', 1))]
        for lab, x in sheets:
            assert x != PARAM_XSL or lab == 'first'
            for e in VARREFS:
                for en in entries:
                    yield tr_case('param', x, DOC1, 'varref(%s:%s)' % (lab, e), en, [B('p:p=' + e)])
                    yield tr_case('param', x, DOC1, 'varref2(%s:%s)' % (lab, e), en, [B('p:q=' + e), B('p:p=1')])
    out.append(('param', 3 * len(VARREFS) * 2 * len(entries), varrefs))
    return out


VARREFS = ['$p', '$q', '$v', '$w', '$z', '$nosuch', '$p + 1', 'count($w)', '$v | $w', '$w/e', '$p[1]', "concat($v, $nosuch)", '$ p', '$p:p', '$', '$1']


OK_XSL = S('<xsl:output omit-xml-declaration="yes"/><xsl:key name="k" match="i" use="@g"/><xsl:template match="/"><o><xsl:value-of select="count(key(\'k\',\'x\'))"/>'
           '<xsl:for-each select="r/i"><xsl:sort select="@n" data-type="number"/><xsl:number value="@n" format="i"/></xsl:for-each></o></xsl:template>')
BAD_COMPILE_XSL = S('<xsl:template match="/"><o><xsl:value-of select="count(//*"/></o></xsl:template>')
BAD_RUNTIME_XSL = S('<xsl:template match="/"><o><xsl:message terminate="yes">stop</xsl:message></o></xsl:template>')
BAD_RUNTIME2_XSL = S('<xsl:template match="/"><o><xsl:value-of select="$p | 1"/></o></xsl:template><xsl:param name="p" select="1"/>')


def blocks_steady(tier):
    out = []
    reps = 60
    classes = [('ok', OK_XSL, DOC1), ('compile-error', BAD_COMPILE_XSL, DOC1), ('parse-error', OK_XSL, '<r><a></r>'),
               ('runtime-error(message)', BAD_RUNTIME_XSL, DOC1), ('runtime-error(xpath)', BAD_RUNTIME2_XSL, DOC1),
               ('not-well-formed-stylesheet', '<xsl:stylesheet', DOC1)]
    for lab, x, d in classes:
        for en in ['stream', 'compiled-st', 'compiled-xw', 'capis', 'capi']:
            def gen(lab=lab, x=x, d=d, en=en):
                c = tr_case('steady', x, d, '%s:%s' % (en, lab), en, nonseed=False)
                c['reps'] = reps
                yield c
            out.append(('steady', 1, gen))
    for lab, e in [('ok', 'count(//b) + 1'), ('parse-error', 'count(//b'), ('runtime-error', 'a | 1'), ('unknown-function', 'nosuch(1)'), ('unknown-prefix', 'zz:a')]:
        def genx(lab=lab, e=e):
            c = xp_case('steady', e, site='xpath:' + lab)
            c['reps'] = reps
            c['nonseed'] = False
            yield c
        out.append(('steady', 1, genx))
    return out


def blocks_entry(tier):
    def gen():
        for en in ['stream', 'target', 'compiled-st', 'compiled-xw', 'mixed', 'pi', 'capi', 'capis']:
            yield tr_case('entry', OK_XSL, DOC1, en, en, nonseed=False)

    def gen2():
        # transform(const XSLTInputSource&, const XSLTResultTarget&): the inline overload of XalanTransformer.hpp
        yield tr_case('entry', OK_XSL, DOC1, 'pi-target', 'pi-target', nonseed=False, timeout=3)
    return [('entry', 8, gen), ('entry', 1, gen2)]


ONLY = [x for x in os.environ.get('C03_ONLY', '').split(',') if x]     # debugging aid: restrict to some families (evidence says so)


def all_blocks(tier):
    b = (blocks_entry(tier) + blocks_steady(tier) + blocks_magnitude(tier) + blocks_outpos(tier) + blocks_stylesheet(tier) + blocks_source(tier) +
         blocks_param(tier) + blocks_xpath(tier))
    if ONLY:
        b = [x for x in b if x[0] in ONLY]
    return b


# ---------------------------------------------------------------------------------------------
# running cases

ASAN = ('detect_leaks=1:abort_on_error=1:allocator_may_return_null=1:detect_stack_use_after_return=0:symbolize=0:'
        'hard_rss_limit_mb=1500:max_allocation_size_mb=2048:quarantine_size_mb=16')
ENV = {'ASAN_OPTIONS': ASAN, 'LSAN_OPTIONS': 'leak_check_at_exit=0:print_suppressions=0', 'UBSAN_OPTIONS': 'print_stacktrace=0:halt_on_error=0'}
BASE_TIMEOUT = 5          # seconds; vlib re-runs a timed-out request alone with 10x before it counts as a hang
MM_CAP_MB = 192
RECURSION_CAP_MB = 16     # the edits that make a template call itself run until the manager refuses: a smaller budget for those
DRIVER = os.environ.get('C03_DRIVER', 'c03')      # the sensitivity demos point this at a scratch build of the driver


class W(vlib.Worker):
    def stderr_tail(self, n=1 << 19):
        return vlib.Worker.stderr_tail(self, n)


def L1(b):
    return b.decode('latin-1') if isinstance(b, bytes) else b


def case_fields(c, extra=()):
    if c['k'] == 'xp':
        return ['xpc', 'd0', c['expr']] + list(extra)
    return ['trx', c['xsl'], c['xml']] + list(c['opts']) + list(extra)


def case_size(c):
    if c['k'] == 'xp':
        return len(c['expr'])
    return len(c['xsl']) + len(c['xml']) + sum(len(o) for o in c['opts'])


def case_json(c):
    if c['k'] == 'xp':
        return {'k': 'xp', 'fam': c['fam'], 'site': c['site'], 'expr': L1(B(c['expr'])), 'doc': XP_DOC}
    return {'k': 'tr', 'fam': c['fam'], 'site': c['site'], 'xsl': L1(c['xsl']), 'xml': L1(c['xml']), 'opts': [L1(B(o)) for o in c['opts']]}


def case_text(c, limit=300):
    if c['k'] == 'xp':
        t = 'xpath: ' + L1(B(c['expr']))
    else:
        t = 'stylesheet: %s | source: %s | %s' % (L1(c['xsl']), L1(c['xml']), ' '.join(L1(B(o)) for o in c['opts'] if not L1(B(o)).startswith('r:')))
    return t if len(t) <= limit else t[:limit] + '...(%d chars)' % len(t)


FRAME_RE = re.compile(r'^\s*#(\d+) 0x[0-9a-f]+\s+\((\S+?)\+0x([0-9a-f]+)\)', re.M)
UBSAN_RE = re.compile(r'^(\S+?):(\d+):\d+: runtime error: (.*)$', re.M)


def short_fn(fn):
    fn = fn.replace('xalanc_1_12::', '').replace('xercesc_3_2::', 'xercesc::')
    # drop template arguments and the parameter list
    out, depth = [], 0
    for ch in fn:
        if ch == '<':
            depth += 1
        elif ch == '>':
            depth -= 1
        elif depth == 0:
            out.append(ch)
    fn = ''.join(out)
    p = fn.find('(')
    if p > 0:
        fn = fn[:p]
    return fn.split(' ')[-1]


class Symbolizer:
    def __init__(self):
        self.cache = {}
        self.lines = {}

    def resolve(self, frames):
        """frames: list of (module, hexoffset) -> list of (function, file) (innermost inlined frame)"""
        need = {}
        for m, o in frames:
            if (m, o) not in self.cache:
                need.setdefault(m, []).append(o)
        for m, offs in need.items():
            try:
                import subprocess
                p = subprocess.run(['llvm-symbolizer', '--obj=' + m, '-f', '-C'] + ['0x' + o for o in offs], stdout=subprocess.PIPE,
                                   stderr=subprocess.DEVNULL, timeout=300)
                blocks = p.stdout.decode('utf-8', 'replace').strip('\n').split('\n\n')
            except Exception:
                blocks = []
            for i, o in enumerate(offs):
                fn, fl, ln = '?', '?', '?'
                if i < len(blocks):
                    ls = blocks[i].split('\n')
                    if len(ls) >= 2:
                        fn = ls[0]
                        fl, ln = (ls[1].rsplit(':', 2) + ['?'])[:2]
                self.cache[(m, o)] = (fn, fl)
                self.lines[(m, o)] = ln
        return [self.cache[(m, o)] for m, o in frames]

    def pretty(self, text, limit=14):
        """the first stack of a sanitizer report as 'function file:line' lines"""
        m = re.search(r'ERROR: AddressSanitizer', text)
        seg = text[m.start():] if m else text
        frames, last = [], -1
        for fm in FRAME_RE.finditer(seg):
            n = int(fm.group(1))
            if n <= last:
                break
            last = n
            frames.append((fm.group(2), fm.group(3)))
        frames = frames[:limit]
        res = self.resolve(frames)
        return ['#%d %s %s:%s' % (i, short_fn(fn), fl.replace('/repo/src/xalanc/', ''), self.lines.get(frames[i], '?')) for i, (fn, fl) in enumerate(res)]


GENERIC_FILES = ('XalanVector.hpp', 'XalanList.hpp', 'XalanMap.hpp', 'XalanDeque.hpp', 'XalanSet.hpp', 'STLHelper.hpp', 'XalanMemMgrAutoPtr.hpp',
                 'XalanMemoryManagement.hpp', 'XalanDOMString.hpp', 'XalanDOMString.cpp', 'ArenaBlockBase.hpp', 'ArenaBlock.hpp', 'ArenaAllocator.hpp',
                 'ReusableArenaBlock.hpp', 'ReusableArenaAllocator.hpp', 'XalanAutoPtr.hpp')


def classify_death(text, rc, sym):
    """-> (outcome kind, site, asan headline) from the stderr of a driver (or forked golden child) that died"""
    head = ''
    m = re.search(r'ERROR: AddressSanitizer: ([\w-]+)', text)
    if m:
        head = m.group(1)
    if 'hard rss limit exhausted' in text:
        kind = 'memory-exhausted'
    elif head == 'stack-overflow':
        kind = 'stack-overflow'
    elif head in ('allocation-size-too-big', 'out-of-memory', 'calloc-overflow'):
        kind = 'allocation-failure'
    elif head:
        kind = 'asan'
    elif 'terminate called' in text or 'terminating' in text:
        kind = 'terminate'
    elif 'LeakSanitizer' in text and not head:
        kind = 'died(rc=%s)' % rc
    else:
        kind = 'died(rc=%s)' % rc
    site = '?'
    if m:
        # the frames of the first stack of the report
        seg = text[m.start():]
        frames = []
        last = -1
        for fm in FRAME_RE.finditer(seg):
            n = int(fm.group(1))
            if n <= last:
                break
            last = n
            frames.append((fm.group(2), fm.group(3)))
        res = sym.resolve(frames[:256])
        lib = [(short_fn(fn), os.path.basename(fl)) for fn, fl in res if fl.startswith('/repo/src/xalanc')]
        if lib:
            if kind == 'stack-overflow':
                # the recursion cycle: the alphabetically first function among those that repeat
                cnt = {}
                for x in lib:
                    cnt[x] = cnt.get(x, 0) + 1
                rep = sorted(x for x, n in cnt.items() if n >= 4) or sorted(cnt)
                site = '%s:%s' % (rep[0][1], rep[0][0])
            else:
                site = '%s:%s' % (lib[0][1], lib[0][0])
                # a frame of a generic container says little: add the first caller outside the containers
                if lib[0][1] in GENERIC_FILES:
                    for fn, fl in lib[1:]:
                        if fl not in GENERIC_FILES:
                            site += '<-%s:%s' % (fl, fn)
                            break
        elif res:
            site = 'outside-library:' + short_fn(res[0][0])
    pm = re.findall(r'^c03-phase: (\w+)(?: after=(\S+))?', text, re.M)
    phase = (pm[-1][0] + ('/' + pm[-1][1] if pm[-1][1] else '')) if pm else '?'
    return kind, site, head, phase


def parse_reply(r):
    d = {}
    for f in r:
        k, _, v = f.partition('=')
        d[k] = v
    return d


class Shard:
    def __init__(self, shard, tier):
        self.shard, self.tier = shard, tier
        self.dir = os.path.join(vlib.BUILD, 'tmp', 'c03.files.%d' % shard)
        os.makedirs(self.dir, exist_ok=True)
        self.sym = Symbolizer()
        self.forkgold = set()     # failure kinds after which the golden step runs in a forked child (see harness/c03.cpp)
        self.counts = {'evaluations': 0, 'cases': 0, 'nontrivial': 0, 'fatal': 0, 'restarts': 0, 'leak_screens': 0, 'forkgold_cases': 0, 'suspended_construct_evaluations': 0,
                       'retained_bytes_long_lived': 0}
        self.fam = {}
        self.outcomes = {}
        self.viols = {}
        self.samples = {}
        self.ubsan_seen = set()
        self.groups = {}
        self.suspended = set()
        self.slow = []
        self.err_off = 0
        self.w = W(DRIVER, args=[self.dir, str(MM_CAP_MB)], env=ENV, stderr_path=os.path.join(vlib.BUILD, 'tmp', 'c03.%d.err' % shard), timeout=BASE_TIMEOUT)
        self.w.on_restart = self.reload
        self.reload(self.w)

    # ----- driver state
    def reload(self, w):
        self.err_off = 0
        self.ubsan_seen = set()
        self.counts['restarts'] += 1
        saved = w.timeout
        w.timeout = 120        # start-up of the instrumented driver on a loaded machine, not a case
        try:
            for attempt in range(3):
                try:
                    r = w._request(['doc', 'd0', XP_DOC])
                    assert r[0] == 'ok', r
                    for k in sorted(self.forkgold):
                        w._request(['mode', 'forkgold', k])
                    break
                except vlib.WorkerDied:
                    if attempt == 2:
                        raise
        finally:
            w.timeout = saved

    def restart(self):
        self.w.start()
        self.reload(self.w)

    def new_stderr(self):
        try:
            self.w.errf.flush()
            with open(self.w.stderr_path, 'rb') as f:
                f.seek(0, 2)
                sz = f.tell()
                if sz < self.err_off:
                    self.err_off = 0
                f.seek(self.err_off)
                data = f.read()
                self.err_off = sz
                return data.decode('utf-8', 'replace')
        except Exception:
            return ''

    # ----- verdict bookkeeping
    def add(self, c, kind, site, info):
        sig = '%s|%s|%s' % (c['fam'], kind, site)
        v = self.viols.get(sig)
        size = case_size(c)
        if v is None or size < v['size']:
            det = {'case': case_json(c), 'case_text': case_text(c, 600), 'info': info, 'raw_cases': (v['n'] if v else 0)}
            self.viols[sig] = v = {'n': v['n'] if v else 0, 'size': size, 'detail': det}
        v['n'] += 1
        v['detail']['raw_cases'] = v['n']

    def ubsan_from(self, c, text):
        out = []
        for m in UBSAN_RE.finditer(text):
            key = '%s:%s' % (os.path.basename(m.group(1)), m.group(2))
            if key in self.ubsan_seen:
                continue
            self.ubsan_seen.add(key)
            if not m.group(1).startswith('/repo/src/xalanc'):
                key = 'outside-library:' + key
            out.append(('ubsan', key, {'report': m.group(0)[:400]}))
        return out

    # ----- one request
    def attempt(self, c, extra=()):
        """-> ('reply', dict, new stderr) | ('dead', kind, site, info)"""
        fields = case_fields(c, extra)
        self.w.timeout = c.get('timeout') or BASE_TIMEOUT
        self.counts['evaluations'] += 1
        t_req = time.time()
        try:
            r = self.w.request(*fields)
            dt = time.time() - t_req
            if dt > 1.0:
                self.slow.append((round(dt, 1), '%s|%s' % (c['fam'], c['site'])))
                self.slow = sorted(self.slow, reverse=True)[:8]
            return ('reply', parse_reply(r), self.new_stderr())
        except vlib.WorkerDied as wd:
            first = wd
        # the driver has been restarted by vlib; a timeout has already been re-run alone with a 10x limit
        self.reload(self.w)
        if first.rc == 'timeout':
            return ('dead', 'hang', c['site'], {'limit_s': self.w.timeout, 'retried_alone_with': '10x'}, first.stderr_tail)
        # a crash: re-run once alone in the fresh driver before reporting
        self.counts['evaluations'] += 1
        try:
            saved = self.w.on_restart
            r = self.w.request(*fields)
            kind, site, head, phase = classify_death(first.stderr_tail, first.rc, self.sym)
            return ('dead', 'unreproduced-' + kind, site, {'first_death': first.stderr_tail[-3000:], 'asan': head, 'phase': phase,
                                                          'second_run_reply': r[:12]}, first.stderr_tail)
        except vlib.WorkerDied as wd2:
            self.reload(self.w)
            if wd2.rc == 'timeout':
                return ('dead', 'hang', c['site'], {'limit_s': self.w.timeout, 'note': 'crashed first, then hung'}, wd2.stderr_tail)
            kind, site, head, phase = classify_death(wd2.stderr_tail, wd2.rc, self.sym)
            if site == '?':
                site = c['site']        # no stack in the report (memory limit, plain abort): the edit is the best site there is
            tail = wd2.stderr_tail
            rep = tail[tail.find('ERROR: AddressSanitizer'):][:2500] if 'ERROR: AddressSanitizer' in tail else tail[-2500:]
            if phase.startswith('golden/') and phase[7:] not in self.forkgold and phase[7:] != '-':
                # a crash in the golden step after a failed request: from now on this shard runs the golden step that follows
                # a failure of the same kind in a forked child
                self.forkgold.add(phase[7:])
                self.w._request(['mode', 'forkgold', phase[7:]])
            return ('dead', kind, site, {'rc': wd2.rc, 'asan': head, 'phase': phase, 'stack': self.sym.pretty(tail), 'report': rep[:1200]}, tail)

    def judge(self, c, res):
        """-> list of (kind, site, info)"""
        out = []
        if res[0] == 'dead':
            _, kind, site, info, tail = res
            self.counts['fatal'] += 1
            self.outcomes['fatal:' + kind] = self.outcomes.get('fatal:' + kind, 0) + 1
            out.append((kind, site, info))
            # UBSan lines printed before the death belong to this case too
            self.ubsan_seen = set()
            out += self.ubsan_from(c, tail)
            self.ubsan_seen = set()
            return out, None
        _, r, err = res
        out += self.ubsan_from(c, err)
        site = c['site']
        poisoned = False
        if 'e' in r and len(r) <= 2 and 'rc' not in r and 'cpp' not in r:
            out.append(('harness-error', site, {'reply': str(r)[:300]}))
            return out, r
        if r.get('recreated') == '1':
            self.counts['forkgold_cases'] += 1
        gold = r.get('gold', '?')
        if gold.startswith('died'):
            kind, dsite, head, phase = classify_death(err, gold, self.sym)
            a = err.find('ERROR: AddressSanitizer')
            out.append((kind, dsite, {'asan': head, 'phase': 'golden (forked child)', 'stack': self.sym.pretty(err), 'report': err[a:a + 1200] if a >= 0 else err[-1200:], 'reply': dict(r)}))
            self.counts['fatal'] += 1
            self.outcomes['fatal:' + kind] = self.outcomes.get('fatal:' + kind, 0) + 1
        elif gold != 'ok':
            out.append(('golden-broken', site, {'gold': gold, 'reply': dict(r)}))
            poisoned = True
        if c['k'] == 'tr':
            rc = int(r['rc'])
            exc = r['exc']
            key = 'ok' if rc == 0 else ('exception:' + exc if exc != '-' else 'error rc=%d' % rc)
            self.outcomes[key] = self.outcomes.get(key, 0) + 1
            if exc.startswith('harness:'):
                out.append(('harness-error', site, {'reply': dict(r)}))
            elif exc != '-':
                # the root cause is the exception type and where it left the library; the edit is in the detail
                out.append(('exception-escaped:' + exc, '%s:%s' % (c.get('entry', '?'), r.get('stage', '?')), {'edit': site, 'reply': dict(r)}))
                poisoned = True
            else:
                if int(r['okerr']) > 0:
                    out.append(('rc0-but-error', site, {'reply': dict(r)}))
                if rc != 0 and int(r['err']) == 0:
                    out.append(('rc-nonzero-without-message', site, {'reply': dict(r)}))
                if c.get('group'):
                    # outpos: the same content behind pads of different lengths: with the pad taken out (driver: o:strip) the output
                    # must be the same for every pad length of the group
                    g, padbytes = c['group']
                    ol, oh = r['out'].split(',')
                    obs = (rc, int(ol) - padbytes if rc == 0 else 0, oh if rc == 0 else '-')
                    ref = self.groups.setdefault(g, (obs, case_text(c, 200)))
                    if ref[0] != obs:
                        out.append(('output-depends-on-position', site, {'this': obs, 'first_of_group': ref[0], 'first_case': ref[1], 'reply': dict(r)}))
            if r.get('recreated') != '1' and not poisoned and not out:
                m0, m1 = [int(x) for x in r['mm'].split(',')]
                h0, h1 = [int(x) for x in r['heap'].split(',')]
                self.counts['retained_bytes_long_lived'] += max(0, m1 - m0)
                if m1 > m0 or h1 > h0:
                    # screen positive: the long-lived transformer holds more than before. Lost memory is what stays after a
                    # transformer made for the request has been destroyed (second run: caches of the process are warm)
                    self.counts['leak_screens'] += 1
                    last = None
                    for _ in range(2):
                        res2 = self.attempt(c, ['o:fresh=1'])
                        if res2[0] != 'reply':
                            last = None
                            break
                        last = res2[1]
                    if last is not None and 'mm' in last:
                        fm0, fm1 = [int(x) for x in last['mm'].split(',')]
                        fh0, fh1 = [int(x) for x in last['heap'].split(',')]
                        if fm1 > fm0 or fh1 > fh0:
                            lsan = self.lsan_sites()
                            out.append(('leak', lsan[0] if lsan else site, {'manager_bytes_lost': fm1 - fm0, 'heap_bytes_lost': fh1 - fh0, 'lsan': lsan, 'reply': last}))
        else:
            cpp = r.get('cpp', '?')
            crc, erc, cres = [int(x) for x in r['capi'].split(',')]
            fr = r['fresh'].split(',')
            key = 'xpath ' + ('value' if cpp == 'ok' else 'error' if cpp == 'err' else cpp)
            self.outcomes[key] = self.outcomes.get(key, 0) + 1
            if cpp.startswith('exc:'):
                out.append(('exception-escaped:' + cpp[4:], site, {'reply': dict(r)}))
                poisoned = True
            elif cpp == 'err' and int(r['msglen']) == 0:
                out.append(('error-without-message', site, {'reply': dict(r)}))
            capi_ok = crc == 0 and erc == 0
            if c.get('no_agree'):
                pass        # bytes that are not UTF-8 reach only the C API unchanged; the C++ entry point takes UTF-16
            elif (cpp == 'ok') != capi_ok:
                out.append(('c-api-disagrees(%s)' % ('cpp-value,capi-error' if cpp == 'ok' else 'cpp-error,capi-success'), site, {'reply': dict(r)}))
            elif cpp == 'ok' and str(cres) != r['bool']:
                out.append(('c-api-boolean-differs', site, {'reply': dict(r)}))
            if fr[0] != cpp or fr[1] != r['bool'] or (fr[0] == 'ok' and fr[2] != r['hash']):
                out.append(('fresh-evaluator-differs', site, {'reply': dict(r)}))
            if not c.get('no_agree') and ((int(fr[3]) == 0) != capi_ok or (capi_ok and fr[4] != str(cres))):
                out.append(('c-api-one-shot-differs', site, {'reply': dict(r)}))
            if r.get('recreated') != '1':
                m0, m1 = [int(x) for x in r['mm'].split(',')]
                self.counts['retained_bytes_long_lived'] += max(0, m1 - m0)
            if int(r['fmm']) != 0:
                out.append(('leak', site, {'manager_bytes_lost': int(r['fmm']), 'reply': dict(r)}))
            elif int(r['fheap']) > 0:
                self.counts['leak_screens'] += 1
                res2 = self.attempt(c)
                if res2[0] == 'reply' and int(res2[1].get('fheap', 0)) > 0:
                    lsan = self.lsan_sites()
                    out.append(('leak', lsan[0] if lsan else site, {'heap_bytes_lost': int(res2[1]['fheap']), 'lsan': lsan, 'reply': res2[1]}))
        if poisoned:
            # later cases must not inherit a transformer that is already known to be broken
            self.restart()
        return out, r

    def lsan_sites(self):
        """runs LeakSanitizer now; -> sites (top in-library frame) of the leaks it reports"""
        try:
            self.new_stderr()
            self.w._request(['lsan'])
            text = self.new_stderr()
        except vlib.WorkerDied:
            self.reload(self.w)
            return []
        sites = []
        for blk in re.split(r'\n(?=(?:Direct|Indirect) leak of )', text):
            if not blk.startswith(('Direct leak', 'Indirect leak')):
                continue
            frames = [(m.group(2), m.group(3)) for m in FRAME_RE.finditer(blk)]
            res = self.sym.resolve(frames[:40])
            lib = [(short_fn(fn), os.path.basename(fl)) for fn, fl in res if fl.startswith('/repo/src/xalanc')]
            s = '%s:%s' % (lib[0][1], lib[0][0]) if lib else ('outside-library:' + short_fn(res[1][0] if len(res) > 1 else '?'))
            if s not in sites:
                sites.append(s)
        return sites

    def run_case(self, c):
        self.counts['cases'] += 1
        self.fam[c['fam']] = self.fam.get(c['fam'], 0) + 1
        if 'reps' in c:
            return self.run_steady(c)
        if c.get('parts') and c.get('combine') and self.suspended:
            # constructs that already hung in this shard are left out (reported in the evidence as suspended evaluations)
            idx = [i for i, p in enumerate(c['parts']) if p['site'] not in self.suspended]
            if len(idx) < len(c['parts']):
                self.counts['suspended_construct_evaluations'] += len(c['parts']) - len(idx)
                c = dict(c)
                c['xsl'] = c['combine'](idx)
                c['parts'] = [c['parts'][i] for i in idx]
        res = self.attempt(c)
        verdicts, r = self.judge(c, res)
        reached = res[0] == 'dead' or int((r or {}).get('allocs', '0') or 0) > 0
        if c['nonseed'] and reached:
            self.counts['nontrivial'] += 1
        if verdicts and c.get('parts'):
            # localise: the same request, one construct at a time
            found = []
            for p in c['parts']:
                p = dict(p)
                p['site'] = '%s' % p['site']
                res2 = self.attempt(p)
                v2 = self.judge(p, res2)[0]
                found += [(p, v) for v in v2]
                if any(v[0] == 'hang' for v in v2) and c.get('combine'):
                    self.suspended.add(p['site'])
            if found:
                for p, (kind, site, info) in found:
                    self.add(p, kind, site, info)
                return
        for kind, site, info in verdicts:
            self.add(c, kind, site, info)

    def run_steady(self, c):
        """identical request repeated on the long-lived objects: outstanding memory must stop growing"""
        if self.forkgold:
            self.w._request(['mode', 'forkgold', 'none'])
        series_m, series_h = [], []
        try:
            # chunks of c['reps'] repetitions, at most four: steady = a chunk whose second half grows in fewer than half of its
            # repetitions (a cache that saturates stops growing; a block retained per call never does)
            total = 0
            for chunk in range(4):
                for i in range(c['reps']):
                    res = self.attempt(c)
                    if res[0] == 'dead':
                        for kind, site, info in self.judge(c, res)[0]:
                            self.add(c, kind, site, info)
                        return
                    r = res[1]
                    if total == 0:
                        v, _ = self.judge(c, res)
                        for kind, site, info in v:
                            if kind != 'leak':
                                self.add(c, kind, site, info)
                        if any(k.startswith(('golden-broken', 'exception-escaped')) for k, s_, i_ in v):
                            return
                    total += 1
                    series_m.append(int(r['mm'].split(',')[1]))
                    series_h.append(int(r['heap'].split(',')[1]))
                half = c['reps'] // 2
                growing = None
                for name, s in (('manager', series_m), ('heap', series_h)):
                    tail = s[-half - 1:]
                    grow = sum(1 for i in range(1, len(tail)) if tail[i] > tail[i - 1])
                    if grow * 2 >= half:
                        growing = (name, grow, (tail[-1] - tail[0]) / float(half), s[-5:])
                        break
                if growing is None:
                    return
            self.add(c, 'unbounded-growth', c['site'], {'measure': growing[0], 'bytes_per_repetition': growing[2], 'repetitions': total,
                                                       'growing_repetitions_among_the_last_%d' % half: growing[1], 'series_tail': growing[3]})
        finally:
            try:
                for k in sorted(self.forkgold):
                    self.w._request(['mode', 'forkgold', k])
            except vlib.WorkerDied:
                self.reload(self.w)

    def finish(self):
        """LeakSanitizer over everything this driver instance did, then the final balance of the counting manager"""
        c = {'fam': 'shard', 'k': 'xp', 'expr': '(end of shard %d)' % self.shard, 'site': 'end-of-shard', 'nonseed': False}
        try:
            for s in self.lsan_sites():
                self.add(c, 'leak(lsan at shard end)', s, {'note': 'reported by __lsan_do_recoverable_leak_check() after the last case of the shard; '
                                                                   'no per-case balance flagged it'})
            r = self.w._request(['quit'])
            d = parse_reply(r)
            if d.get('mm', '0') != '0':
                self.add(c, 'leak(final balance)', 'counting-manager', {'bytes_outstanding_after_destroying_everything': d.get('mm')})
        except Exception as e:
            pass
        self.w.close()
        shutil.rmtree(self.dir, ignore_errors=True)


DEADLINE_S = {'quick': 165, 'thorough': 1140}


def shard_main(shard, nshards, tier, t_start):
    sh = Shard(shard, tier)
    try:
        return shard_body(sh, shard, nshards, tier, t_start)
    except BaseException:
        # a harness error: leave a trace where it can be read while the other shards still run, and no stray driver
        import traceback
        with open(os.path.join(vlib.BUILD, 'tmp', 'c03.%d.exc' % shard), 'w') as f:
            f.write(traceback.format_exc())
        try:
            sh.w.close()
        except Exception:
            pass
        raise


def shard_body(sh, shard, nshards, tier, t_start):
    deadline = t_start + float(os.environ.get('C03_DEADLINE_S', DEADLINE_S.get(tier, 1140)))
    skipped = {}
    blocks = all_blocks(tier)
    first = {}
    lastc = {}
    mid = {}
    t0 = time.time()
    fam_time = {}
    for bi, (fam, weight, gen) in enumerate(blocks):
        if bi % nshards != shard:
            continue
        if time.time() > deadline:
            # the global deadline stops a shard BETWEEN blocks; what was not run is counted and the evidence says exhaustive:false
            skipped[fam] = skipped.get(fam, 0) + weight
            continue
        tb = time.time()
        for c in gen():
            sh.run_case(c)
            if c['fam'] not in first:
                first[c['fam']] = case_text(c, 200)
            lastc[c['fam']] = case_text(c, 200)
            if sh.fam[c['fam']] % 997 == 1:
                mid[c['fam']] = case_text(c, 200)
        fam_time[fam] = fam_time.get(fam, 0) + time.time() - tb
    sh.finish()
    return {'counts': sh.counts, 'fam': sh.fam, 'skipped': skipped, 'slow': sh.slow, 'suspended': sorted(sh.suspended), 'outcomes': sh.outcomes, 'viols': sh.viols,
            'samples': {f: [first[f], mid.get(f, first[f]), lastc[f]] for f in first}, 'fam_time': fam_time, 'wall': time.time() - t0}


# ---------------------------------------------------------------------------------------------

def replay(path):
    rec = json.load(open(path))
    det = rec['detail']
    cj = det['case']
    print('signature: %s' % rec.get('signature'))
    print('case: %s' % det.get('case_text'))
    d = os.path.join(vlib.BUILD, 'tmp', 'c03.files.replay.%d' % os.getpid())
    w = W(DRIVER, args=[d, str(MM_CAP_MB)], env=ENV, stderr_path=os.path.join(vlib.BUILD, 'tmp', 'c03.replay.%d.err' % os.getpid()), timeout=300)
    sym = Symbolizer()
    try:
        if cj['k'] == 'xp':
            w._request(['doc', 'd0', cj.get('doc', XP_DOC)])
            fields = ['xpc', 'd0', cj['expr'].encode('latin-1')]
        else:
            fields = ['trx', cj['xsl'].encode('latin-1'), cj['xml'].encode('latin-1')] + [o.encode('latin-1') for o in cj['opts']] + ['o:full=1']
        try:
            r = w._request(fields)
            for f in r:
                print('  ' + f[:2000])
            err = w.stderr_tail()
            ub = [l for l in err.splitlines() if 'runtime error:' in l]
            for l in ub:
                print('  UBSan: ' + l[:300])
            if 'ERROR: AddressSanitizer' in err:
                print('  forked golden child died: %s' % (classify_death(err, 0, sym),))
            bad = bool(ub) or any(f.startswith('gold=') and f != 'gold=ok' for f in r) or any(f.startswith('exc=') and f != 'exc=-' for f in r)
            print('replay: the driver survived' + (' (see the fields above)' if bad else ''))
            sys.exit(1 if bad else 0)
        except vlib.WorkerDied as wd:
            kind, site, head, phase = classify_death(wd.stderr_tail, wd.rc, sym)
            a = wd.stderr_tail.find('ERROR: AddressSanitizer')
            print(wd.stderr_tail[a:a + 600] if a >= 0 else wd.stderr_tail[-3000:])
            for l in sym.pretty(wd.stderr_tail, 24):
                print('   ' + l)
            print('replay: the driver died: rc=%s kind=%s site=%s phase=%s' % (wd.rc, kind, site, phase))
            sys.exit(1)
    finally:
        w.close()
        shutil.rmtree(d, ignore_errors=True)


def main():
    tier, rp = vlib.tier_from_argv()
    if rp:
        return replay(rp)
    t0 = time.time()
    res = vlib.run_sharded(shard_main, (tier, t0))
    counts = vlib.merge_counts([r['counts'] for r in res])
    fam = vlib.merge_counts([r['fam'] for r in res])
    outcomes = vlib.merge_counts([r['outcomes'] for r in res])
    fam_time = vlib.merge_counts([r['fam_time'] for r in res])
    skipped = vlib.merge_counts([r['skipped'] for r in res])
    merged = {}
    for r in res:
        for sig, v in r['viols'].items():
            m = merged.get(sig)
            if m is None:
                merged[sig] = dict(v)
            else:
                n = m['n'] + v['n']
                if v['size'] < m['size']:
                    merged[sig] = dict(v)
                merged[sig]['n'] = n
    viols = []
    for sig in sorted(merged):
        v = merged[sig]
        v['detail']['raw_cases'] = v['n']
        viols.append(vlib.Violation(sig, v['detail']))
    samples = []
    for r in res:
        for f, s in r['samples'].items():
            if not any(x.startswith(f + ':') for x in samples):
                samples += ['%s: %s' % (f, t) for t in s]
    sizes = {}
    for f, n, g in all_blocks(tier):
        sizes[f] = sizes.get(f, 0) + 1
    cov = {
        'evaluations': counts['evaluations'],
        'distinct_nontrivial': counts['nontrivial'],
        'rule': 'Bounded exhaustive enumeration, nothing sampled. (a) xpath: every token string of length <= %d over the 30-token alphabet of C02 and of '
                'length <= %d over a 12-token subset, through a long-lived XPathEvaluator, a fresh one, and the XPath C API. (b) stylesheet: 41 seed '
                'stylesheets covering every XSLT instruction; every variant one edit away (delete an attribute, set it to each of 14 nasty values, delete / '
                'duplicate / re-parent an element, change its namespace, make a template call itself) at EVERY applicable position%s. (c) source: every '
                'truncation, single-byte replacement and insertion from {<,>,&,",00,80,FF} of %d seed documents, 17 declared x 10 actual encodings, odd-length '
                'UTF-16, BOMs; stream, parseSource native and Xerces. (d) magnitude: +-10^k (k=-330..310 step %d), 2^k and neighbours (k=-1080..1030 step %d) '
                'through 37 number-consuming constructs, strings of 2^m characters (m<=%d), nesting depths 2^k (k<=%d) of source elements, 14 XPath '
                'shapes, 9 stylesheet shapes, template recursion, import chains. (e) param: token strings of length <= %d as top-level parameter '
                'expressions. (f) steady: 35 request classes repeated 60 times on the long-lived objects. (g) entry: every public transform overload. (h) outpos: N ASCII characters followed by a 2-, 3- and 4-byte character in text, attribute value '
                'and comment of xml, html and text output for every N of a window sliding the character across all offsets of the 512-unit output buffers '
                '(thorough: every N <= 1100 x UTF-8, UTF-16, ISO-8859-1). '
                'Oracle per case: driver survives (a death is re-run alone), no ASan report, no new UBSan report, rc==0 xor (rc!=0 and a non-empty '
                'message), no exception leaves the entry point, the golden transformation on the same transformer is exact afterwards, nothing stays '
                'allocated after a transformer made for the request is destroyed, wall-clock limit. distinct_nontrivial (measured) = cases whose input '
                'differs from every seed and for which the library allocated memory (i.e. the bytes reached it).'
                % ((4, 5, ' and every pair of edits on a 10-stylesheet subset', 8, 1, 1, 20, 14, 3) if tier == 'thorough' else (3, 4, '', 3, 10, 16, 16, 12, 2)),
        'samples': samples[:24] or ['none'],
        'cases': counts['cases'], 'families': fam, 'family_cpu_s': {k: round(v, 1) for k, v in fam_time.items()},
        'outcomes': outcomes, 'distinct_outcomes': len(outcomes),
        'fatal_outcomes': counts['fatal'], 'driver_restarts': counts['restarts'], 'leak_screen_positives': counts['leak_screens'],
        'cases_with_forked_golden': counts['forkgold_cases'],
        'constructs_suspended_after_a_confirmed_hang': sorted(set(x for r in res for x in r['suspended'])),
        'suspended_construct_evaluations': counts['suspended_construct_evaluations'],
        'retained_bytes_on_long_lived_objects': counts['retained_bytes_long_lived'],
        'violating_raw_cases': sum(v['n'] for v in merged.values()),
        'signatures': {sig: merged[sig]['n'] for sig in sorted(merged)},
        'shard_wall_s': [round(r['wall'], 1) for r in res],
        'slowest_requests_s': sorted([tuple(x) for r in res for x in r['slow']], reverse=True)[:12],
        'exhaustive': not ONLY and counts['suspended_construct_evaluations'] == 0 and not skipped,
        'deadline_hit': bool(skipped), 'cases_not_run_after_the_deadline': skipped,
    }
    if ONLY:
        cov['restricted_to_families'] = ONLY
    vlib.finish(PROP, tier, 'exploration', cov, viols, t0,
                assumptions=['8 MB main-thread stack, ASan-instrumented frames: a stack overflow at depth 2^k here needs a deeper input in an uninstrumented build',
                             'a MemoryManager that refuses to grow beyond %d MB stands for "up to memory"; ASan hard_rss_limit 1500 MB behind it' % MM_CAP_MB,
                             'retention that saturates (caches, pools of a long-lived transformer) is not a leak; growth on every repetition of an identical request is',
                             'the 2-deviation level leaves out the self-recursion edit (each such case runs until the memory cap)'],
                max_report=80)


if __name__ == '__main__':
    main()
