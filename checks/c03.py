#!/usr/bin/env python3
"""C03: no input crashes, hangs or corrupts memory; every failure is a reported error (harness/c03.cpp).

Bounded EXHAUSTIVE enumeration with deviation bounding (nothing is sampled or random):
 (a) xpath       every token string up to a length over the 30-token alphabet of C02 / a 12-token subset, through a long-lived
                 XPathEvaluator and through the XPath C API
 (b) stylesheet  every 0/1-deviation variant (finite edit menu applied at EVERY applicable position) of a seed corpus covering
                 every XSLT instruction; every 2-deviation variant of a 10-stylesheet subset (thorough)
 (c) source      every truncation, every single-byte replacement/insertion from a 7-byte menu of 8 seed documents, encoding
                 declarations that disagree with the bytes; stream, parseSource native and Xerces
 (d) magnitude   +-10^k, 2^k and neighbours through every number-consuming construct; strings up to 2^20; nesting depths 2^k
 (e) param       token strings as top-level parameter expressions
 (f) steady      identical requests repeated on the long-lived objects: outstanding memory must reach a steady state
 (g) entry       every public transform overload once with valid input
"""
import os, sys, time, json, re, itertools, copy, shutil, struct
from fractions import Fraction
sys.path.insert(0, os.path.join(os.path.dirname(os.path.abspath(__file__)), '..', 'lib'))
sys.path.insert(0, os.path.dirname(os.path.abspath(__file__)))
import vlib

PROP = 'C03'
XSLNS = 'http://www.w3.org/1999/XSL/Transform'


def load_known_with_extra(prop, _orig=vlib.load_known):
    """KNOWN_FINDINGS.json plus, when VERIF_KNOWN_EXTRA names a file (proposed entries not merged yet), its entries."""
    known = _orig(prop)
    extra = os.environ.get('VERIF_KNOWN_EXTRA')
    if extra:
        with open(extra) as f:
            data = json.load(f)
        ents = data.get('findings', []) if isinstance(data, dict) else data
        known += [e for e in ents if e.get('property') == prop and e.get('status') == 'open']
    return known


vlib.load_known = load_known_with_extra


def B(s):
    return s if isinstance(s, bytes) else s.encode('utf-8')


# ---------------------------------------------------------------------------------------------
# a minimal XML tree that keeps attribute values RAW (so that an edit can write text that is not even well formed)

class El:
    __slots__ = ('name', 'attrs', 'kids', 'id')

    def __init__(self, name, attrs=None, kids=None, id=None):
        self.name, self.attrs, self.kids, self.id = name, attrs or [], kids or [], id

    def clone(self):
        return El(self.name, [list(a) for a in self.attrs], [k.clone() if isinstance(k, El) else k for k in self.kids], self.id)


TAG_RE = re.compile(r'<(/?)([\w:.-]+)((?:\s+[\w:.-]+\s*=\s*(?:"[^"]*"|\'[^\']*\'))*)\s*(/?)>', re.S)
ATTR_RE = re.compile(r'([\w:.-]+)\s*=\s*(?:"([^"]*)"|\'([^\']*)\')', re.S)


def parse_xml(text):
    """parses the subset used by the seed stylesheets (elements, attributes, text with entity references kept raw)"""
    pos = 0
    root = None
    stack = []
    counter = [0]
    for m in TAG_RE.finditer(text):
        if m.start() > pos and stack:
            stack[-1].kids.append(text[pos:m.start()])
        pos = m.end()
        close, name, attrs, selfclose = m.group(1), m.group(2), m.group(3), m.group(4)
        if close:
            assert stack and stack[-1].name == name, (name, text[:80])
            stack.pop()
            continue
        e = El(name, [[a.group(1), a.group(2) if a.group(2) is not None else a.group(3)] for a in ATTR_RE.finditer(attrs)], id=counter[0])
        counter[0] += 1
        if stack:
            stack[-1].kids.append(e)
        else:
            root = e
        if not selfclose:
            stack.append(e)
    assert not stack and root is not None, text[:80]
    return root


def ser(e, out=None):
    top = out is None
    if top:
        out = []
    out.append('<' + e.name)
    for k, v in e.attrs:
        q = "'" if '"' in v and "'" not in v else '"'
        out.append(' %s=%s%s%s' % (k, q, v, q))
    if not e.kids:
        out.append('/>')
    else:
        out.append('>')
        for k in e.kids:
            if isinstance(k, El):
                ser(k, out)
            else:
                out.append(k)
        out.append('</' + e.name + '>')
    if top:
        return ''.join(out)


def walk(e, parent=None):
    yield e, parent
    for k in e.kids:
        if isinstance(k, El):
            yield from walk(k, e)


def find(root, id_):
    for e, p in walk(root):
        if e.id == id_:
            return e, p
    return None, None


# ---------------------------------------------------------------------------------------------
# the edit menu of family (b)

NASTY = [
    ('empty', ''), ('lbrace', '{'), ('rbrace', '}'), ('lbrace2', '{{'), ('quote', "'"), ('1e400', '1e400'),
    ('4k', 'x' * 4096), ('qname3', 'a:b:c'), ('undeclared', 'zz:x'), ('xmlns', 'xmlns'), ('nonbmp', '\U00010400'),
    ('surrogate-ref', '&#xD800;'), ('nul-ref', '&#0;'), ('neg', '-1'),
]
WRONG_NS = 'http://www.w3.org/1999/XSL/TransformX'


def is_xsl(e):
    return e.name.startswith('xsl:')


def edits_of(root, with_recursion=True):
    """every single edit applicable to the tree: list of (site label, function(tree copy) -> bool applied).
    Targets are addressed by node id so that a second edit can be applied after a first one."""
    out = []
    templates = [e for e, p in walk(root) if e.name == 'xsl:template']
    for e, parent in walk(root):
        nm = e.name
        for ai, (an, av) in enumerate(e.attrs):
            def del_attr(t, id_=e.id, an=an):
                x, _ = find(t, id_)
                if x is None:
                    return False
                n = len(x.attrs)
                x.attrs = [a for a in x.attrs if a[0] != an]
                return len(x.attrs) != n
            out.append(('%s@%s:del-attr' % (nm, an), del_attr))
            for vn, vv in NASTY:
                def set_attr(t, id_=e.id, an=an, vv=vv):
                    x, _ = find(t, id_)
                    if x is None:
                        return False
                    for a in x.attrs:
                        if a[0] == an:
                            a[1] = vv
                            return True
                    return False
                out.append(('%s@%s:set(%s)' % (nm, an, vn), set_attr))
        if parent is not None:
            def del_elem(t, id_=e.id):
                x, p = find(t, id_)
                if x is None or p is None:
                    return False
                p.kids = [k for k in p.kids if k is not x]
                return True
            out.append(('%s:del-elem' % nm, del_elem))

            def dup_elem(t, id_=e.id):
                x, p = find(t, id_)
                if x is None or p is None:
                    return False
                i = [j for j, k in enumerate(p.kids) if k is x][0]
                c = x.clone()
                for y, _ in walk(c):
                    y.id = None
                p.kids.insert(i + 1, c)
                return True
            out.append(('%s:dup-elem' % nm, dup_elem))
            if parent is root:
                # a top-level element moves into a template (the first one that is not itself)
                tgt = [t_ for t_ in templates if t_ is not e]
                if tgt:
                    def move_in(t, id_=e.id, tid=tgt[0].id):
                        x, p = find(t, id_)
                        y, _ = find(t, tid)
                        if x is None or p is None or y is None:
                            return False
                        p.kids = [k for k in p.kids if k is not x]
                        y.kids.insert(0, x)
                        return True
                    out.append(('%s:move-into-template' % nm, move_in))
            else:
                def move_top(t, id_=e.id):
                    x, p = find(t, id_)
                    if x is None or p is None:
                        return False
                    p.kids = [k for k in p.kids if k is not x]
                    t.kids.append(x)
                    return True
                out.append(('%s:move-to-top' % nm, move_top))
        # namespace of the element: none at all / a prefix bound to a different URI / an LRE claimed for XSLT
        if is_xsl(e):
            def ns_none(t, id_=e.id):
                x, _ = find(t, id_)
                if x is None:
                    return False
                x.name = x.name.split(':', 1)[1]
                return True
            out.append(('%s:ns-none' % nm, ns_none))

            def ns_wrong(t, id_=e.id):
                x, _ = find(t, id_)
                if x is None:
                    return False
                x.name = 'w:' + x.name.split(':', 1)[1]
                if not any(a[0] == 'xmlns:w' for a in t.attrs):
                    t.attrs.append(['xmlns:w', WRONG_NS])
                return True
            out.append(('%s:ns-wrong' % nm, ns_wrong))
        elif ':' not in nm:
            def ns_xsl(t, id_=e.id):
                x, _ = find(t, id_)
                if x is None:
                    return False
                x.name = 'xsl:' + x.name
                return True
            out.append(('%s:ns-xsl' % nm, ns_xsl))
        if with_recursion and nm == 'xsl:template':
            def recurse(t, id_=e.id):
                x, _ = find(t, id_)
                if x is None:
                    return False
                name = [a[1] for a in x.attrs if a[0] == 'name']
                mode = [a[1] for a in x.attrs if a[0] == 'mode']
                if name:
                    call = El('xsl:call-template', [['name', name[0]]])
                else:
                    call = El('xsl:apply-templates', [['select', '.']] + ([['mode', mode[0]]] if mode else []))
                # after leading xsl:param children
                i = 0
                while i < len(x.kids) and (not isinstance(x.kids[i], El) or x.kids[i].name == 'xsl:param'):
                    i += 1
                x.kids.insert(i, call)
                return True
            out.append(('%s:recurse' % nm, recurse))
    return out


# ---------------------------------------------------------------------------------------------
# seed corpus of family (b): (name, stylesheet, source, resources)

def S(body, extra=''):
    return '<xsl:stylesheet version="1.0" xmlns:xsl="%s"%s>%s</xsl:stylesheet>' % (XSLNS, extra, body)


DOC1 = '<r><i n="3" g="x">c</i><i n="10" g="y">j</i><i n="1" g="x">a</i><e/></r>'
INC = S('<xsl:template name="inc"><inc/></xsl:template><xsl:template match="e"><from-module/></xsl:template>')

SEEDS = [
    ('template', S('<xsl:template match="/"><o><xsl:apply-templates/></o></xsl:template>'
                   '<xsl:template match="i" priority="2"><p/></xsl:template><xsl:template match="i[@g]" mode="m"><q/></xsl:template>')),
    ('apply-templates', S('<xsl:template match="/"><xsl:apply-templates select="r/i" mode="m"/></xsl:template>'
                          '<xsl:template match="i" mode="m"><v><xsl:value-of select="."/></v></xsl:template>')),
    ('call-template', S('<xsl:template match="/"><xsl:call-template name="t"><xsl:with-param name="a" select="2"/></xsl:call-template></xsl:template>'
                        '<xsl:template name="t"><xsl:param name="a" select="1"/><v><xsl:value-of select="$a"/></v></xsl:template>')),
    ('for-each', S('<xsl:template match="/"><o><xsl:for-each select="r/i"><v><xsl:value-of select="position()"/></v></xsl:for-each></o></xsl:template>')),
    ('sort', S('<xsl:template match="/"><o><xsl:for-each select="r/i"><xsl:sort select="@n" data-type="number" order="descending" case-order="upper-first" lang="en"/>'
               '<xsl:value-of select="."/></xsl:for-each></o></xsl:template>')),
    ('value-of', S('<xsl:template match="/"><o><xsl:value-of select="r/i[2]" disable-output-escaping="no"/></o></xsl:template>')),
    ('copy', S('<xsl:template match="@*|node()"><xsl:copy use-attribute-sets="s"><xsl:apply-templates select="@*|node()"/></xsl:copy></xsl:template>'
               '<xsl:attribute-set name="s"><xsl:attribute name="k">v</xsl:attribute></xsl:attribute-set>')),
    ('copy-of', S('<xsl:template match="/"><o><xsl:copy-of select="r/i[@g=\'x\']"/></o></xsl:template>')),
    ('element', S('<xsl:template match="/"><xsl:element name="el" namespace="urn:n" use-attribute-sets="s"><xsl:value-of select="1"/></xsl:element></xsl:template>'
                  '<xsl:attribute-set name="s"><xsl:attribute name="k">v</xsl:attribute></xsl:attribute-set>')),
    ('attribute', S('<xsl:template match="/"><o><xsl:attribute name="p:a" namespace="urn:n">v<xsl:value-of select="2"/></xsl:attribute></o></xsl:template>')),
    ('attribute-set', S('<xsl:attribute-set name="a" use-attribute-sets="b"><xsl:attribute name="x">1</xsl:attribute></xsl:attribute-set>'
                        '<xsl:attribute-set name="b"><xsl:attribute name="y">2</xsl:attribute></xsl:attribute-set>'
                        '<xsl:template match="/"><o xsl:use-attribute-sets="a"/></xsl:template>')),
    ('text', S('<xsl:template match="/"><o><xsl:text disable-output-escaping="yes">&lt;t&gt;</xsl:text></o></xsl:template>')),
    ('comment', S('<xsl:template match="/"><o><xsl:comment>c<xsl:value-of select="1"/></xsl:comment></o></xsl:template>')),
    ('pi', S('<xsl:template match="/"><o><xsl:processing-instruction name="tgt">d<xsl:value-of select="1"/></xsl:processing-instruction></o></xsl:template>')),
    ('if', S('<xsl:template match="/"><o><xsl:if test="r/i &gt; 2"><y/></xsl:if></o></xsl:template>')),
    ('choose', S('<xsl:template match="/"><o><xsl:choose><xsl:when test="r/none"><a/></xsl:when><xsl:when test="r/i"><b/></xsl:when>'
                 '<xsl:otherwise><c/></xsl:otherwise></xsl:choose></o></xsl:template>')),
    ('variable', S('<xsl:variable name="g" select="count(//i)"/><xsl:template match="/"><xsl:variable name="l"><f><xsl:value-of select="$g"/></f></xsl:variable>'
                   '<o><xsl:copy-of select="$l"/><xsl:value-of select="$g + 1"/></o></xsl:template>')),
    ('param', S('<xsl:param name="p" select="\'d\'"/><xsl:template match="/"><o><xsl:value-of select="$p"/></o></xsl:template>')),
    ('with-param', S('<xsl:template match="/"><xsl:apply-templates select="r/e"><xsl:with-param name="a">rtf</xsl:with-param></xsl:apply-templates></xsl:template>'
                     '<xsl:template match="e"><xsl:param name="a"/><v><xsl:value-of select="$a"/></v></xsl:template>')),
    ('number', S('<xsl:template match="/"><o><xsl:for-each select="r/i"><xsl:number level="single" count="i" from="r" format="1.a" lang="en" letter-value="alphabetic" '
                 'grouping-separator="," grouping-size="3"/></xsl:for-each></o></xsl:template>')),
    ('number-value', S('<xsl:template match="/"><o><xsl:number value="1234567" format="I" grouping-separator="," grouping-size="3"/>'
                       '<xsl:number level="any" count="i|e"/><xsl:number level="multiple" count="*" format="1.1"/></o></xsl:template>')),
    ('key', S('<xsl:key name="k" match="i" use="@g"/><xsl:template match="/"><o><xsl:value-of select="count(key(\'k\',\'x\'))"/></o></xsl:template>')),
    ('import', S('<xsl:import href="inc.xsl"/><xsl:template match="/"><o><xsl:call-template name="inc"/><xsl:apply-templates select="r/e"/></o></xsl:template>'
                 '<xsl:template match="e"><main/><xsl:apply-imports/></xsl:template>')),
    ('include', S('<xsl:include href="inc.xsl"/><xsl:template match="/"><o><xsl:call-template name="inc"/></o></xsl:template>')),
    ('strip-space', S('<xsl:strip-space elements="r"/><xsl:preserve-space elements="i"/><xsl:template match="/"><o><xsl:value-of select="count(r/text())"/></o></xsl:template>')),
    ('lre-avt', S('<xsl:template match="/"><o a="{r/i[1]}-{{x}}" xml:lang="en" xsl:version="1.0"><p:e xmlns:p="urn:p" p:b="{1+1}"/></o></xsl:template>')),
    ('exclude-result-prefixes', S('<xsl:template match="/"><o xsl:exclude-result-prefixes="q" xmlns:q="urn:q"><a:e/></o></xsl:template>',
                                  ' xmlns:a="urn:a" xmlns:b="urn:b" exclude-result-prefixes="b" extension-element-prefixes="b"')),
    ('namespace-alias', S('<xsl:namespace-alias stylesheet-prefix="o" result-prefix="xsl"/><xsl:template match="/"><o:stylesheet version="1.0"><o:template match="/"/></o:stylesheet></xsl:template>',
                          ' xmlns:o="urn:alias"')),
    ('output-xml', S('<xsl:output method="xml" version="1.0" encoding="UTF-8" omit-xml-declaration="no" standalone="yes" doctype-public="pub" doctype-system="sys" '
                     'cdata-section-elements="c" indent="yes" media-type="text/xml"/><xsl:template match="/"><o><c>x&lt;y</c></o></xsl:template>')),
    ('output-html', S('<xsl:output method="html" encoding="ISO-8859-1" indent="no"/><xsl:template match="/"><html><body><p title="&#233;">t<br/></p></body></html></xsl:template>')),
    ('output-text', S('<xsl:output method="text" encoding="UTF-16"/><xsl:template match="/">t<xsl:value-of select="r/i[1]"/></xsl:template>')),
    ('decimal-format', S('<xsl:decimal-format name="d" decimal-separator="," grouping-separator="." infinity="INF" minus-sign="-" NaN="nan" percent="%" per-mille="&#8240;" '
                         'zero-digit="0" digit="#" pattern-separator=";"/><xsl:template match="/"><o><xsl:value-of select="format-number(1234.5,\'#.##0,00\',\'d\')"/></o></xsl:template>')),
    ('format-number', S('<xsl:template match="/"><o><xsl:value-of select="format-number(sum(r/i/@n) div 7,\'#,##0.00;(#)\')"/></o></xsl:template>')),
    ('message', S('<xsl:template match="/"><o><xsl:message terminate="no">m<xsl:value-of select="1"/></xsl:message></o></xsl:template>')),
    ('fallback', S('<xsl:template match="/"><o><x:ext xmlns:x="urn:x" xsl:extension-element-prefixes="x"><xsl:fallback><f/></xsl:fallback></x:ext></o></xsl:template>')),
    ('document', S('<xsl:template match="/"><o><xsl:value-of select="count(document(\'inc.xsl\')//*)"/><xsl:value-of select="count(document(\'\')//*)"/></o></xsl:template>')),
    ('functions', S('<xsl:template match="/"><o a="{generate-id(r) = generate-id(r)}"><xsl:value-of select="concat(system-property(\'xsl:version\'),function-available(\'key\'),'
                    'element-available(\'xsl:if\'),unparsed-entity-uri(\'u\'),name(current()))"/></o></xsl:template>')),
    ('modes-priority', S('<xsl:template match="i" priority="1.5" mode="a"><one/></xsl:template><xsl:template match="r/i" mode="a"><two/></xsl:template>'
                         '<xsl:template match="/"><xsl:apply-templates select="//i" mode="a"/></xsl:template>')),
    ('apply-imports', S('<xsl:import href="inc.xsl"/><xsl:template match="e"><xsl:apply-imports/></xsl:template>')),
    ('simplified', '<o xsl:version="1.0" xmlns:xsl="%s"><xsl:value-of select="count(//i)"/></o>' % XSLNS),
    ('rtf-nodeset', S('<xsl:variable name="t"><a>1</a><a>2</a></xsl:variable><xsl:template match="/"><o><xsl:value-of select="string($t)"/><xsl:for-each select="r/i[position() &lt; 2]">'
                      '<xsl:copy/></xsl:for-each></o></xsl:template>')),
]
SEED_RES = {'inc.xsl': INC}
# ten small seeds for the 2-deviation level
SUBSET2 = ['apply-templates', 'call-template', 'for-each', 'value-of', 'copy-of', 'attribute', 'if', 'param', 'key', 'lre-avt']


def seed_trees():
    return [(n, parse_xml(x)) for n, x in SEEDS]


# ---------------------------------------------------------------------------------------------
# family (a): XPath token strings

def tokens30():
    import c02
    # the alphabet is the literal list inside c02.gen_cases (family 'tokens'); read it from the source so that both checks
    # enumerate the same strings
    src = open(c02.__file__).read()
    m = re.search(r"toks = (\[.*?\])\n\s*maxlen", src, re.S)
    toks = eval(m.group(1))
    assert len(toks) == 30, toks
    return toks


TOK12 = ['a', '*', '/', '//', '(', ')', '[', ']', '|', '-', '1', '@']
XP_DOC = '<r a="1"><a>1</a><b>2</b><b>3</b></r>'


def xp_case(fam, expr, site=None, timeout=None):
    return {'fam': fam, 'k': 'xp', 'expr': expr, 'site': site or expr, 'nonseed': True, 'timeout': timeout}


def blocks_xpath(tier):
    toks = tokens30()
    assert all(t in toks for t in TOK12)
    max30 = 4 if tier == 'thorough' else 3
    max12 = 5 if tier == 'thorough' else 4
    out = []

    def add(alpha, n):
        plen = min(2, n - 1)
        for prefix in itertools.product(alpha, repeat=plen):
            def gen(prefix=prefix, alpha=alpha, n=n):
                for rest in itertools.product(alpha, repeat=n - len(prefix)):
                    yield xp_case('xpath', ' '.join(prefix + rest))
            out.append(('xpath', len(alpha) ** (n - plen), gen))
    for n in range(1, max30 + 1):
        add(toks, n)
    for n in range(max30 + 1, max12 + 1):
        add(TOK12, n)

    # expression lengths around the fixed-size buffers of the C API transcoding (100 units on the stack, 1024-unit blocks)
    def lengths():
        for L in list(range(94, 106)) + list(range(1018, 1030)) + [2047, 2048, 2049]:
            for ch, w in (('x', 1), ('é', 2), ('€', 3), ('\U00010400', 4)):
                n = max(0, (L - 2) // w)
                yield xp_case('xpath', "'" + ch * n + "'", site='literal-length')
                yield xp_case('xpath', "'" + 'x' * ((L - 2) - n * w if w > 1 else 0) + ch * n + "'", site='literal-length')
            yield xp_case('xpath', '1' + ' ' * (L - 1), site='literal-length')
        for bad in (b'\x80', b'\xff', b'\xc3', b"'\xed\xa0\x80'", b"'\xf4\x90\x80\x80'", b"'\xc0\x80'"):
            yield {'fam': 'xpath', 'k': 'xp', 'expr': bad, 'site': 'invalid-utf8', 'nonseed': True, 'timeout': None}
    out.append(('xpath', 250, lengths))
    return out


# ---------------------------------------------------------------------------------------------
# family (b): stylesheet deviations

def tr_case(fam, xsl, xml, site, entry='stream', opts=(), res=None, nonseed=True, timeout=None, parts=None):
    o = ['e:' + entry] + list(opts)
    for k, v in (res or {}).items():
        o.append(B('r:%s=' % k) + B(v))
    return {'fam': fam, 'k': 'tr', 'xsl': B(xsl), 'xml': B(xml), 'opts': o, 'site': site, 'nonseed': nonseed, 'timeout': timeout,
            'parts': parts, 'entry': entry}


def blocks_stylesheet(tier):
    thorough = tier == 'thorough'
    entries1 = ['stream', 'compiled-st', 'capis', 'mixed', 'target'] if thorough else ['stream', 'compiled-st']
    out = []
    seeds = seed_trees()

    def seed0():
        for name, tree in seeds:
            for en in ['stream', 'target', 'compiled-st', 'compiled-xw', 'mixed', 'pi', 'capi', 'capis']:
                yield tr_case('stylesheet', ser(tree), DOC1, 'seed:' + name, en, res=SEED_RES, nonseed=False)
    out.append(('stylesheet', len(seeds) * 8, seed0))
    for name, tree in seeds:
        eds = edits_of(tree)
        # the edits that make a template call itself run until the memory cap: one block each so that they spread over the shards
        slow = [i for i, (site, fn) in enumerate(eds) if site.endswith(':recurse')]
        fast = [i for i in range(len(eds)) if i not in slow]

        def gen(idx, name=name, tree=tree, eds=eds):
            for i in idx:
                site, fn = eds[i]
                t = tree.clone()
                if not fn(t):
                    continue
                x = ser(t)
                for en in entries1:
                    yield tr_case('stylesheet', x, DOC1, site, en, res=SEED_RES, timeout=120 if site.endswith(':recurse') else None)
        for chunk in range(0, len(fast), 40):
            idx = fast[chunk:chunk + 40]
            out.append(('stylesheet', len(idx) * len(entries1), lambda idx=idx, gen=gen: gen(idx)))
        for i in slow:
            out.append(('stylesheet', len(entries1), lambda i=i, gen=gen: gen([i])))
    if thorough:
        for name, tree in seeds:
            if name not in SUBSET2:
                continue
            eds = edits_of(tree, with_recursion=False)
            for i in range(len(eds)):
                def gen2(i=i, tree=tree, eds=eds):
                    s1, f1 = eds[i]
                    t1 = tree.clone()
                    if not f1(t1):
                        return
                    for j in range(i + 1, len(eds)):
                        s2, f2 = eds[j]
                        t2 = t1.clone()
                        if not f2(t2):
                            continue
                        yield tr_case('stylesheet2', ser(t2), DOC1, s1 + '+' + s2, 'stream', res=SEED_RES)
                out.append(('stylesheet2', len(eds) - i - 1, gen2))
    return out


# ---------------------------------------------------------------------------------------------
# family (c): source bytes

SRC_XSL = S('<xsl:key name="k" match="*" use="name()"/>'
            '<xsl:template match="/"><out><xsl:copy-of select="."/><xsl:for-each select="//node()|//@*|//namespace::*">'
            '<n t="{name()}" u="{namespace-uri()}" l="{local-name()}"><xsl:value-of select="."/></n></xsl:for-each>'
            '<xsl:value-of select="count(id(\'i1\'))"/><xsl:value-of select="count(key(\'k\',\'r\'))"/>'
            '<xsl:value-of select="unparsed-entity-uri(\'u\')"/><xsl:value-of select="string-length(normalize-space(.))"/></out></xsl:template>')

SRC_DOCS = [
    ('plain', b'<r a="1"><b>t</b><c/></r>'),
    ('utf8', b'<?xml version="1.0" encoding="UTF-8"?><r a="\xc3\xa9">\xe2\x82\xac\xf0\x90\x90\x80</r>'),
    ('refs', b'<r a="&lt;&#65;&#x10000;">&amp;&gt;&quot;&apos;&#9;</r>'),
    ('misc', b'<r><!--c--><?t d?><![CDATA[<x>]]></r>'),
    ('ns', b'<p:r xmlns:p="urn:p" xmlns="urn:d" xml:lang="en" xml:space="preserve"><a p:b="1"> </a></p:r>'),
    ('dtd', b'<!DOCTYPE r [<!ATTLIST i id ID #IMPLIED d CDATA "v"><!ENTITY e "x"><!ENTITY u SYSTEM "u.gif" NDATA g><!NOTATION g SYSTEM "g">]><r><i id="i1">&e;</i></r>'),
    ('utf16', '\ufeff<?xml version="1.0" encoding="UTF-16"?><r a="é">t</r>'.encode('utf-16-le')),
    ('latin1', b'<?xml version="1.0" encoding="ISO-8859-1"?><r a="\xe9">\xff</r>'),
]
BYTE_MENU = [b'<', b'>', b'&', b'"', b'\x00', b'\x80', b'\xff']
SRC_ENTRIES = ['stream', 'compiled-st', 'compiled-xw']


def bname(b):
    return {b'<': 'lt', b'>': 'gt', b'&': 'amp', b'"': 'quot', b'\x00': 'nul', b'\x80': 'x80', b'\xff': 'xff'}[b]


def blocks_source(tier):
    docs = SRC_DOCS if tier == 'thorough' else SRC_DOCS[:3]
    out = []

    def seed0():
        for name, d in SRC_DOCS:
            for en in SRC_ENTRIES + ['capi', 'capis', 'pi']:
                yield tr_case('source', SRC_XSL, d, 'seed:' + name, en, nonseed=False)
    out.append(('source', len(SRC_DOCS) * 6, seed0))
    for name, d in docs:
        L = len(d)
        for lo in range(0, L + 1, 8):
            def gen(lo=lo, name=name, d=d, L=L):
                for p in range(lo, min(lo + 8, L + 1)):
                    variants = []
                    if p < L:
                        variants.append(('%s:truncate' % name, d[:p]))
                        for b in BYTE_MENU:
                            if d[p:p + 1] != b:
                                variants.append(('%s:replace(%s)' % (name, bname(b)), d[:p] + b + d[p + 1:]))
                    for b in BYTE_MENU:
                        variants.append(('%s:insert(%s)' % (name, bname(b)), d[:p] + b + d[p:]))
                    for site, v in variants:
                        for en in SRC_ENTRIES:
                            yield tr_case('source', SRC_XSL, v, site, en)
            out.append(('source', 8 * 15 * 3, gen))

    # declared encoding vs actual bytes
    def enc():
        body = '<r a="é">€</r>'
        decls = ['UTF-8', 'UTF-16', 'UTF-16LE', 'UTF-16BE', 'ISO-8859-1', 'US-ASCII', 'UCS-4', 'ISO-10646-UCS-4', 'windows-1252', 'IBM037',
                 'EBCDIC-CP-US', 'Shift_JIS', 'x-nope', '', 'utf-8', 'UTF-7', 'UTF-32']
        reals = [('utf-8', ''), ('utf-8', '\ufeff'), ('utf-16-le', ''), ('utf-16-le', '\ufeff'), ('utf-16-be', ''), ('utf-16-be', '\ufeff'),
                 ('utf-32-le', ''), ('utf-32-be', '\ufeff'), ('latin-1', ''), ('cp037', '')]
        for dn in decls:
            for rn, bom in reals:
                text = '%s<?xml version="1.0" encoding="%s"?>%s' % (bom, dn, body if rn not in ('latin-1', 'cp037') else '<r a="é">t</r>')
                data = text.encode(rn)
                site = 'encoding:declared(%s)-actual(%s%s)' % (dn or 'empty', rn, '+bom' if bom else '')
                for en in SRC_ENTRIES:
                    yield tr_case('source', SRC_XSL, data, site, en)
        # UTF-16 with an odd number of bytes, every BOM followed by every other declaration is above; odd lengths here
        for rn in ('utf-16-le', 'utf-16-be'):
            for bom in ('', '\ufeff'):
                data = ('%s<?xml version="1.0" encoding="UTF-16"?><r>t€</r>' % bom).encode(rn)
                for cut in (1, 3):
                    for en in SRC_ENTRIES:
                        yield tr_case('source', SRC_XSL, data[:-cut], 'encoding:utf16-odd-length(%s)' % rn, en)
                for extra in (b'\x00', b'<', b'\xd8', b'\xff'):
                    for en in SRC_ENTRIES:
                        yield tr_case('source', SRC_XSL, data + extra, 'encoding:utf16-odd-length(%s)' % rn, en)
        for en in SRC_ENTRIES:
            yield tr_case('source', SRC_XSL, b'', 'empty-document', en)
            yield tr_case('source', SRC_XSL, b'\xef\xbb\xbf', 'bom-only', en)
            yield tr_case('source', SRC_XSL, b'\xff\xfe', 'bom-only', en)
            yield tr_case('source', SRC_XSL, b'\xef\xbb\xbf\xff\xfe<\x00r\x00/\x00>\x00', 'two-boms', en)
    out.append(('source', 600, enc))
    return out
