#!/usr/bin/env python3
"""C15: key() returns exactly the nodes its xsl:key declaration defines, independent of lookup history.
All declarations (match x use, one or two per name, in an import) x documents (main + document()) x lookup values x
all orders of a 4-lookup sequence across two documents and two keys."""
import os, sys, time, json, itertools
sys.path.insert(0, os.path.join(os.path.dirname(os.path.abspath(__file__)), '..', 'lib'))
sys.path.insert(0, os.path.dirname(os.path.abspath(__file__)))
import re
import vlib, refdoc as R, refxpath as X, xpgen as G, xpparse
from refxpath import num, s, fn, b, step, path, name, NODE, TEXTT, WILD, DOS

PROP = 'C15'
XSL = 'http://www.w3.org/1999/XSL/Transform'

PATH_TEMPLATES = '''<xsl:template name="path"><xsl:choose><xsl:when test="not(..)">/</xsl:when>
<xsl:when test="count(.|../@*)=count(../@*)"><xsl:for-each select=".."><xsl:call-template name="path1"/></xsl:for-each>/@<xsl:value-of select="name()"/></xsl:when>
<xsl:otherwise><xsl:call-template name="path1"/></xsl:otherwise></xsl:choose></xsl:template>
<xsl:template name="path1"><xsl:if test=".."><xsl:for-each select=".."><xsl:call-template name="path1"/></xsl:for-each>/<xsl:value-of select="count(preceding-sibling::node())"/></xsl:if></xsl:template>
'''

A, Bn = name('a'), name('b')
_TOK = re.compile(r"'[^']*'|::|//|\.\.|!=|<=|>=|[A-Za-z_][\w.-]*|\d+(?:\.\d+)?|\S")


def P(text):
    """(text, AST) through the reference token parser"""
    return (text, xpparse.parse_tokens(_TOK.findall(text)))


MATCHES = [
    ('a', path(step('child', A))),
    ('*', path(step('child', WILD))),
    ('@x', path(step('attribute', name('x')))),
    ('a/b', path(step('child', A), step('child', Bn))),
    ('text()', path(step('child', TEXTT))),
    ('a|b', b('|', path(step('child', A)), path(step('child', Bn)))),
    ('node()', path(step('child', NODE))),
    ('b[@x]', path(step('child', Bn, path(step('attribute', name('x')))))),
    P('@*'), P('a[b]'), P('a[@x=1]'), P('//b'), P('r/a'), P('b[1]'), P('*[not(*)]'), P('comment()|processing-instruction()'),
    P('b[last()]'), P('a/@x'),
]
N_MATCH_Q = 8       # quick: the first 8 x all uses, the rest x the first 4 uses
USES = [
    ('@x', path(step('attribute', name('x')))),
    ('.', path(step('self', NODE))),
    ('b', path(step('child', Bn))),
    ('@*', path(step('attribute', WILD))),
    ("'c'", s('c')),
    ('position()', fn('position')),
    ('b|@x', b('|', path(step('child', Bn)), path(step('attribute', name('x'))))),
    ('string-length(.)', fn('string-length', path(step('self', NODE)))),
    ('name()', fn('name')),
    P('..'), P('ancestor::*/@x'), P('concat(@x,@y)'), P('@x+1'), P('b/@x'), P('not(@x)'), P('@y'), P('preceding-sibling::*[1]/@x'),
    P('count(b)'), P('substring(.,1,1)'),
]


def docs():
    E = R.E
    d1 = R.make_doc([E('r', None, [
        E('a', [('x', '1')], ['1', E('b', [('x', '2')], ['c'])]),
        E('b', [('x', '1'), ('y', 'c')], ['2']),
        E('a', [('x', '2'), ('y', '1')], [E('b', None, ['1']), E('b', None, ['2'])]),
        E('a', None, ['c']),
    ])], name='M1')
    d2 = R.make_doc([E('r', None, [
        E('b', [('x', '2')], ['1']),
        E('a', [('x', '1')], [E('b', [('x', '1')], ['2'])]),
        E('a', [('x', 'c')], ['2']),
    ])], name='M2')
    d3 = R.make_doc([E('a', [('x', '1')], [E('a', [('x', '1')], [E('a', [('x', '2')], ['1']), '2'])])], name='M3')
    d4 = R.make_doc([R.C('c'), E('r', [('x', '1')], [
        R.C('1'), E('a', [('x', '1'), ('y', '2')], ['c', R.C('2'), E('b', None, []), R.P('t', '1'), 'c']),
        R.P('t', 'c'), E('b', [('x', '3')], [E('b', [('x', '1')], ['1']), '2', E('b', None, ['1'])]), E('a', None, []),
    ]), R.P('u', '2')], name='M4')
    return [d1, d2, d3, d4]


def pretty_xml(doc):
    """the document with whitespace-only text between element siblings (never next to real text): with xsl:strip-space elements="*"
    the processor must see exactly the original tree"""
    def r(n):
        if n.kind == R.ELEM:
            o = '<' + n.qname + ''.join(' %s="%s"' % (a.qname, R.esc_attr(a.value)) for a in n.attrs)
            if not n.children:
                return o + '/>'
            o += '>'
            prev = None
            for c in n.children:
                if c.kind != R.TEXT and (prev is None or prev.kind != R.TEXT):
                    o += '\n  '
                o += r(c)
                prev = c
            if prev is not None and prev.kind != R.TEXT:
                o += '\n'
            return o + '</' + n.qname + '>'
        if n.kind == R.TEXT:
            return R.esc_text(n.value)
        if n.kind == R.COMMENT:
            return '<!--' + n.value + '-->'
        if n.kind == R.PI:
            return '<?' + n.local + ' ' + n.value + '?>'
        return ''
    return ''.join(r(c) for c in doc.root.children)


def matches(m_ast, doc):
    out = []
    seen = set()
    for Actx in doc.nodes:
        if Actx.kind == R.NS:
            continue
        for n in X.evaluate(m_ast, X.Ctx(Actx)):
            if id(n) not in seen:
                seen.add(id(n))
                out.append(n)
    return out


def use_values(u_ast, node):
    v = X.evaluate(u_ast, X.Ctx(node, 1, 1))
    if isinstance(v, X.NodeSet):
        return set(x.string_value() for x in v)
    return {X.to_str(v)}


def ref_key(decls, doc, values):
    """decls: list of (m_ast, u_ast) sharing one name; values: set of strings. Returns sorted paths."""
    out = set()
    for m_ast, u_ast in decls:
        for n in matches(m_ast, doc):
            if use_values(u_ast, n) & values:
                out.add(doc.path(n))
    return sorted(out)


def esc(t):
    return t.replace('&', '&amp;').replace('<', '&lt;').replace('"', '&quot;')


VALUES = ['1', '2', 'c', 'nosuch', '', 'a', 'b', '3', '0', 'true', 'false', 'NaN', '12', 'c2c']


def lookup_xml(i, kname, argtext, docsel, tops):
    """docsel: None (context = root of the main document), 'other.xml' (document()), 'ctx:<expr>' (context = that node of the main
    document), 'rtf' (context = root of xalan:nodeset($t), $t holding the other document's content), 'pat' (key() as a match pattern)"""
    inner = '<l i="%d"><xsl:for-each select="key(\'%s\', %s)"><h><xsl:call-template name="path"/></h></xsl:for-each></l>' % (i, kname, esc(argtext))
    if docsel == 'pat':
        tops.append('<xsl:template match="key(\'%s\', %s)" mode="m%d"><h><xsl:call-template name="path"/></h></xsl:template>'
                    '<xsl:template match="node()|@*|/" mode="m%d" priority="-5"/>' % (kname, esc(argtext), i, i))
        return '<l i="%d"><xsl:apply-templates select="/|//node()|//@*" mode="m%d"/></l>' % (i, i)
    if docsel == 'rtf':
        return '<xsl:for-each select="xalan:nodeset($t)">%s</xsl:for-each>' % inner
    if docsel and docsel.startswith('ctx:'):
        return '<xsl:for-each select="%s">%s</xsl:for-each>' % (esc(docsel[4:]), inner)
    if docsel:
        return '<xsl:for-each select="document(\'%s\')">%s</xsl:for-each>' % (docsel, inner)
    return inner


def stylesheet(decl_xml, lookups, imports='', tops='', rtf='', strip=False):
    # xsl:import elements come first; strip-space makes the processor see the pretty-printed variant of a document as the original
    return ('<xsl:stylesheet version="1.0" xmlns:xsl="%s" xmlns:xalan="http://xml.apache.org/xalan" xmlns:p="u1" xmlns:q1="u1" '
            'exclude-result-prefixes="xalan p q1">%s%s%s<xsl:variable name="t">%s</xsl:variable>%s'
            '<xsl:template match="/"><out>%s</out></xsl:template>%s</xsl:stylesheet>'
            % (XSL, imports, '<xsl:strip-space elements="*"/>' if strip else '', decl_xml, rtf, tops, ''.join(lookups), PATH_TEMPLATES))


SECOND = ((3, 0), (0, 1), (2, 1), (8, 10), (11, 3), (15, 12))


def gen_cases(tier):
    """yields (family, decl description, decl_xml, imports(dict name->content), main_doc_index, other_doc_index,
               lookups [(kname, argtext, docsel, decls, values or ('nodeset', expr_ast, context_expr_ast))])"""
    thorough = tier == 'thorough'
    D = docs()
    ROOT = P('/')[1]
    # 1. every (match, use) declaration, every lookup value, on every document as main, plus a document() load, deep and attribute
    #    context nodes, the RTF of a variable, key() as a match pattern, number / boolean / node-set second arguments
    for mi_, (mt, m_ast) in enumerate(MATCHES):
        for ui_, (ut, u_ast) in enumerate(USES):
            if not thorough and not (mi_ < N_MATCH_Q and ui_ < 9) and not ui_ < 4 and (mi_ + ui_) % 3:
                continue
            decl = '<xsl:key name="k" match="%s" use="%s"/>' % (esc(mt), esc(ut))
            dd = [(m_ast, u_ast)]
            for mi in range(len(D)):
                oi = (mi + 1) % len(D)
                lk = []
                for v in VALUES:
                    lk.append(('k', "'%s'" % v, None, dd, {v}))
                    lk.append(('k', "'%s'" % v, 'other.xml', dd, {v}))
                for v in ('1', '2', 'c'):
                    lk.append(('k', "'%s'" % v, 'ctx:(//*)[last()]', dd, {v}))
                    lk.append(('k', "'%s'" % v, 'ctx:(//@x)[last()]', dd, {v}))
                    lk.append(('k', "'%s'" % v, 'rtf', dd, {v}))
                    lk.append(('k', "'%s'" % v, 'pat', dd, {v}))
                # number, boolean and node-set arguments
                lk.append(('k', '1', None, dd, {'1'}))
                lk.append(('k', '1 + 1', None, dd, {'2'}))
                lk.append(('k', '0 div 0', 'other.xml', dd, {'NaN'}))
                lk.append(('k', 'true()', None, dd, {'true'}))
                for t in ('//b/@x', '//a', '//nosuch', '//text()', '/'):
                    lk.append(('k', t, None, dd, ('nodeset', P(t)[1])))
                lk.append(('k', '//b/@x', 'other.xml', dd, ('nodeset', P('//b/@x')[1])))
                lk.append(('k', '//*', 'rtf', dd, ('nodeset', P('//*')[1])))
                yield ('single', '%s use %s' % (mt, ut), decl, {}, mi, oi, lk)
    # 2. two declarations with the same name (union), one of them in an import; QName key names compared by expanded name
    pairs = list(itertools.product(range(len(MATCHES)), range(len(USES))))
    sel = pairs if thorough else pairs[::5]
    for (m1, u1) in sel:
        for (m2, u2) in (SECOND if thorough else SECOND[:3]):
            mt1, ma1 = MATCHES[m1]; ut1, ua1 = USES[u1]
            mt2, ma2 = MATCHES[m2]; ut2, ua2 = USES[u2]
            d1 = '<xsl:key name="k" match="%s" use="%s"/>' % (esc(mt1), esc(ut1))
            d2 = '<xsl:key name="k" match="%s" use="%s"/>' % (esc(mt2), esc(ut2))
            both = [(ma1, ua1), (ma2, ua2)]
            lk = [('k', "'%s'" % v, ds, both, {v}) for v in ('1', '2', 'c') for ds in (None, 'other.xml', 'rtf', 'pat')]
            for mi in (range(len(D)) if thorough else ((m1 + u1) % len(D),)):
                yield ('same-name-twice', '%s use %s + %s use %s' % (mt1, ut1, mt2, ut2), d1 + d2, {}, mi, (mi + 1) % len(D), lk)
                imp = '<xsl:stylesheet version="1.0" xmlns:xsl="%s">%s</xsl:stylesheet>' % (XSL, d2)
                yield ('same-name-import', '%s use %s + import %s use %s' % (mt1, ut1, mt2, ut2), d1, {'imp.xsl': imp}, mi, (mi + 1) % len(D), lk)
                # the same two declarations under a QName, looked up through another prefix of the same namespace; an unprefixed key of the
                # same local name is a different key
                dq = d1.replace('name="k"', 'name="p:k"') + d2.replace('name="k"', 'name="k"')
                lkq = [('q1:k', "'%s'" % v, ds, [(ma1, ua1)], {v}) for v in ('1', '2') for ds in (None, 'other.xml')] + \
                      [('k', "'%s'" % v, ds, [(ma2, ua2)], {v}) for v in ('1', '2') for ds in (None, 'rtf')]
                yield ('qname', 'p:k = %s use %s ; k = %s use %s' % (mt1, ut1, mt2, ut2), dq, {}, mi, (mi + 1) % len(D), lkq)
    # 2b. the same name declared twice so that BOTH declarations index the same node under the same value (node-set valued and
    #     string valued use of the same attribute / string-value): the node is still in the result once
    for mi_, (mt, m_ast) in enumerate(MATCHES):
        for (ua, ub) in (('@x', 'string(@x)'), ('.', 'string(.)'), ('string(@x)', '@x'), ('name()', 'local-name()'), ("'c'", "concat('c','')")):
            (ut1, ua1), (ut2, ua2) = P(ua), P(ub)
            d1 = '<xsl:key name="k" match="%s" use="%s"/>' % (esc(mt), esc(ut1))
            d2 = '<xsl:key name="k" match="%s" use="%s"/>' % (esc(mt), esc(ut2))
            both = [(m_ast, ua1), (m_ast, ua2)]
            lk = [('k', "'%s'" % v, ds, both, {v}) for v in ('1', '2', 'c', 'a', 'b') for ds in (None, 'other.xml', 'rtf')]
            mi = mi_ % len(D)
            yield ('same-name-same-value', '%s use %s + %s use %s' % (mt, ut1, mt, ut2), d1 + d2, {}, mi, (mi + 1) % len(D), lk)
    # 3. histories: all orders of a 4-lookup (quick) / 5-lookup (thorough) sequence across main document, document() and RTF, two keys
    for hi, (m1, u1) in enumerate(sel):
        mt1, ma1 = MATCHES[m1]; ut1, ua1 = USES[u1]
        mt2, ma2 = MATCHES[(m1 + 3) % len(MATCHES)]; ut2, ua2 = USES[(u1 + 1) % len(USES)]
        decl = ('<xsl:key name="k" match="%s" use="%s"/><xsl:key name="j" match="%s" use="%s"/>'
                % (esc(mt1), esc(ut1), esc(mt2), esc(ut2)))
        ops = [('k', "'1'", None, [(ma1, ua1)], {'1'}), ('j', "'2'", None, [(ma2, ua2)], {'2'}),
               ('k', "'2'", 'other.xml', [(ma1, ua1)], {'2'}), ('j', "'1'", 'other.xml', [(ma2, ua2)], {'1'})]
        if thorough:
            ops.append(('k', "'1'", 'rtf', [(ma1, ua1)], {'1'}))
        for perm in itertools.permutations(range(len(ops))):
            yield ('history', '%s use %s ; %s use %s ; order %s' % (mt1, ut1, mt2, ut2, ''.join(map(str, perm))),
                   decl, {}, hi % len(D), (hi + 1) % len(D), [ops[p] for p in perm])


def shard_main(shard, nshards, tier):
    D = docs()
    w = vlib.Worker('xdrv', stderr_path=os.path.join(vlib.BUILD, 'tmp', 'c15.%d.err' % shard))
    counts = {'evaluations': 0, 'transformations': 0, 'nontrivial': 0, 'declarations': 0}
    viols = []
    samples = []
    for idx, (fam, desc, decl_xml, imports, mi, oi, lookups) in enumerate(gen_cases(tier)):
        if idx % nshards != shard:
            continue
        counts['declarations'] += 1
        main, other = D[mi], D[oi]
        imp_xml = ''.join('<xsl:import href="%s"/>' % n for n in imports)
        tops = []
        bodies = [lookup_xml(i, k, a, ds, tops) for i, (k, a, ds, _, _) in enumerate(lookups)]
        # every third case is run on the pretty-printed documents with xsl:strip-space elements="*": same tree, same answers
        strip = idx % 3 == 1
        xsl = stylesheet(decl_xml, bodies, imp_xml, ''.join(tops), '<xsl:copy-of select="document(\'other.xml\')/node()"/>', strip)
        args = ['r:other.xml=' + (pretty_xml(other) if strip else other.to_xml())] + ['r:%s=%s' % kv for kv in imports.items()]
        try:
            r = w.request('tr', xsl, pretty_xml(main) if strip else main.to_xml(), *args)
        except vlib.WorkerDied as wd:
            viols.append(('%s|fatal|%s' % (fam, desc), {'decl': decl_xml, 'stderr': wd.stderr_tail[-1500:]}))
            continue
        counts['transformations'] += 1
        if r[0] != '0':
            viols.append(('%s|transform-error|%s' % (fam, desc), {'decl': decl_xml, 'xsl': xsl, 'error': r[1]}))
            continue
        out = R.parse_xml(r[2])
        got = {}
        for l in out.docel.children:
            got[int(l.attrs[0].value)] = sorted(h.string_value().strip() for h in l.children)
            order = [h.string_value().strip() for h in l.children]
            got[('order', int(l.attrs[0].value))] = order
        for i, (k, a, ds, decls, values) in enumerate(lookups):
            doc = other if ds in ('other.xml', 'rtf') else main
            if isinstance(values, tuple):
                # node-set argument: evaluated with the context node of the lookup = root of `doc`
                vs = set(x.string_value() for x in X.evaluate(values[1], X.Ctx(doc.root)))
            else:
                vs = values
            exp = ref_key(decls, doc, vs)
            counts['evaluations'] += 1
            if exp:
                counts['nontrivial'] += 1
            g = got.get(i, [])
            if g != exp:
                extra = [x for x in g if x not in exp]
                missing = [x for x in exp if x not in g]
                kind = 'extra' if extra and not missing else ('missing' if missing and not extra else 'different')
                viols.append(('%s|%s|%s|key(%s,%s)%s' % (fam, kind, desc, k, a, ' in document()' if ds else ''),
                              {'decl': decl_xml, 'main': main.to_xml(), 'other': other.to_xml(), 'lookup': [k, a, ds],
                               'expected': exp, 'got': g, 'xsl': xsl}))
                break
            # delivered in document order, duplicate free
            order = got.get(('order', i), [])
            want_order = [doc.path(n) for n in doc.nodes if doc.path(n) in set(exp)]
            if order != want_order:
                viols.append(('%s|order|%s|key(%s,%s)' % (fam, desc, k, a), {'decl': decl_xml, 'expected': want_order, 'got': order}))
                break
        if len(samples) < 3 and idx % 499 == shard:
            samples.append('%s: %s, %d lookups on %s' % (fam, desc, len(lookups), main.name))
    w.close()
    return {'counts': counts, 'viols': viols, 'samples': samples}


def main():
    tier, rp = vlib.tier_from_argv()
    if rp:
        print(json.dumps(json.load(open(rp))['detail'], indent=1))
        return
    t0 = time.time()
    res = vlib.run_sharded(shard_main, (tier,))
    counts = vlib.merge_counts([r['counts'] for r in res])
    viols = [vlib.Violation(sig, det) for r in res for sig, det in r['viols']]
    cov = {
        'evaluations': counts['evaluations'],
        'distinct_nontrivial': counts['nontrivial'],
        'rule': 'Every declaration match in 18 patterns {a,*,@x,a/b,text(),a|b,node(),b[@x],@*,a[b],a[@x=1],//b,r/a,b[1],*[not(*)],'
                'comment()|processing-instruction(),b[last()],a/@x} x use in 19 expressions (node-set, string, number and boolean valued, '
                'multi-valued, position()) (quick: a fixed two-thirds of the pairs; thorough: all) x each of 4 documents (one with comments, PIs '
                'and empty elements) as main source with another loaded through document() and copied into an RTF x 14 lookup values + number, '
                'boolean and node-set second arguments, with the context node at the root or a deep element or an attribute of the main '
                'document, in the document() tree, in xalan:nodeset($rtf), and key() used as the match pattern of a template rule applied to '
                'every node; the same name declared twice and in an import, QName key names through another prefix (a fifth of / all '
                'pairs x 3 / 6 second declarations, thorough on all 4 documents); all 24 (quick) / 120 (thorough) orders of a 4- / 5-lookup '
                'sequence across main document, document() and RTF and two keys inside one transformation. Oracle: brute-force definition on '
                'the reference tree (nodes matching the pattern whose use-values contain the value), compared as node identity lists in '
                'document order. An evaluation is one lookup; non-trivial = the expected result is not empty.',
        'samples': [x for r in res for x in r['samples']][:6] or ['none'],
        'declarations': counts['declarations'], 'transformations': counts['transformations'],
        'exhaustive': True,
    }
    vlib.finish(PROP, tier, 'exploration', cov, viols, t0, assumptions=['lib/refxpath.py', 'pattern matching as decided by C09'])


if __name__ == '__main__':
    main()
