#!/usr/bin/env python3
"""C06: a reused transformer behaves like a fresh one. Explicit-state search over ALL API-operation histories up to a depth on
one XalanTransformer (harness/c06.cpp replays each history on a brand-new object); after every history a battery of probe
transformations is compared with the same probes on a fresh transformer that was only given the MODEL state (parameters, options,
installed function, live handles). The persistent execution context is introspected after every operation."""
import os, sys, time, json, itertools, subprocess
sys.path.insert(0, os.path.join(os.path.dirname(os.path.abspath(__file__)), '..', 'lib'))
import vlib

PROP = 'C06'
X = 'xmlns:xsl="http://www.w3.org/1999/XSL/Transform"'

DEFS = {
    'S_ok': '<xsl:stylesheet version="1.0" %s xmlns:ext="urn:ext" exclude-result-prefixes="ext"><xsl:param name="p" select="\'dflt\'"/><xsl:param name="q"/>'
            '<xsl:key name="k" match="i" use="@g"/><xsl:variable name="gv" select="count(//i)"/>'
            '<xsl:template match="/"><o p="{$p}" q="{$q}" gv="{$gv}"><k><xsl:value-of select="count(key(\'k\',\'1\'))"/></k>'
            '<xsl:for-each select="//i"><xsl:sort select="@n"/><n a="{position()}"><xsl:number level="any"/>.<xsl:number level="multiple" count="i|r"/></n></xsl:for-each>'
            '<g><xsl:value-of select="generate-id(//i[1])=generate-id(//i[1])"/></g>'
            '<f><xsl:choose><xsl:when test="function-available(\'ext:f\')"><xsl:value-of select="ext:f()"/></xsl:when><xsl:otherwise>none</xsl:otherwise></xsl:choose></f>'
            '<xsl:variable name="rtf"><a><b/></a></xsl:variable><c><xsl:copy-of select="$rtf"/></c><xsl:apply-templates select="//i" mode="m"/></o></xsl:template>'
            '<xsl:template match="i" mode="m"><m><xsl:value-of select="@n"/></m></xsl:template></xsl:stylesheet>' % X,
    'S_term': '<xsl:stylesheet version="1.0" %s><xsl:template match="/"><o><xsl:for-each select="//i"><xsl:sort select="@n"/><e a="1"><xsl:attribute name="b">2</xsl:attribute>'
              '<xsl:variable name="v"><x><xsl:call-template name="t"><xsl:with-param name="w" select="."/></xsl:call-template></x></xsl:variable><xsl:copy-of select="$v"/></e></xsl:for-each></o></xsl:template>'
              '<xsl:template name="t"><xsl:param name="w"/><y c="{$w/@n}"><xsl:if test="$w/@g=\'2\'"><xsl:for-each select="//i"><z><xsl:message terminate="yes">stop</xsl:message></z></xsl:for-each></xsl:if></y></xsl:template></xsl:stylesheet>' % X,
    'S_rterr': '<xsl:stylesheet version="1.0" %s><xsl:template match="/"><o><a b="1"><xsl:for-each select="//i"><c><xsl:value-of select="key(\'nokey\', @g)"/></c></xsl:for-each></a></o></xsl:template></xsl:stylesheet>' % X,
    'S_badname': '<xsl:stylesheet version="1.0" %s><xsl:output encoding="US-ASCII"/><xsl:template match="/"><o><xsl:for-each select="//i"><xsl:element name="{concat(\'e\', @u)}"><xsl:value-of select="@n"/></xsl:element></xsl:for-each></o></xsl:template></xsl:stylesheet>' % X,
    'S_enc': '<xsl:stylesheet version="1.0" %s><xsl:output encoding="no-such-encoding"/><xsl:template match="/"><o><xsl:value-of select="count(//i)"/></o></xsl:template></xsl:stylesheet>' % X,
    'S_doc': '<xsl:stylesheet version="1.0" %s><xsl:template match="/"><o><xsl:value-of select="count(document(\'missing.xml\')//x)"/><xsl:value-of select="count(document(\'D2\')//i)"/></o></xsl:template></xsl:stylesheet>' % X,
    'S_html': '<xsl:stylesheet version="1.0" %s><xsl:output method="html"/><xsl:param name="p" select="\'d\'"/><xsl:template match="/"><html><head><title><xsl:value-of select="$p"/></title></head><body><br/><p><xsl:value-of select="count(//i)"/></p></body></html></xsl:template></xsl:stylesheet>' % X,
    'S_text': '<xsl:stylesheet version="1.0" %s><xsl:output method="text"/><xsl:template match="/"><xsl:for-each select="//i"><xsl:value-of select="@n"/>,</xsl:for-each></xsl:template></xsl:stylesheet>' % X,
    'S_gv': '<xsl:stylesheet version="1.0" %s><xsl:variable name="g"><xsl:if test="//i[@n=\'z\']"><xsl:message terminate="yes">stop in a top-level variable</xsl:message></xsl:if><xsl:value-of select="count(//i)"/></xsl:variable>'
            '<xsl:variable name="h" select="concat($g, \'!\')"/><xsl:template match="/"><o><xsl:value-of select="$h"/></o></xsl:template></xsl:stylesheet>' % X,
    # a sort key that fails for the LAST node of D3 in document order (key name 'k' + @w: undeclared for w='x'), after the keys of the
    # other nodes have been computed and cached: text and number data types have separate caches
    'S_sorterr': '<xsl:stylesheet version="1.0" %s><xsl:key name="k" match="i" use="@g"/><xsl:template match="/"><o><xsl:for-each select="//i"><xsl:sort select="concat(count(key(concat(\'k\', @w), \'1\')), @g)"/>'
                 '<e><xsl:value-of select="@n"/></e></xsl:for-each></o></xsl:template></xsl:stylesheet>' % X,
    'S_sorterrn': '<xsl:stylesheet version="1.0" %s><xsl:key name="k" match="i" use="@g"/><xsl:template match="/"><o><xsl:apply-templates select="//i"><xsl:sort select="count(key(concat(\'k\', @w), \'1\')) - @g" data-type="number"/>'
                  '</xsl:apply-templates></o></xsl:template><xsl:template match="i"><e><xsl:value-of select="@n"/></e></xsl:template></xsl:stylesheet>' % X,
    'S_sort2': '<xsl:stylesheet version="1.0" %s><xsl:template match="/"><o><xsl:for-each select="//i"><xsl:sort select="@g" data-type="number" order="descending"/><xsl:sort select="@n"/>'
               '<e><xsl:value-of select="@n"/></e></xsl:for-each>|<xsl:apply-templates select="//i"><xsl:sort select="@n" order="descending"/></xsl:apply-templates></o></xsl:template>'
               '<xsl:template match="i"><f><xsl:value-of select="@n"/></f></xsl:template></xsl:stylesheet>' % X,
    # abort inside the body of a variable (a result tree fragment under construction) AFTER text was written into it: at depth 1 and,
    # through a with-param body inside a variable body, at depth 2
    'S_rtfterm': '<xsl:stylesheet version="1.0" %s><xsl:template match="/"><o><xsl:variable name="v">Total: <xsl:value-of select="count(//i)"/><xsl:if test="//i">'
                 '<xsl:message terminate="yes">stop</xsl:message></xsl:if></xsl:variable><xsl:copy-of select="$v"/></o></xsl:template></xsl:stylesheet>' % X,
    'S_rtfterm2': '<xsl:stylesheet version="1.0" %s><xsl:template match="/"><o><xsl:variable name="v"><a>outer <xsl:call-template name="t"><xsl:with-param name="w">inner '
                  '<xsl:value-of select="count(//i)"/><xsl:if test="//i"><xsl:message terminate="yes">stop</xsl:message></xsl:if></xsl:with-param></xsl:call-template></a></xsl:variable>'
                  '<xsl:copy-of select="$v"/></o></xsl:template><xsl:template name="t"><xsl:param name="w"/><xsl:copy-of select="$w"/></xsl:template></xsl:stylesheet>' % X,
    'S_rtf2': '<xsl:stylesheet version="1.0" %s><xsl:template match="/"><o><xsl:variable name="v">t<a><xsl:call-template name="t"><xsl:with-param name="w"><b/>u</xsl:with-param></xsl:call-template></a></xsl:variable>'
              '<xsl:copy-of select="$v"/>|<xsl:value-of select="string-length($v)"/></o></xsl:template><xsl:template name="t"><xsl:param name="w"/><xsl:copy-of select="$w"/></xsl:template></xsl:stylesheet>' % X,
    # aborted while the content of xsl:attribute / xsl:comment / xsl:processing-instruction is being instantiated (a mode in which only
    # text may be copied), by a terminating message and by a run-time error; S_copy then copies elements and attributes
    'S_attrterm': '<xsl:stylesheet version="1.0" %s><xsl:template match="/"><o><xsl:for-each select="//i"><e><xsl:attribute name="a"><xsl:value-of select="@n"/>'
                  '<xsl:if test="@n=\'c\'"><xsl:message terminate="yes">stop inside an attribute</xsl:message></xsl:if></xsl:attribute></e></xsl:for-each></o></xsl:template></xsl:stylesheet>' % X,
    'S_commerr': '<xsl:stylesheet version="1.0" %s><xsl:template match="/"><o><xsl:processing-instruction name="p">d</xsl:processing-instruction><xsl:for-each select="//i"><xsl:comment>c'
                 '<xsl:value-of select="key(\'nokey\', @g)"/></xsl:comment></xsl:for-each></o></xsl:template></xsl:stylesheet>' % X,
    'S_piterm': '<xsl:stylesheet version="1.0" %s><xsl:template match="/"><o><xsl:processing-instruction name="p">d<xsl:message terminate="yes">stop inside a processing instruction</xsl:message>'
                '</xsl:processing-instruction></o></xsl:template></xsl:stylesheet>' % X,
    'S_copy': '<xsl:stylesheet version="1.0" %s><xsl:template match="/"><o><xsl:copy-of select="//i[1]"/><xsl:for-each select="//i"><xsl:copy><xsl:copy-of select="@n"/><xsl:value-of select="@g"/></xsl:copy>'
              '</xsl:for-each><xsl:variable name="v"><a b="1"><b/></a></xsl:variable><xsl:copy-of select="$v"/></o></xsl:template></xsl:stylesheet>' % X,
    'S_comperr': '<xsl:stylesheet version="1.0" %s><xsl:template match="/"><xsl:nosuch/><xsl:value-of select="1 +"/></xsl:template></xsl:stylesheet>' % X,
    'D1': '<r><i n="b" g="1" u="">1</i><i n="a" g="2" u="é">2</i><i n="c" g="1" u="">3</i></r>',
    'D2': '<r><i n="z" g="2" u=""><i n="y" g="1" u="">4</i></i></r>',
    'D3': '<r><i n="d" g="1" w="">1</i><i n="b" g="2" w="">2</i><i n="c" g="1" w="">3</i><i n="a" g="2" w="x">4</i></r>',
    'D_bad': '<r><i></r>',
}

# the operation alphabet
OPS = [
    'compile:S_ok', 'compile:S_term', 'compile:S_gv', 'compile:S_comperr',
    'parse:D1:st', 'parse:D2:xw', 'parse:D_bad:st',
    'trS:S_ok:D1', 'trS:S_term:D1', 'trS:S_rterr:D1', 'trS:S_badname:D1', 'trS:S_enc:D2', 'trS:S_doc:D1', 'trS:S_html:D2', 'trS:S_ok:D_bad', 'trS:S_comperr:D1',
    'trS:S_sorterr:D3', 'trS:S_sorterrn:D3', 'trS:S_rtfterm:D1', 'trS:S_rtfterm2:D1',
    'trS:S_attrterm:D1', 'trS:S_commerr:D1', 'trS:S_piterm:D1',
    'trH:0:0', 'trH:0:1', 'trM:S_term:0',
    "param:p='1'", 'param:p=2+3', "param:q=//i[1]/@n", 'clear',
    'delS:0', 'delD:0', 'indent:2', 'enc:ISO-8859-1', 'inst', 'uninst',
]
PROBES = ['trS:S_ok:D1', 'trS:S_ok:D2', 'trH:0:0', 'trH:0:1', 'trH:0:0', 'trS:S_html:D1', 'trS:S_term:D2', 'trS:S_text:D1', 'trM:S_ok:0', 'trS:S_sort2:D1', 'trS:S_sort2:D2', 'trS:S_rtf2:D1', 'trS:S_copy:D1', 'trS:S_copy:D2']
COMPILES_OK = {'S_ok': True, 'S_term': True, 'S_gv': True, 'S_comperr': False}
PARSES_OK = {'D1': True, 'D2': True, 'D_bad': False}
MAX_HANDLES = 2


class Model:
    """What a user is entitled to believe persists in a transformer."""
    __slots__ = ('params', 'sheets', 'sources', 'indent', 'enc', 'inst')

    def __init__(self):
        self.params, self.sheets, self.sources, self.indent, self.enc, self.inst = [], [], [], None, None, False

    def key(self):
        return (tuple(self.params), tuple(self.sheets), tuple(self.sources), self.indent, self.enc, self.inst)

    def apply(self, op):
        a = op.split(':')
        if a[0] == 'compile' and COMPILES_OK[a[1]]:
            self.sheets.append(a[1])
        elif a[0] == 'parse' and PARSES_OK[a[1]]:
            self.sources.append((a[1], a[2]))
        elif a[0] == 'param':
            self.params.append(op[6:])
        elif a[0] == 'clear':
            self.params = []
        elif a[0] == 'delS' and int(a[1]) < len(self.sheets):
            del self.sheets[int(a[1])]
        elif a[0] == 'delD' and int(a[1]) < len(self.sources):
            del self.sources[int(a[1])]
        elif a[0] == 'indent':
            self.indent = a[1]
        elif a[0] == 'enc':
            self.enc = a[1]
        elif a[0] == 'inst':
            self.inst = True
        elif a[0] == 'uninst':
            self.inst = False

    def enabled(self, op):
        a = op.split(':')
        if a[0] == 'compile':
            return len(self.sheets) < MAX_HANDLES
        if a[0] == 'parse':
            return len(self.sources) < MAX_HANDLES
        if a[0] == 'trH':
            return len(self.sheets) > int(a[1]) and len(self.sources) > int(a[2])
        if a[0] == 'trM':
            return len(self.sources) > 0
        if a[0] == 'delS':
            return len(self.sheets) > 0
        if a[0] == 'delD':
            return len(self.sources) > 0
        if a[0] == 'uninst':
            return self.inst
        if a[0] == 'clear':
            return len(self.params) > 0
        return True

    def setup_ops(self):
        """operations that give a FRESH transformer exactly this model state"""
        ops = ['param:' + p for p in self.params]
        if self.indent is not None:
            ops.append('indent:' + self.indent)
        if self.enc is not None:
            ops.append('enc:' + self.enc)
        if self.inst:
            ops.append('inst')
        ops += ['compile:' + s for s in self.sheets]
        ops += ['parse:%s:%s' % sk for sk in self.sources]
        return ops


def model_of(history):
    m = Model()
    for op in history:
        m.apply(op)
    return m


class Driver:
    def __init__(self, shard):
        self.w = vlib.Worker('c06', stderr_path=os.path.join(vlib.BUILD, 'tmp', 'c06.%d.err' % shard), timeout=60)
        self.w.on_restart = lambda w: self.define()
        self.define()

    def define(self):
        r = self.w._request(['def:%s=%s' % kv for kv in DEFS.items()])
        assert r[0] == 'ok', r

    def run(self, ops):
        r = self.w.request('run', *ops)
        recs = []
        for f in r[:len(ops)]:
            a = f.split(',')
            recs.append((a[0], a[1], a[2], a[3] if len(a) > 3 else '-'))
        return recs, (r[len(ops)] if len(r) > len(ops) else '')

    def close(self):
        self.w.close()


BASE_INTRO = None


def histories(depth):
    """every history of exactly `depth` enabled operations (enabledness is decided by the model)"""
    def rec(prefix, m, d):
        if d == 0:
            yield list(prefix)
            return
        for op in OPS:
            if m.enabled(op):
                m2 = Model()
                m2.params, m2.sheets, m2.sources, m2.indent, m2.enc, m2.inst = list(m.params), list(m.sheets), list(m.sources), m.indent, m.enc, m.inst
                m2.apply(op)
                prefix.append(op)
                for h in rec(prefix, m2, d - 1):
                    yield h
                prefix.pop()
    return rec([], Model(), depth)


def shard_main(shard, nshards, tier):
    depth = 3 if tier == 'quick' else 4
    drv = Driver(shard)
    base, _ = drv.run(['indent:0'])
    base_intro = base[0][3]
    counts = {'histories': 0, 'transitions': 0, 'probe_comparisons': 0, 'nontrivial': 0}
    states = set()
    viols = []
    samples = []
    refcache = {}
    outcome_kinds = set()

    def reference(m, probe):
        k = (m.key(), probe)
        if k not in refcache:
            ops = m.setup_ops() + [probe]
            recs, out = drv.run(ops)
            refcache[k] = (recs[-1][:3], out)
        return refcache[k]

    idx = 0
    for d in range(1, depth + 1):
        for h in histories(d):
            idx += 1
            if idx % nshards != shard:
                continue
            m = model_of(h)
            probes = [p for p in PROBES if m.enabled(p)]
            ops = h + probes
            try:
                recs, lastout = drv.run(ops)
            except vlib.WorkerDied as wd:
                viols.append(('fatal|%s' % ' ; '.join(h), {'history': ops, 'how': str(wd.rc), 'stderr': wd.stderr_tail[-1500:]}))
                drv.define()
                continue
            counts['histories'] += 1
            counts['transitions'] += len(ops)
            # 1. no operation leaves anything in the persistent execution context
            mm = Model()
            for i, (op, rec) in enumerate(zip(ops, recs)):
                if i < len(h):
                    mm.apply(op)
                states.add((mm.key(), rec[3]))
                outcome_kinds.add((op.split(':')[0], rec[0] == '0'))
                if rec[3] != base_intro and rec[3] != '-':
                    viols.append(('context-not-reset|after %s' % op.split(':', 1)[0] + ':' + (op.split(':')[1] if ':' in op else ''),
                                  {'history': ops[:i + 1], 'introspection': rec[3], 'baseline': base_intro}))
                    break
            # 2. every probe equals the same probe on a fresh transformer with only the model state
            if any(r[0] != '0' for r in recs[:len(h)]):
                counts['nontrivial'] += 1
            for j, probe in enumerate(probes):
                got = recs[len(h) + j][:3]
                exp, expout = reference(m, probe)
                counts['probe_comparisons'] += 1
                if got != exp:
                    kind = 'status' if got[0] != exp[0] else ('error-text' if got[1] != exp[1] else 'output')
                    viols.append(('probe-differs|%s|%s|after %s' % (probe, kind, ' ; '.join(h)),
                                  {'history': h, 'probes_before': probes[:j], 'probe': probe, 'reused': got, 'fresh': exp,
                                   'fresh_setup': m.setup_ops(), 'fresh_output': expout[:1500]}))
                    break
            if len(samples) < 3 and idx % 2003 == shard:
                samples.append(' ; '.join(ops))
    drv.close()
    return {'counts': counts, 'viols': viols, 'samples': samples, 'states': list(states), 'outcomes': list(outcome_kinds)}


def replay(path_):
    rec = json.load(open(path_))
    d = rec['detail']
    drv = Driver(99)
    ops = d['history'] + d.get('probes_before', []) + ([d['probe']] if 'probe' in d else [])
    print('reused:', drv.run(ops))
    if 'fresh_setup' in d:
        print('fresh :', drv.run(d['fresh_setup'] + [d['probe']]))
    drv.close()


def main():
    tier, rp = vlib.tier_from_argv()
    if rp:
        return replay(rp)
    t0 = time.time()
    res = vlib.run_sharded(shard_main, (tier,))
    counts = vlib.merge_counts([r['counts'] for r in res])
    states = set()
    outcomes = set()
    for r in res:
        states.update(tuple(map(lambda x: x if not isinstance(x, list) else json.dumps(x), s)) for s in r['states'])
        outcomes.update(tuple(o) for o in r['outcomes'])
    best = {}
    for r in res:
        for sig, det in r['viols']:
            if sig not in best or len(json.dumps(det)) < len(json.dumps(best[sig])):
                best[sig] = det
    viols = [vlib.Violation(sig, det) for sig, det in best.items()]
    cov = {
        'states': len(states),
        'transitions': counts['transitions'],
        'traces_validated_against_impl': counts['histories'],
        'samples': [x for r in res for x in r['samples']][:5] or ['none'],
        'evaluations': counts['probe_comparisons'],
        'distinct_nontrivial': counts['nontrivial'],
        'rule': 'ALL histories of length 1..3 (quick) / 1..4 (thorough) over a %d-operation alphabet on one XalanTransformer: compile (ok / '
                'error), parseSource (native / Xerces / ill-formed), transform from input sources with stylesheets that succeed, terminate '
                'through xsl:message deep inside for-each + call-template with a pending element, attributes, an RTF under construction and '
                'a sort in progress, fail at run time (unknown key), fail in the serializer (name not encodable), use an unknown encoding, a '
                'missing document(), html output, an ill-formed source, a stylesheet that does not compile; transform with compiled/parsed '
                'handles; set/clear parameters; destroy handles; setIndent/setOutputEncoding; install/uninstall an extension function. '
                'Each history is replayed on a brand-new transformer, followed by up to 7 probe transformations; every probe (status, error '
                'text present, output) must equal the same probe on a fresh transformer given only the model state. After every operation '
                'the sizes of 20 stacks/tables of the persistent execution context are compared with their post-construction values. '
                'states = distinct (model state, introspection vector) pairs reached; non-trivial = a history containing a failing operation.'
                % len(OPS),
        'histories': counts['histories'], 'probe_comparisons': counts['probe_comparisons'], 'max_depth': 3 if tier == 'quick' else 4,
        'operation_outcomes_seen': sorted('%s:%s' % (o[0], 'ok' if o[1] else 'fail') for o in outcomes),
        'exhaustive': True,
    }
    vlib.finish(PROP, tier, 'model_checking', cov, viols, t0,
                assumptions=['the model: parameters, indent, output encoding, installed functions and live handles persist; nothing else does'])


if __name__ == '__main__':
    main()
