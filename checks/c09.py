#!/usr/bin/env python3
"""C09: a node matches a pattern iff the pattern, evaluated as an expression from some ancestor-or-self, selects it.
API level (XPath::getMatchScore on every node) and in situ (template match, xsl:key match, xsl:number count)."""
import os, sys, time, itertools, json
sys.path.insert(0, os.path.join(os.path.dirname(os.path.abspath(__file__)), '..', 'lib'))
import vlib, refdoc as R, refxpath as X, xpgen as G
from refxpath import num, s, fn, b, step, path, name, NODE, TEXTT, WILD, DOS

PROP = 'C09'

# a pattern is (head, [(join, axisform, test, preds), ...]); head in None '/' '//' ('id', v) ('key', k, v)
# join of the first step is ignored; axisform in 'c' (abbreviated child) 'child::' '@' 'attribute::'


def pat_text(p):
    if p[0] == 'union':
        return pat_text(p[1]) + '|' + pat_text(p[2])
    head, steps = p
    out = []
    if head == '/':
        out.append('/')
    elif head == '//':
        out.append('//')
    elif isinstance(head, tuple) and head[0] == 'id':
        out.append("id('%s')" % head[1])
    elif isinstance(head, tuple) and head[0] == 'key':
        out.append("key('%s', '%s')" % (head[1], head[2]))
    for i, (join, af, test, preds) in enumerate(steps):
        if i > 0 or isinstance(head, tuple):
            out.append(join)
        out.append({'c': '', 'child::': 'child::', '@': '@', 'attribute::': 'attribute::'}[af] + X.print_test(test))
        for pr in preds:
            out.append('[' + X.to_text(pr) + ']')
    return ''.join(out)


def pat_ast(p):
    if p[0] == 'union':
        return b('|', pat_ast(p[1]), pat_ast(p[2]))
    head, steps = p
    st = []
    for i, (join, af, test, preds) in enumerate(steps):
        if join == '//' and (i > 0 or isinstance(head, tuple)):
            st.append(DOS)
        st.append(step('attribute' if af in ('@', 'attribute::') else 'child', test, *preds))
    if head is None:
        return ('path', None, st)
    if head == '/':
        return ('path', 'root', st)
    if head == '//':
        return ('path', 'root', [DOS] + st)
    if head[0] == 'id':
        e = fn('id', s(head[1]))
    else:
        e = fn('key', s(head[1]), s(head[2]))
    return ('path', e, st) if st else e


def last_steps(full):
    forms = ['c', 'child::', '@', 'attribute::'] if full else ['c', '@']
    for af in forms:
        for t in G.node_tests(True):
            for pr in G.predicates(True):
                yield (af, t, pr)


def first_steps():
    for t in G.node_tests(False):
        for pr in G.predicates(False):
            yield ('c', t, pr)


def gen_patterns(tier, with_key=False):
    thorough = tier == 'thorough'
    heads = [None, '/', '//', ('id', 'i1'), ('id', 'i3')]
    if with_key:
        heads = [('key', 'k', 'v')]
    lasts = list(last_steps(True))
    firsts = list(first_steps())
    # one step
    for h in heads:
        if isinstance(h, tuple):
            yield ('head-only', (h, []))
        for (af, t, pr) in lasts:
            for j in ('/', '//'):
                if not isinstance(h, tuple) and j == '//':
                    continue
                yield ('1step', (h, [(j, af, t, pr)]))
    yield ('root', ('/', []))
    # two steps
    lasts2 = lasts if thorough else list(last_steps(False))
    for h in heads:
        for (af1, t1, p1) in firsts:
            for j in ('/', '//'):
                for (af, t, pr) in lasts2:
                    yield ('2step', (h, [('/', af1, t1, p1), (j, af, t, pr)]))
    # three steps (reduced)
    if thorough:
        mid = [x for x in firsts]
        last3 = [(af, t, pr) for af in ('c', '@') for t in G.node_tests(False) for pr in G.predicates(False)]
        for h in heads[:3]:
            for (af1, t1, p1) in firsts:
                for j1 in ('/', '//'):
                    for (af2, t2, p2) in mid:
                        for j2 in ('/', '//'):
                            for (af, t, pr) in last3:
                                yield ('3step', (h, [('/', af1, t1, p1), (j1, af2, t2, p2), (j2, af, t, pr)]))


def union_alternatives():
    alts = []
    for h in (None, '/', '//'):
        for (af, t, pr) in [('c', name('a'), []), ('c', name('b'), [num(1)]), ('c', WILD, []), ('@', name('x'), []), ('c', TEXTT, []),
                            ('c', NODE, []), ('@', WILD, []), ('c', name('a', 'p'), []), ('c', name('a'), [fn('last')]),
                            ('c', ('type', 'comment'), [])]:
            alts.append((h, [('/', af, t, pr)]))
    return alts


def expected_matches(ast, doc, keyfn=None):
    """Union over every node A of eval(P, A): exactly the nodes that have an ancestor-or-self selecting them."""
    out = set()
    for A in doc.nodes:
        if A.kind == R.NS:
            continue
        try:
            v = X.evaluate(ast, X.Ctx(A, ns=G.NSMAP, keys=keyfn))
        except X.XPathError:
            return None
        for n in v:
            out.add(doc.path(n))
    return out


def shard_main(shard, nshards, tier):
    docs = G.docs()
    w = vlib.Worker('xdrv', stderr_path=os.path.join(vlib.BUILD, 'tmp', 'c09.%d.err' % shard))
    nsargs = ['%s=%s' % kv for kv in sorted(G.NSMAP.items())]
    for i, d in enumerate(docs):
        r = w.request('doc', 'd%d' % i, 'st', d.to_xml())
        assert r[0] == 'ok', r
    counts = {'evaluations': 0, 'patterns': 0, 'nontrivial': 0, 'lib_expr_agrees_with_reference': 0, 'lib_expr_disagrees_with_reference': 0}
    viols = []
    samples = []

    def cases():
        for fam, p in gen_patterns(tier):
            yield fam, pat_text(p), pat_ast(p)
        alts = union_alternatives()
        for a1 in alts:
            for a2 in alts:
                yield 'union', pat_text(a1) + ' | ' + pat_text(a2), b('|', pat_ast(a1), pat_ast(a2))

    for idx, (fam, text, ast) in enumerate(cases()):
        if idx % nshards != shard:
            continue
        counts['patterns'] += 1
        nontriv = False
        for di, d in enumerate(docs):
            if fam == '3step' and di not in (0, 1):
                continue
            exp = expected_matches(ast, d)
            try:
                r = w.request('match', 'd%d' % di, text, *nsargs)
            except vlib.WorkerDied as wd:
                viols.append(('%s|fatal|%s' % (fam, text), {'pattern': text, 'doc': d.name, 'xml': d.to_xml(), 'stderr': wd.stderr_tail[-1500:]}))
                for j, dd in enumerate(docs):
                    w.request('doc', 'd%d' % j, 'st', dd.to_xml())
                break
            counts['evaluations'] += len(d.nodes)
            if r[0] != 'ok':
                got = None
            else:
                got = set(r[1].split()) if len(r) > 1 and r[1] else set()
                got = set(x for x in got if '/@xmlns' not in x)     # namespace declarations are not nodes a pattern is ever asked about
            if exp:
                nontriv = True
            if got != exp:
                if got is None:
                    kind = 'unexpected-error'
                elif exp is None:
                    kind = 'accepted-invalid'
                else:
                    extra, missing = got - exp, exp - got
                    kind = 'matches-too-much' if extra and not missing else ('matches-too-little' if missing and not extra else 'matches-differently')
                viols.append(('%s|%s|%s' % (fam, kind, text),
                              {'pattern': text, 'doc': d.name, 'xml': d.to_xml(), 'expected': sorted(exp) if exp is not None else None,
                               'got': sorted(got) if got is not None else r}))
                break
            # cross-check: the library's own evaluation of P as an expression (three-way agreement, informational)
            if fam in ('1step', 'root', 'union') and di == 0:
                rr = w.request('xpall', 'd%d' % di, text, *nsargs)
                if rr[0] == 'ok':
                    u = set()
                    for f in rr[1:]:
                        if f.startswith('ns\x1f'):
                            u.update(f[3:].split())
                    u = set(x for x in u if '/@xmlns' not in x)
                    counts['lib_expr_agrees_with_reference' if u == exp else 'lib_expr_disagrees_with_reference'] += 1
        if nontriv:
            counts['nontrivial'] += 1
        if len(samples) < 3 and idx % 4999 == shard:
            samples.append('%s: %s' % (fam, text))
    w.close()
    return {'counts': counts, 'viols': viols, 'samples': samples}


# ---------------------------------------------------------------------------------------------
# in situ: template match / xsl:key match / xsl:number count, batched in generated stylesheets

XSL = 'http://www.w3.org/1999/XSL/Transform'

WALK = '''<xsl:template name="walk"><xsl:param name="p"/><xsl:param name="m"/>
<n p="{$p}"><xsl:call-template name="probe"/></n>
<xsl:for-each select="@*"><n p="{$p}/@{name()}"><xsl:call-template name="probe"/></n></xsl:for-each>
<xsl:for-each select="node()"><xsl:call-template name="walk"><xsl:with-param name="p" select="concat($p,'/',position()-1)"/></xsl:call-template></xsl:for-each>
</xsl:template>
<xsl:template match="/"><out><xsl:call-template name="walk"><xsl:with-param name="p" select="''"/></xsl:call-template>%s</out></xsl:template>
<xsl:template name="path"><xsl:choose><xsl:when test="not(..)">/</xsl:when>
<xsl:when test="count(.|../@*)=count(../@*)"><xsl:for-each select=".."><xsl:call-template name="path1"/></xsl:for-each>/@<xsl:value-of select="name()"/></xsl:when>
<xsl:otherwise><xsl:call-template name="path1"/></xsl:otherwise></xsl:choose></xsl:template>
<xsl:template name="path1"><xsl:if test=".."><xsl:for-each select=".."><xsl:call-template name="path1"/></xsl:for-each>/<xsl:value-of select="count(preceding-sibling::node())"/></xsl:if></xsl:template>
'''


def esc_attr(t):
    return t.replace('&', '&amp;').replace('<', '&lt;').replace('"', '&quot;')


def insitu_stylesheet(batch, rtf=False):
    """batch: list of pattern texts. Template rule i in mode m<i>; key k<i>; number instruction i."""
    parts = ['<xsl:stylesheet version="1.0" xmlns:xsl="%s" xmlns:p="u1" xmlns:q="u2" xmlns:xalan="http://xml.apache.org/xalan" exclude-result-prefixes="xalan">' % XSL,
             # the key indexes every kind of node a pattern can match, so that key() heads are tried on all of them
             '<xsl:key name="k" match="*[@x]|text()|comment()|processing-instruction()|@y" use="\'v\'"/>']
    probe = ['<xsl:template name="probe">']
    keys_out = []
    for i, t in enumerate(batch):
        parts.append('<xsl:template match="%s" mode="m%d" priority="9"><t i="%d"/></xsl:template>' % (esc_attr(t), i, i))
        parts.append('<xsl:template match="node()|@*|/" mode="m%d" priority="-9"/>' % i)
        if 'key(' not in t:     # key() is not allowed inside xsl:key match
            parts.append('<xsl:key name="k%d" match="%s" use="\'k\'"/>' % (i, esc_attr(t)))
        probe.append('<xsl:apply-templates select="." mode="m%d"/>' % i)
        probe.append('<c i="%d"><xsl:number level="multiple" count="%s" format="1."/></c>' % (i, esc_attr(t)))
        if 'key(' not in t:
            keys_out.append('<k i="%d"><xsl:for-each select="key(\'k%d\',\'k\')"><h><xsl:call-template name="path"/></h></xsl:for-each></k>' % (i, i))
    probe.append('</xsl:template>')
    walk = WALK % ''.join(keys_out)
    if rtf:
        # the same walk over a copy of the document held in a result tree fragment (patterns must match nodes of such trees alike)
        root_old = '<xsl:template match="/"><out><xsl:call-template name="walk"><xsl:with-param name="p" select="\'\'"/></xsl:call-template>%s</out></xsl:template>' % ''.join(keys_out)
        assert root_old in walk
        root_new = ('<xsl:variable name="rt"><xsl:copy-of select="/node()"/></xsl:variable><xsl:template match="/"><out><xsl:for-each select="xalan:nodeset($rt)">'
                    '<xsl:call-template name="walk"><xsl:with-param name="p" select="\'\'"/></xsl:call-template>%s</xsl:for-each></out></xsl:template>' % ''.join(keys_out))
        walk = walk.replace(root_old, root_new)
    return ''.join(parts) + ''.join(probe) + walk + '</xsl:stylesheet>'


def ref_number_multiple(node, M, doc):
    """xsl:number level=multiple count=P: for each ancestor-or-self in M (document order) 1 + preceding siblings in M."""
    chain = [a for a in ([node] + list(node.ancestors()))][::-1]
    out = []
    for a in chain:
        if doc.path(a) in M:
            if a.kind in (R.ATTR, R.NS) or a.parent is None:
                out.append(1)
                continue
            sib = a.parent.children
            i = next(j for j, c in enumerate(sib) if c is a)
            out.append(1 + sum(1 for sn in sib[:i] if doc.path(sn) in M))
    return ''.join('%d.' % k for k in out)


def key_fn_factory(doc):
    def keyfn(kname, val, ctx):
        v = X.to_str(val) if not isinstance(val, X.NodeSet) else None
        out = []
        if kname == 'k':
            for n in doc.nodes:
                if v != 'v':
                    continue
                if (n.kind == R.ELEM and any(a.local == 'x' and not a.prefix for a in n.attrs)) or n.kind in (R.TEXT, R.COMMENT, R.PI) \
                        or (n.kind == R.ATTR and n.local == 'y' and not n.prefix):
                    out.append(n)
        return X.doc_sorted(out)
    return keyfn


def insitu_patterns(tier):
    thorough = tier == 'thorough'
    pats = []
    for fam, p in gen_patterns('quick'):
        if fam in ('1step', 'root', 'head-only'):
            pats.append((fam, p))
        elif fam == '2step' and (thorough or p[1][1][3] in ([], [num(1)], [fn('last')])):
            pats.append((fam, p))
    for fam, p in gen_patterns('quick', with_key=True):
        if fam in ('1step', 'head-only') or (fam == '2step' and p[1][1][3] in ([], [num(1)])):
            pats.append(('key-' + fam, p))
    # unions: every ORDERED pair of alternatives of different target kinds (template rules are filed per alternative by the kind
    # and name of its last step)
    A = name('a')
    alts = [(None, [('', 'c', A, [])]), (None, [('', 'c', WILD, [])]), (None, [('', 'c', name('a', 'p'), [])]), (None, [('', '@', name('x'), [])]),
            (None, [('', '@', WILD, [])]), (None, [('', 'c', TEXTT, [])]), (None, [('', 'c', X.COMMENTT, [])]), (None, [('', 'c', X.PIT, [])]),
            (None, [('', 'c', NODE, [])]), ('/', []), (('id', 'i1'), []), (None, [('', 'c', A, []), ('/', 'c', name('b'), [])]),
            (None, [('', 'c', name('b'), [[num(1)]][0])]), ('//', [('', '@', name('x'), [])])]
    for p1 in alts:
        for p2 in alts:
            if p1 is not p2:
                pats.append(('union', ('union', p1, p2)))
    return pats


def insitu_shard(shard, nshards, tier):
    thorough = tier == 'thorough'
    docs = G.docs()
    use_docs = [0, 1, 4]
    w = vlib.Worker('xdrv', stderr_path=os.path.join(vlib.BUILD, 'tmp', 'c09i.%d.err' % shard))
    pats = insitu_patterns(tier)
    B = 60
    batches = [pats[i:i + B] for i in range(0, len(pats), B)]
    counts = {'insitu_transformations': 0, 'insitu_observations': 0, 'insitu_patterns': 0}
    viols = []

    def run_batch(batch, di, rtf=False):
        d = docs[di]
        texts = [pat_text(p) for _, p in batch]
        xsl = insitu_stylesheet(texts, rtf)
        r = w.request('tr', xsl, d.to_xml())
        counts['insitu_transformations'] += 1
        if r[0] != '0':
            return None, r
        out = R.parse_xml(r[2])
        tmpl = [set() for _ in batch]
        numb = [dict() for _ in batch]
        keys = [set() for _ in batch]
        for n in out.docel.children:
            if n.kind != R.ELEM:
                continue
            if n.local == 'n':
                pth = [a.value for a in n.attrs if a.local == 'p'][0] or '/'
                for c in n.children:
                    if c.kind == R.ELEM and c.local == 't':
                        tmpl[int(c.attrs[0].value)].add(pth)
                    elif c.kind == R.ELEM and c.local == 'c':
                        numb[int(c.attrs[0].value)][pth] = c.string_value()
            elif n.local == 'k':
                i = int(n.attrs[0].value)
                for h in n.children:
                    keys[i].add(h.string_value())
        return (tmpl, numb, keys), r

    def check(batch, di, rtf=False):
        d = docs[di]
        tag = 'rtf-' if rtf else ''
        res, raw = run_batch(batch, di, rtf)
        if res is None:
            if len(batch) == 1:
                fam, p = batch[0]
                exp = expected_matches(pat_ast(p), d, key_fn_factory(d))
                if exp is not None:
                    viols.append(('insitu-%s%s|unexpected-error|%s' % (tag, fam, pat_text(p)), {'pattern': pat_text(p), 'doc': d.name, 'reply': raw[:2]}))
                return
            mid = len(batch) // 2
            check(batch[:mid], di, rtf)
            check(batch[mid:], di, rtf)
            return
        tmpl, numb, keys = res
        for i, (fam, p) in enumerate(batch):
            text = pat_text(p)
            exp = expected_matches(pat_ast(p), d, key_fn_factory(d))
            if exp is None:
                continue
            counts['insitu_observations'] += 3
            def kind_of(got, exp):
                extra, missing = got - exp, exp - got
                return 'matches-too-much' if extra and not missing else ('matches-too-little' if missing and not extra else 'matches-differently')
            if tmpl[i] != exp:
                viols.append(('insitu-%stemplate-%s|%s|%s' % (tag, fam, kind_of(tmpl[i], exp), text),
                              {'pattern': text, 'doc': d.name, 'xml': d.to_xml(), 'expected': sorted(exp), 'got': sorted(tmpl[i])}))
                continue
            # xsl:key never holds the root node or namespace nodes? (XSLT: key match applies to every node of the document) -- compare as is
            if 'key(' not in text and keys[i] != exp:
                viols.append(('insitu-%skey-%s|%s|%s' % (tag, fam, kind_of(keys[i], exp), text),
                              {'pattern': text, 'doc': d.name, 'xml': d.to_xml(), 'expected': sorted(exp), 'got': sorted(keys[i])}))
                continue
            for n in d.nodes:
                if n.kind == R.NS:
                    continue
                pth = d.path(n)
                e = ref_number_multiple(n, exp, d)
                g = numb[i].get(pth, None)
                if g != e:
                    viols.append(('insitu-%snumber-%s|%s|%s' % (tag, fam, 'differs', text),
                                  {'pattern': text, 'doc': d.name, 'xml': d.to_xml(), 'node': pth, 'expected': e, 'got': g}))
                    break

    for bi, batch in enumerate(batches):
        if bi % nshards != shard:
            continue
        counts['insitu_patterns'] += len(batch)
        for di in use_docs:
            try:
                check(batch, di)
            except vlib.WorkerDied as wd:
                viols.append(('insitu|fatal|batch %d' % bi, {'patterns': [pat_text(p) for _, p in batch][:5], 'stderr': wd.stderr_tail[-1500:]}))
        # the same patterns against a copy of the document held in a result tree fragment (no ID attributes there: id() heads left out)
        rb = [(fam, p) for fam, p in batch if 'id(' not in pat_text(p)]
        if rb and (thorough or bi % 3 == 0):
            try:
                check(rb, use_docs[0], True)
            except vlib.WorkerDied as wd:
                viols.append(('insitu-rtf|fatal|batch %d' % bi, {'patterns': [pat_text(p) for _, p in rb][:5], 'stderr': wd.stderr_tail[-1500:]}))
    w.close()
    return {'counts': counts, 'viols': viols, 'samples': []}


def replay(path_):
    rec = json.load(open(path_))
    det = rec['detail']
    w = vlib.Worker('xdrv')
    print(w.request('doc', 'd', 'st', det['xml']))
    print('match ->', w.request('match', 'd', det['pattern'], *['%s=%s' % kv for kv in sorted(G.NSMAP.items())]))
    print('expected', det.get('expected'))
    w.close()


def main():
    tier, rp = vlib.tier_from_argv()
    if rp:
        return replay(rp)
    t0 = time.time()
    res = vlib.run_sharded(shard_main, (tier,))
    res2 = vlib.run_sharded(insitu_shard, (tier,))
    counts = vlib.merge_counts([r['counts'] for r in res + res2])
    viols = [vlib.Violation(sig, det) for r in res + res2 for sig, det in r['viols']]
    samples = [x for r in res for x in r['samples']][:8]
    cov = {
        'evaluations': counts['evaluations'] + counts['insitu_observations'],
        'distinct_nontrivial': counts['nontrivial'],
        'rule': 'Every pattern of the Pattern grammar with <=2 steps (heads: none, /, //, id()) x 4 axis forms x 10 node tests x 15 predicate '
                'lists on the last step, 20 first steps, both joins; 3 steps reduced (thorough); all ordered pairs of 30 alternatives as unions. '
                'For every pattern and EVERY node of each document XPath::getMatchScore != None is compared with membership in the union over '
                'all context nodes A of the reference evaluation of the pattern as an expression. In situ: the same patterns (plus key() heads over every node kind, 182 ordered unions of alternatives with different target kinds, and a third of the batches (thorough: all) again against a copy of the document held in a result tree fragment) '
                'as template match (own mode), xsl:key match and xsl:number count, 60 per generated stylesheet, bisected on failure. '
                'A case is a pattern text; non-trivial = it matches at least one node of some document.',
        'samples': samples or ['none'],
        'patterns': counts['patterns'], 'insitu_patterns': counts['insitu_patterns'], 'insitu_transformations': counts['insitu_transformations'],
        'lib_expr_agrees_with_reference': counts['lib_expr_agrees_with_reference'],
        'lib_expr_disagrees_with_reference': counts['lib_expr_disagrees_with_reference'],
        'exhaustive': True,
    }
    vlib.finish(PROP, tier, 'exploration', cov, viols, t0,
                assumptions=['lib/refxpath.py is the XPath 1.0 Recommendation', 'documents: lib/xpgen.py docs()'])


if __name__ == '__main__':
    main()
