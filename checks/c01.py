#!/usr/bin/env python3
"""C01: the transformation result equals the tree XSLT 1.0 defines. Generated stylesheet ASTs (every instruction form alone,
every ordered pair nested / in sequence, triples reduced) x small documents, against the reference interpreter lib/refxslt.py."""
import os, sys, time, json, itertools, zlib
sys.path.insert(0, os.path.join(os.path.dirname(os.path.abspath(__file__)), '..', 'lib'))
import vlib, refdoc as R, refxpath as X, refxslt as S
from refxpath import num, s, fn, b, step, path, name, NODE, TEXTT, WILD, DOS

PROP = 'C01'


def E(ast, text=None):
    return (ast, text if text is not None else X.to_text(ast))


A, Bn = name('a'), name('b')
SELF = path(step('self', NODE))
ATX = path(step('attribute', name('x')))
P_A = path(step('child', A))
P_B = path(step('child', Bn))
P_STAR = path(step('child', WILD))
P_ATTS = path(step('attribute', WILD))
P_TEXT = path(step('child', TEXTT))
P_AB = b('|', P_A, P_B)
P_DESC = path(step('descendant', WILD))
P_PARENT = path(step('parent', NODE))
pos = fn('position')
last = fn('last')


def fixed_templates():
    def pat(ast, alts=None):
        return (ast, X.to_text(ast), alts or [(ast, 0.0)])
    t = []
    t.append(dict(match=(('path', 'root', []), '/', [(('path', 'root', []), 0.5)]), body=[('lre', 'out', [], [('apply', E(path(step('child', name('r')))), '', [], [])])]))
    t.append(dict(match=pat(P_A), body=[('lre', 'A', [('n', [E(ATX)])], [('apply', None, '', [], [])])]))
    t.append(dict(match=pat(P_B), mode='m', params=[('p', ('select', E(s('d'))))], body=[('lre', 'B', [], [('valueof', E(('var', 'p'))), ('valueof', E(pos))])]))
    t.append(dict(match=pat(path(step('child', WILD)), [(path(step('child', WILD)), -0.5)]), mode='m', body=[('lre', 'M', [], [('valueof', E(fn('name')))])]))
    t.append(dict(match=pat(ATX), body=[('text', '[x='), ('valueof', E(SELF)), ('text', ']')]))
    VN, VACC, VD = ('var', 'n'), ('var', 'acc'), ('var', 'depth')
    # recursion by name: counts n down, accumulating a string; recursion by apply-templates: passes the depth down
    t.append(dict(name='rec', params=[('n', ('select', E(num(0)))), ('acc', ('select', E(s(''))))],
                  body=[('choose', [(E(b('>', VN, num(0))), [('call', 'rec', [('n', E(b('-', VN, num(1)))), ('acc', E(fn('concat', VACC, VN, s(','))))])])],
                         [('lre', 'R', [], [('valueof', E(VACC))])])]))
    t.append(dict(match=pat(path(step('child', WILD))), mode='d', params=[('depth', ('select', E(num(1))))],
                  body=[('lre', 'D', [('l', [E(VD)])], [('apply', E(P_STAR), 'd', [], [('depth', E(b('+', VD, num(1))))])])]))
    t.append(dict(name='t', params=[('p', ('select', E(s('D')))), ('q', None)], body=[('lre', 't', [], [('valueof', E(('var', 'p'))), ('text', ':'), ('valueof', E(fn('name'))), ('valueof', E(('var', 'q')))])]))
    return t


def leaf_forms(v='v'):
    L = []
    L.append(('text', [('text', 'T')]))
    for e in [SELF, ATX, fn('name'), fn('count', P_STAR), pos, fn('concat', s('['), SELF, s(']')), last, fn('count', fn('key', s('k'), ATX)), ('var', 'gv'),
              fn('string-length', SELF), fn('sum', path(DOS, step('child', name('b')), start='root'))]:
        L.append(('valueof ' + X.to_text(e), [('valueof', E(e))]))
    L.append(('copyof .', [('copyof', E(SELF))]))
    L.append(('copyof a', [('copyof', E(P_A))]))
    L.append(('copyof text', [('copyof', E(fn('concat', s('c'), ATX)))]))
    L.append(('apply', [('apply', None, '', [], [])]))
    L.append(('apply a|b', [('apply', E(P_AB), '', [], [])]))
    L.append(('apply * m', [('apply', E(P_STAR), 'm', [], [])]))
    L.append(('apply @x', [('apply', E(ATX), '', [], [])]))
    L.append(('apply sort', [('apply', E(P_STAR), 'm', [(E(ATX), 'number', True)], [])]))
    L.append(('apply sort2', [('apply', E(P_STAR), 'm', [(E(fn('name')), 'text', True), (E(ATX), 'number', False)], [])]))
    L.append(('apply param', [('apply', E(P_B), 'm', [], [('p', E(fn('concat', s('P'), ATX)))])]))
    L.append(('apply text()', [('apply', E(P_TEXT), '', [], [])]))
    L.append(('call', [('call', 't', [])]))
    L.append(('call param', [('call', 't', [('p', E(pos)), ('q', E(s('Q')))])]))
    L.append(('call rec', [('call', 'rec', [('n', E(fn('count', P_STAR))), ('acc', E(s('#')))])]))
    L.append(('apply depth', [('apply', E(P_STAR), 'd', [], [])]))
    L.append(('foreach var scope', [('foreach', E(P_STAR), [], [('variable', v + 'f', ('select', E(pos))), ('valueof', E(('var', v + 'f')))]),
                                    ('foreach', E(P_AB), [], [('variable', v + 'f', ('select', E(fn('name')))), ('valueof', E(('var', v + 'f')))])]))
    L.append(('number single', [('number', 'single', None)]))
    L.append(('number any', [('number', 'any', E(P_AB))]))
    L.append(('number multiple', [('number', 'multiple', E(b('|', P_AB, path(step('child', name('r'))))))]))
    L.append(('comment', [('comment', [('text', 'c'), ('valueof', E(ATX))])]))
    L.append(('pi', [('pi', 'pt', [('valueof', E(fn('name')))])]))
    L.append(('var select', [('variable', v, ('select', E(P_STAR))), ('valueof', E(fn('count', ('var', v))))]))
    L.append(('var rtf', [('variable', v, ('body', [('lre', 'x', [], [('valueof', E(ATX))]), ('text', 'y')])), ('copyof', E(('var', v))), ('valueof', E(('var', v)))]))
    L.append(('var rtf nodeset', [('variable', v, ('body', [('lre', 'x', [], []), ('lre', 'x', [], [])])), ('valueof', E(fn('count', path(step('child', name('x')), start=fn('xalan:nodeset', ('var', v))))))]))
    L.append(('message', [('message', [('text', 'm')])]))
    return L


def container_forms(wn='w'):
    C = []
    C.append(('lre', lambda B: [('lre', 'e', [('a', ['p', E(ATX), 's'])], B)]))
    C.append(('element', lambda B: [('element', [E(fn('concat', s('n'), fn('name')))], B)]))
    C.append(('lre+attribute', lambda B: [('lre', 'e', [], [('attribute', 'k', [('valueof', E(pos))])] + B)]))
    C.append(('lre+copy-atts', lambda B: [('lre', 'e', [('x', 'old')], [('copyof', E(P_ATTS))] + B)]))
    C.append(('lre+foreach-att-copy', lambda B: [('lre', 'e', [], [('foreach', E(P_ATTS), [], [('copy', [])])] + B)]))
    C.append(('if @x', lambda B: [('if', E(ATX), B)]))
    C.append(('if pos', lambda B: [('if', E(b('=', pos, num(1))), B)]))
    C.append(('if false', lambda B: [('if', E(fn('false')), B)]))
    C.append(('choose when', lambda B: [('choose', [(E(fn('not', P_STAR)), [('text', 'leaf')]), (E(ATX), B)], [('text', 'o')])]))
    C.append(('choose otherwise', lambda B: [('choose', [(E(b('>', fn('count', P_STAR), num(1))), [('text', 'many')])], B)]))
    C.append(('foreach *', lambda B: [('foreach', E(P_STAR), [], B)]))
    C.append(('foreach a', lambda B: [('foreach', E(P_A), [], B)]))
    C.append(('foreach text', lambda B: [('foreach', E(P_TEXT), [], B)]))
    C.append(('foreach ..', lambda B: [('foreach', E(P_PARENT), [], B)]))
    C.append(('foreach desc sorted', lambda B: [('foreach', E(P_DESC), [(E(ATX), 'number', False), (E(fn('name')), 'text', True)], B)]))
    C.append(('foreach desc sorted name desc, @x asc', lambda B: [('foreach', E(P_DESC), [(E(fn('name')), 'text', True), (E(ATX), 'number', False), (E(SELF), 'text', True)], B)]))
    C.append(('foreach a|b sorted desc', lambda B: [('foreach', E(P_AB), [(E(fn('name')), 'text', True)], B)]))
    C.append(('copy', lambda B: [('copy', B)]))
    C.append(('var rtf body', lambda B: [('variable', wn, ('body', B)), ('lre', 'w', [], [('copyof', E(('var', wn)))]), ('valueof', E(fn('string-length', ('var', wn))))]))
    return C


def programs(tier):
    """yields (description, body of the template match="r")"""
    L = leaf_forms()
    L2 = leaf_forms('v2')       # a second binding in the same scope needs another name (shadowing is an error in XSLT 1.0)
    C = container_forms()
    C2 = container_forms('w2')
    thorough = tier == 'thorough'
    for dn, body in L:
        yield dn, body
    for cn, mk in C:
        yield cn + '[]', mk([])
        for dn, body in L:
            yield '%s[%s]' % (cn, dn), mk(body)
        for cn2, mk2 in C2:
            yield '%s[%s[]]' % (cn, cn2), mk(mk2([('text', 'T')]))
            if thorough:
                for dn, body in L:
                    yield '%s[%s[%s]]' % (cn, cn2, dn), mk(mk2(body))
            else:
                for dn, body in L[::4]:
                    yield '%s[%s[%s]]' % (cn, cn2, dn), mk(mk2(body))
    for (d1, b1), (d2, b2) in itertools.product(L, L2):
        if thorough or (zlib.crc32((d1 + d2).encode()) % 3 == 0):      # a fixed third (not Python's per-process string hash)
            yield '%s ; %s' % (d1, d2), b1 + b2


def docs(tier):
    El, T = R.E, R.T
    D = []
    D.append(R.make_doc([El('r', [('x', '1')], [El('a', [('x', '2')], ['t', El('b', [('x', '5')], ['1'])]), El('b', [('x', '3')], ['2']), El('a', None, ['u']), 'v'])], name='X1'))
    D.append(R.make_doc([El('r', None, [])], name='X2'))
    D.append(R.make_doc([El('r', [('x', '9'), ('y', 'z')], ['only text'])], name='X3'))
    D.append(R.make_doc([El('r', None, [El('b', [('x', '10')]), El('b', [('x', '2')]), El('a', [('x', '2')], [El('a', [('x', '1')], [El('b', None, ['3'])])])])], name='X4'))
    D.append(R.make_doc([R.C('c'), El('r', [('x', '1')], [R.C('in'), El('a'), R.P('pi', 'd'), El('b', [('x', 'q')], [' '])])], name='X5'))
    if tier == 'thorough':
        for tr in list(R.element_trees(3))[1::3]:
            D.append(R.make_doc([tr], name='G%d' % len(D)))
    else:
        for tr in list(R.element_trees(2))[1:]:
            D.append(R.make_doc([tr], name='G%d' % len(D)))
    return D


def make_sheet(body):
    P_R = path(step('child', name('r')))
    tmpl = fixed_templates()
    tmpl.append(dict(match=(P_R, 'r', [(P_R, 0.0)]), body=body))
    return {'templates': tmpl, 'keys': [('k', path(step('child', WILD)), '*', ATX, '@x')],
            'globals': [('gv', ('select', E(fn('count', path(DOS, step('child', WILD), start='root')))))]}


def structure_programs(tier):
    """whole stylesheets: where global variables/params are declared (main module, one import, two sibling imports, an import chain)
    x how the rules for a and b declare a parameter x how the rule for r passes parameters on (apply-templates with and without
    with-param, sorted, through built-in rules, call-template inside for-each, call followed by apply)"""
    P_R = path(step('child', name('r')))
    VP, VQ = ('var', 'p'), ('var', 'q')
    ROOT = ('path', 'root', [])

    def pat(ast, prio=0.0):
        return (ast, X.to_text(ast), [(ast, prio)])

    def g(n, v, kind='variable'):
        return (n, ('select', E(s(v))), kind)
    GL = [
        ('no-global', [], []),
        ('main-variable', [g('p', 'gm')], []),
        ('main-param', [g('p', 'gm', 'param')], []),
        ('one-import', [], [dict(href='i1.xsl', globals=[g('p', 'g1')])]),
        ('two-sibling-imports', [], [dict(href='i1.xsl', globals=[g('p', 'g1')]), dict(href='i2.xsl', globals=[g('p', 'g2')])]),
        ('two-sibling-imports-reversed-names', [], [dict(href='i1.xsl', globals=[g('p', 'g1'), g('q', 'q1')]), dict(href='i2.xsl', globals=[g('q', 'q2')])]),
        ('import-chain', [], [dict(href='i1.xsl', globals=[g('p', 'g1')], imports=[dict(href='i3.xsl', globals=[g('p', 'g3'), g('q', 'q3')])])]),
        ('main-over-import', [g('p', 'gm')], [dict(href='i1.xsl', globals=[g('p', 'g1'), g('q', 'q1')])]),
    ]
    A_FORMS = [('a-no-param', []), ('a-param-default', [('p', ('select', E(s('da'))))]), ('a-param-no-default', [('p', None)])]
    B_FORMS = [('b-no-param', [], False), ('b-param-default', [('p', ('select', E(s('db'))))], False), ('b-param-in-import', [('p', ('select', E(s('dbi'))))], True)]
    WP = [('p', E(s('W')))]
    APPLY = [
        ('apply-with-param', [('apply', E(P_STAR), '', [], WP)]),
        ('apply-plain', [('apply', E(P_STAR), '', [], [])]),
        ('apply-sorted-with-param', [('apply', E(P_DESC), '', [(E(fn('name')), 'text', True)], WP)]),
        ('apply-two-params', [('apply', E(P_STAR), '', [], WP + [('zz', E(s('Z')))])]),
        ('foreach-call-with-param', [('foreach', E(P_STAR), [], [('call', 't', [('p', E(fn('name')))])])]),
        ('foreach-call-plain', [('foreach', E(P_STAR), [], [('call', 't', [])])]),
        ('call-then-apply', [('call', 't', WP), ('apply', E(P_STAR), '', [], [])]),
        ('apply-with-param-then-apply-plain', [('apply', E(P_STAR), '', [], WP), ('text', '|'), ('apply', E(P_STAR), '', [], [])]),
    ]
    for gn, gmain, gimports in GL:
        names = set()

        def collect(ms):
            for m in ms:
                for x in m.get('globals', []):
                    names.add(x[0])
                collect(m.get('imports', []))
        collect(gimports)
        names |= set(x[0] for x in gmain)
        show_p = [('valueof', E(VP))] if 'p' in names else [('text', 'np')]
        show_q = [('valueof', E(VQ))] if 'q' in names else []
        for an, aparams in A_FORMS:
            for bn, bparams, b_in_import in B_FORMS:
                for fn_, fbody in APPLY:
                    tmpl = [
                        dict(match=(ROOT, '/', [(ROOT, 0.5)]), body=[('lre', 'out', [], [('apply', E(P_R), '', [], [])])]),
                        dict(match=pat(P_R), body=fbody),
                        dict(match=pat(P_A), params=aparams, body=[('lre', 'A', [], ([('valueof', E(VP))] if aparams else show_p) + show_q + [('apply', None, '', [], [])])]),
                        dict(name='t', params=[('p', ('select', E(s('dt'))))], body=[('lre', 't', [], [('valueof', E(VP))] + show_q)]),
                    ]
                    tb = dict(match=pat(P_B), params=bparams, body=[('lre', 'B', [], ([('valueof', E(VP))] if bparams else show_p) + [('apply', None, '', [], [])])])
                    imports = [dict(m) for m in gimports]
                    if b_in_import:
                        if imports:
                            imports[0] = dict(imports[0], templates=[tb])
                        else:
                            imports = [dict(href='i9.xsl', templates=[tb])]
                    else:
                        tmpl.append(tb)
                    yield ('structure|%s|%s|%s|%s' % (gn, an, bn, fn_), {'templates': tmpl, 'globals': gmain, 'imports': imports})


def strip_programs():
    """xsl:strip-space elements="*" removes whitespace-only text from SOURCE trees only: whitespace the stylesheet itself writes into a
    result tree fragment (xsl:text) stays, however the fragment is used afterwards. The documents of this family hold no
    whitespace-only text, so stripping the source changes nothing and the reference needs no notion of it. Only core-language uses of
    the fragment are generated: what xalan:nodeset() delivers for such a fragment is not defined by the Recommendation (this processor
    applies the declarations lazily in its node tests and so also to the nodes of a converted fragment; see DESIGN.md section 8)."""
    V = ('var', 'v')
    frag = [('lre', 'x', [], [('text', ' ')]), ('lre', 'y', [], [('text', '\n'), ('lre', 'x', [], [('text', '\t ')]), ('text', 'k')]), ('text', ' ')]
    uses = [
        ('copy-of rtf', [('copyof', E(V))]),
        ('value-of rtf', [('valueof', E(fn('string-length', V)))]),
        ('value-of rtf text', [('lre', 'q', [('l', [E(fn('string-length', fn('translate', V, s('k'), s(''))))])], [('valueof', E(V))])]),
        ('copy-of rtf twice', [('copyof', E(V)), ('lre', 'sep', [], []), ('copyof', E(V))]),
        ('rtf passed to a rule', [('apply', E(P_STAR), 'sp', [], [('fr', E(V))])]),
        ('nested rtf', [('variable', 'v2', ('body', [('lre', 'z', [], [('copyof', E(V))])])), ('copyof', E(('var', 'v2')))]),
    ]
    for un, ub in uses:
        for cn, mk in [('direct', lambda b_: b_)] + [(c, m) for c, m in container_forms()[:6]]:
            body = [('variable', 'v', ('body', frag))] + mk(ub)
            sheet = make_sheet(body)
            sheet['strip'] = True
            sheet['templates'].append(dict(match=(P_STAR, '*', [(P_STAR, -0.5)]), mode='sp', params=[('fr', None)], body=[('lre', 'P', [], [('copyof', E(('var', 'fr')))])]))
            yield 'strip|%s|%s' % (cn, un), sheet


def strip_docs(tier):
    def has_ws(n):
        return any((c.kind == R.TEXT and c.value.strip(' \t\r\n') == '') or has_ws(c) for c in n.children)
    return [d for d in docs(tier) if not has_ws(d.root)][:6]


def structure_docs():
    El = R.E
    return [
        R.make_doc([El('r', None, [El('a'), El('b')])], name='S1'),
        R.make_doc([El('r', None, [El('b'), El('a')])], name='S2'),
        R.make_doc([El('r', None, [El('a'), El('b'), El('a'), El('b')])], name='S3'),
        R.make_doc([El('r', None, [El('w', None, [El('a'), El('b')]), El('b'), El('a')])], name='S4'),
        R.make_doc([El('r', None, [El('a', None, [El('b')]), El('b', None, [El('a')])])], name='S5'),
        R.make_doc([El('r', None, ['t', El('b', None, ['u']), El('a', None, [El('a')])])], name='S6'),
    ]


def shard_main(shard, nshards, tier):
    w = vlib.Worker('xdrv', stderr_path=os.path.join(vlib.BUILD, 'tmp', 'c01.%d.err' % shard))
    D = docs(tier)
    counts = {'evaluations': 0, 'programs': 0, 'nontrivial': 0, 'reference_errors': 0}
    viols = []
    samples = []
    SD = structure_docs()
    work = itertools.chain(((desc, make_sheet(body), D) for desc, body in programs(tier)),
                           ((desc, sheet, SD) for desc, sheet in structure_programs(tier)),
                           ((desc, sheet, strip_docs(tier)) for desc, sheet in strip_programs()))
    for idx, (desc, sheet, docs_) in enumerate(work):
        if idx % nshards != shard:
            continue
        counts['programs'] += 1
        xsl = S.sheet_text(sheet)
        res_args = ['r:%s=%s' % kv for kv in S.sheet_resources(sheet).items()]
        for d in docs_:
            try:
                ref = S.Interp(sheet, d).transform()
                exp = R.canon(ref)
            except (S.XSLTError, X.XPathError) as e:
                counts['reference_errors'] += 1
                continue
            try:
                r = w.request('tr', xsl, d.to_xml(), *res_args)
            except vlib.WorkerDied as wd:
                viols.append(('fatal|%s' % desc, {'xsl': xsl, 'xml': d.to_xml(), 'stderr': wd.stderr_tail[-1500:]}))
                break
            counts['evaluations'] += 1
            if r[0] != '0':
                viols.append(('transform-error|%s' % desc, {'xsl': xsl, 'xml': d.to_xml(), 'error': r[1][:300]}))
                break
            try:
                got = R.canon(R.parse_xml(r[2]).root)
            except Exception as e:
                viols.append(('unparsable-output|%s' % desc, {'xsl': xsl, 'xml': d.to_xml(), 'output': r[2][:600], 'error': str(e)}))
                break
            if len(ref.children) == 1 and ref.children[0].children:
                counts['nontrivial'] += 1
            if got != exp:
                viols.append(('wrong-result|%s' % desc, {'xsl': xsl, 'xml': d.to_xml(), 'doc': d.name, 'resources': res_args, 'expected': json.dumps(exp)[:1500], 'got': json.dumps(got)[:1500], 'output': r[2][:800]}))
                break
        if len(samples) < 3 and idx % 997 == shard:
            samples.append('%s on %d documents' % (desc, len(D)))
    w.close()
    return {'counts': counts, 'viols': viols, 'samples': samples}


def main():
    tier, rp = vlib.tier_from_argv()
    if rp:
        d = json.load(open(rp))['detail']
        w = vlib.Worker('xdrv')
        print(w.request('tr', d['xsl'], d['xml'], *d.get('resources', [])))
        print('expected', d.get('expected'))
        w.close()
        return
    t0 = time.time()
    res = vlib.run_sharded(shard_main, (tier,))
    counts = vlib.merge_counts([r['counts'] for r in res])
    viols = [vlib.Violation(sig, det) for r in res for sig, det in r['viols']]
    cov = {
        'evaluations': counts['evaluations'],
        'distinct_nontrivial': counts['nontrivial'],
        'rule': 'Programs: the body of one template rule built from 35 leaf forms (text, value-of x11, copy-of x3, apply-templates with select/mode/'
                'sort/with-param, call-template with and without params, xsl:number single/any/multiple, comment, PI, variables bound by select '
                'and by result tree fragment, xalan:nodeset, message) and 18 container forms (LRE with AVT, xsl:element with computed name, '
                'xsl:attribute, copied attributes, if x3, choose/when/otherwise, for-each over 6 selections with multi-key sort, copy, RTF '
                'variable body): every form alone, every container[leaf], every container[container[..]] (a quarter of the leaves inside in '
                'quick, all in thorough) and sequences leaf;leaf (a third in quick, all in thorough), inside a stylesheet with fixed template '
                'rules (modes, priorities, params, a named template, a key, a global variable, built-in rules) x 8+ documents. Oracle: the '
                'serialised result re-parsed (expat) must equal the tree produced by the reference interpreter lib/refxslt.py on the same '
                'AST: names, attributes as sets, merged text, comments, PIs, order. Non-trivial = the reference result has content. Family '
                '"structure": whole stylesheets = 8 placements of a global variable/param p (none, main module as variable or param, one import, '
                'two sibling imports, an import chain, main over import; a second global q) x 3 parameter declarations of the rule for a x 3 of '
                'the rule for b (none, with default, declared only in an imported module) x 8 ways the rule for r passes parameters on '
                '(apply-templates with/without with-param, sorted, two params, call-template inside for-each, call then apply, apply with then '
                'without) x 6 documents (a before b, b before a, repeated, through built-in rules, nested, with text).',
        'samples': [x for r in res for x in r['samples']][:5] or ['none'],
        'programs': counts['programs'], 'reference_errors': counts['reference_errors'],
        'exhaustive': True,
    }
    vlib.finish(PROP, tier, 'exploration', cov, viols, t0, assumptions=['lib/refxslt.py + lib/refxpath.py are the XSLT/XPath 1.0 Recommendations for the generated subset'])


if __name__ == '__main__':
    main()
