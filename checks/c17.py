#!/usr/bin/env python3
"""C17: xsl:number counts per XSLT 1.0 section 7.7, independent of evaluation history; formatting decodes back.
level x count x from x documents x every node; every visiting order (all permutations of node subsets, forward and reverse
document order) through ONE instruction; all integers 1..5000 x format tokens x grouping."""
import os, sys, time, json, itertools
sys.path.insert(0, os.path.join(os.path.dirname(os.path.abspath(__file__)), '..', 'lib'))
sys.path.insert(0, os.path.dirname(os.path.abspath(__file__)))
import vlib, refdoc as R, refxpath as X, xpgen as G, xpparse
from refxpath import num, s, fn, b, step, path, name, NODE, TEXTT, WILD, DOS

PROP = 'C17'
XSL = 'http://www.w3.org/1999/XSL/Transform'
A, Bn = name('a'), name('b')

COUNTS = [
    (None, None),
    ('a', path(step('child', A))),
    ('a|b', b('|', path(step('child', A)), path(step('child', Bn)))),
    ('*', path(step('child', WILD))),
    ('text()', path(step('child', TEXTT))),
    ('node()', path(step('child', NODE))),
    ('a[@x]', path(step('child', A, path(step('attribute', name('x')))))),
    ('p:a', path(step('child', name('a', 'p')))),
] + [(t, xpparse.parse_text(t)) for t in ('a[1]', '*[@x]', 'b|text()', 'comment()|processing-instruction()', 'a/a', 'a[b]', '@*', 'r/*')]
N_COUNT_Q = 8
FROMS = [
    (None, None),
    ('a', path(step('child', A))),
    ('b', path(step('child', Bn))),
    ('r', path(step('child', name('r')))),
    ('/', ('path', 'root', [])),
] + [(t, xpparse.parse_text(t)) for t in ('*', 'b|r', 'a[@x]', 'a/a', 'text()')]
N_FROM_Q = 5
LEVELS = ['single', 'multiple', 'any']


def docs():
    E = R.E
    out = [G.docs()[0], G.docs()[1], G.docs()[4]]
    out.append(R.make_doc([E('r', None, [
        E('a', None, [E('a', None, [E('b'), E('a', None, ['t'])]), E('b', None, [E('a')])]),
        E('b', None, [E('a'), 'u', E('a', [('x', '1')])]),
        E('p:a', None, [E('a')], ns=[('p', 'u1')]),
        E('a'),
    ])], name='N1'))
    # the same prefix bound to different namespaces in different subtrees (and the same namespace under two prefixes)
    out.append(R.make_doc([E('r', None, [
        E('p:a', None, [E('p:a'), E('p:b', [('p:x', '1')])], ns=[('p', 'u1')]),
        E('g', None, [E('p:a'), E('p:a', [('p:x', '2')], [E('p:a')]), E('p:b')], ns=[('p', 'u2')]),
        E('p:a', None, [E('q:a', None, [], ns=[('q', 'u1')])], ns=[('p', 'u1')]),
        E('g', None, [E('p:a', [('p:x', '3')])], ns=[('p', 'u2')]),
    ])], name='N2'))
    return out


def match_set(ast, doc):
    out = set()
    for Actx in doc.nodes:
        if Actx.kind == R.NS:
            continue
        for n in X.evaluate(ast, X.Ctx(Actx, ns=G.NSMAP)):
            out.add(id(n))
    return out


def default_count(node):
    def m(x):
        if x.kind != node.kind:
            return False
        if node.kind in (R.ELEM, R.ATTR):
            return x.local == node.local and (x.uri or '') == (node.uri or '')
        if node.kind == R.PI:
            return x.local == node.local
        return True
    return m


READINGS = [(fs, miss, inc) for fs in (False, True) for miss in ('empty', 'unrestricted') for inc in (False, True)]
# a reading of the under-specified corners of 7.7:
#   fs:   may the current node itself be "the nearest ancestor / first node before" that matches from (XSLT 2.0 says ancestor-or-self)
#   miss: from is given but nothing matches it: empty list, or no restriction
#   inc:  level=any: is the from node itself counted when it matches count


def ref_number_list(node, level, count_ast, from_ast, doc, cache, reading=(False, 'empty', False)):
    fs, miss, inc = reading

    def mset(ast):
        k = id(ast)
        if k not in cache:
            cache[k] = match_set(ast, doc)
        return cache[k]
    if count_ast is None:
        cm = default_count(node)
    else:
        cs = mset(count_ast)
        cm = lambda x: id(x) in cs
    fm = None
    if from_ast is not None:
        fset = mset(from_ast)
        fm = lambda x: id(x) in fset

    def presibs(x):
        if x.kind in (R.ATTR, R.NS) or x.parent is None:
            return []
        sib = x.parent.children
        i = next(j for j, c in enumerate(sib) if c is x)
        return sib[:i]

    if level in ('single', 'multiple'):
        chain = [node] + list(node.ancestors())            # nearest first
        if fm is not None:
            cut = None
            for i, a in enumerate(chain):
                if i == 0 and not fs:
                    continue
                if fm(a):
                    cut = i
                    break
            if cut is None:
                if miss == 'empty':
                    return []
            else:
                chain = chain[:cut]
        if level == 'single':
            for a in chain:
                if cm(a):
                    return [1 + sum(1 for p in presibs(a) if cm(p))]
            return []
        out = []
        for a in reversed(chain):
            if cm(a):
                out.append(1 + sum(1 for p in presibs(a) if cm(p)))
        return out
    # any: the current node and every non-attribute, non-namespace node before it in document order
    cand = [n for n in doc.nodes if n.kind not in (R.ATTR, R.NS) and n.order < node.order] + [node]
    if fm is not None:
        start = None
        pool = cand if fs else cand[:-1]
        for n in reversed(pool):
            if fm(n):
                start = n
                break
        if start is None:
            if miss == 'empty':
                return []
        else:
            cand = [n for n in cand if n.order > start.order or (inc and n is start)]
    c = sum(1 for n in cand if cm(n))
    return [c] if c > 0 else []


def walk_stylesheet(params):
    parts = ['<xsl:stylesheet version="1.0" xmlns:xsl="%s" xmlns:p="u1" xmlns:q="u2">' % XSL,
             '<xsl:template name="probe">']
    for i, (lvl, ct, fr) in enumerate(params):
        attrs = ' level="%s"' % lvl
        if ct:
            attrs += ' count="%s"' % ct
        if fr:
            attrs += ' from="%s"' % fr
        parts.append('<c i="%d"><xsl:number%s format="1."/></c>' % (i, attrs))
    parts.append('</xsl:template>')
    parts.append('''<xsl:template name="walk"><xsl:param name="p"/>
<n p="{$p}"><xsl:call-template name="probe"/></n>
<xsl:for-each select="@*"><n p="{$p}/@{name()}"><xsl:call-template name="probe"/></n></xsl:for-each>
<xsl:for-each select="node()"><xsl:call-template name="walk"><xsl:with-param name="p" select="concat($p,'/',position()-1)"/></xsl:call-template></xsl:for-each>
</xsl:template>
<xsl:template match="/"><out><xsl:call-template name="walk"><xsl:with-param name="p" select="''"/></xsl:call-template></out></xsl:template>
</xsl:stylesheet>''')
    return ''.join(parts)


def fmt_list(nums):
    return ''.join('%d.' % n for n in nums)


# ---- formatting reference -------------------------------------------------------------------------

def roman(n, upper):
    vals = [(1000, 'm'), (900, 'cm'), (500, 'd'), (400, 'cd'), (100, 'c'), (90, 'xc'), (50, 'l'), (40, 'xl'), (10, 'x'), (9, 'ix'),
            (5, 'v'), (4, 'iv'), (1, 'i')]
    out = []
    for v, t in vals:
        while n >= v:
            out.append(t)
            n -= v
    r = ''.join(out)
    return r.upper() if upper else r


def alpha(n, upper):
    out = []
    while n > 0:
        n -= 1
        out.append(chr(ord('a') + n % 26))
        n //= 26
    r = ''.join(reversed(out))
    return r.upper() if upper else r


def decimal(n, width, gsep, gsize):
    t = str(n).rjust(width, '0')
    if gsep and gsize:
        parts = []
        while len(t) > gsize:
            parts.insert(0, t[-gsize:])
            t = t[:-gsize]
        parts.insert(0, t)
        t = gsep.join(parts)
    return t


def format_token(n, tok, gsep, gsize):
    if tok == 'a':
        return alpha(n, False)
    if tok == 'A':
        return alpha(n, True)
    if tok == 'i':
        return roman(n, False)
    if tok == 'I':
        return roman(n, True)
    return decimal(n, len(tok), gsep, gsize)


def split_format(f):
    """-> prefix, [(separator before token, token)], suffix"""
    toks = []
    i = 0
    cur = ''
    pieces = []
    while i < len(f):
        j = i
        isal = f[i].isalnum()
        while j < len(f) and f[j].isalnum() == isal:
            j += 1
        pieces.append((isal, f[i:j]))
        i = j
    prefix = ''
    suffix = ''
    if pieces and not pieces[0][0]:
        prefix = pieces.pop(0)[1]
    if pieces and not pieces[-1][0]:
        suffix = pieces.pop()[1]
    sep = None
    for isal, t in pieces:
        if isal:
            toks.append((sep, t))
            sep = None
        else:
            sep = t
    return prefix, toks, suffix


def format_numbers(nums, f, gsep='', gsize=0):
    prefix, toks, suffix = split_format(f)
    if not toks:
        toks = [(None, '1')]
    out = [prefix]
    for i, n in enumerate(nums):
        sep, tok = toks[min(i, len(toks) - 1)]
        if i > 0:
            if i < len(toks):
                out.append(sep if sep is not None else '.')
            else:
                out.append(toks[-1][0] if toks[-1][0] is not None else '.')
        out.append(format_token(n, tok, gsep, gsize))
    out.append(suffix)
    return ''.join(out)


# ---- shards ----------------------------------------------------------------------------------------

def count_shard(shard, nshards, tier):
    D = docs()
    w = vlib.Worker('xdrv', stderr_path=os.path.join(vlib.BUILD, 'tmp', 'c17.%d.err' % shard))
    thorough = tier == 'thorough'
    params = [(l, c, f) for l in LEVELS for ci, c in enumerate(COUNTS) for fi, f in enumerate(FROMS)
              if thorough or (ci < N_COUNT_Q and fi < N_FROM_Q) or (ci + fi) % 4 == 0]
    if thorough:
        D = D + [x for x in G.docs() if x.name not in set(y.name for y in D)]
    B = 24
    batches = [params[i:i + B] for i in range(0, len(params), B)]
    counts = {'evaluations': 0, 'transformations': 0, 'nontrivial': 0}
    viols = []
    samples = []
    jobs = [(di, bi) for di in range(len(D)) for bi in range(len(batches))]
    for ji, (di, bi) in enumerate(jobs):
        if ji % nshards != shard:
            continue
        d = D[di]
        batch = batches[bi]
        xsl = walk_stylesheet([(l, c[0], f[0]) for l, c, f in batch])
        try:
            r = w.request('tr', xsl, d.to_xml())
        except vlib.WorkerDied as wd:
            viols.append(('count|fatal|batch %d doc %s' % (bi, d.name), {'stderr': wd.stderr_tail[-1500:]}))
            continue
        counts['transformations'] += 1
        if r[0] != '0':
            viols.append(('count|transform-error|%s' % r[1][:100], {'xsl': xsl, 'error': r[1]}))
            continue
        out = R.parse_xml(r[2])
        cache = {}
        got = {}
        for nn in out.docel.children:
            if nn.kind != R.ELEM:
                continue
            pth = nn.attrs[0].value or '/'
            for c in nn.children:
                if c.kind == R.ELEM:
                    got[(int(c.attrs[0].value), pth)] = c.string_value()
        for i, (lvl, ct, fr) in enumerate(batch):
            readings = READINGS if fr[1] is not None else [READINGS[0]]
            best = None
            for rd in readings:
                wrong = []
                for pth, node in d.by_path.items():
                    if node.kind == R.NS:
                        continue
                    exp = fmt_list(ref_number_list(node, lvl, ct[1], fr[1], d, cache, rd))
                    g = got.get((i, pth))
                    if g != exp:
                        wrong.append((pth, exp, g))
                if best is None or len(wrong) < len(best[1]):
                    best = (rd, wrong)
                if not wrong:
                    break
            nodes_n = sum(1 for n in d.by_path.values() if n.kind != R.NS)
            counts['evaluations'] += nodes_n
            counts['nontrivial'] += sum(1 for pth in d.by_path if got.get((i, pth)))
            if best[1]:
                pth, exp, g = sorted(best[1])[0]
                viols.append(('count|level=%s count=%s from=%s|%s' % (lvl, ct[0], fr[0], d.by_path[pth].kind),
                              {'doc': d.name, 'xml': d.to_xml(), 'node': pth, 'expected': exp, 'got': g, 'closest_reading': best[0],
                               'nodes_wrong_under_closest_reading': len(best[1]),
                               'instruction': '<xsl:number level="%s" count="%s" from="%s"/>' % (lvl, ct[0], fr[0])}))
        if len(samples) < 2:
            samples.append('doc %s, %d instructions x %d nodes, e.g. %s' % (d.name, len(batch), len(d.by_path), batch[0][:1] + (batch[0][1][0], batch[0][2][0])))
    w.close()
    return {'counts': counts, 'viols': viols, 'samples': samples}


def history_shard(shard, nshards, tier):
    """One instruction (inside a named template) visited in every order."""
    D = docs()
    thorough = tier == 'thorough'
    w = vlib.Worker('xdrv', stderr_path=os.path.join(vlib.BUILD, 'tmp', 'c17h.%d.err' % shard))
    counts = {'history_evaluations': 0, 'history_transformations': 0, 'histories': 0}
    viols = []
    samples = []
    insts = [('any', COUNTS[0], FROMS[0]), ('any', COUNTS[1], FROMS[0]), ('any', COUNTS[2], FROMS[2]), ('any', COUNTS[3], FROMS[1]),
             ('any', COUNTS[5], FROMS[0]), ('multiple', COUNTS[2], FROMS[0]), ('single', COUNTS[0], FROMS[1]), ('any', COUNTS[0], FROMS[2])]
    if thorough:
        insts = [(l, c, f) for l in LEVELS for c in COUNTS for f in FROMS[:7]]
    jobs = []
    for di in (3, 2, 4) if not thorough else range(len(D)):
        d = D[di]
        o = D[(di + 1) % len(D)]
        elems = [(0, n) for n in d.nodes if n.kind in (R.ELEM, R.TEXT)]
        oelems = [(1, n) for n in o.nodes if n.kind in (R.ELEM, R.TEXT)]
        subsets = [elems[:4], elems[-4:], elems[1:9:2]] if not thorough else [elems[i:i + 4] for i in range(0, max(1, len(elems) - 3), 2)]
        # the same instruction numbering nodes of two source trees in one transformation (main document and document('o.xml'))
        mixed = [elems[1:3] + oelems[1:3], [elems[-1], elems[0]] + [oelems[-1], oelems[0]]]
        if thorough:
            mixed += [elems[i:i + 2] + oelems[i:i + 2] for i in range(2, min(len(elems), len(oelems)) - 1, 3)]
        for ii, inst in enumerate(insts):
            for sub in subsets + mixed:
                for perm in itertools.permutations(range(len(sub))):
                    jobs.append((di, ii, [sub[p] for p in perm]))
            jobs.append((di, ii, list(elems)))
            jobs.append((di, ii, list(reversed(elems))))
            # every node twice, interleaved from both ends
            inter = []
            for a_, b_ in zip(elems, reversed(elems)):
                inter += [a_, b_]
            jobs.append((di, ii, inter))
            # both trees, alternating
            alt = []
            for a_, b_ in zip(elems, oelems):
                alt += [a_, b_]
            jobs.append((di, ii, alt))
    alone = {}
    for ji, (di, ii, seq) in enumerate(jobs):
        if ji % nshards != shard:
            continue
        d = D[di]
        o = D[(di + 1) % len(D)]
        lvl, ct, fr = insts[ii]
        attrs = ' level="%s"' % lvl + (' count="%s"' % ct[0] if ct[0] else '') + (' from="%s"' % fr[0] if fr[0] else '')
        # select each node by its document-order index among //node()
        idx = {}
        for t_, dd in ((0, d), (1, o)):
            for i, n in enumerate([n for n in dd.nodes if n.kind not in (R.ROOT, R.ATTR, R.NS)]):
                idx[(t_, id(n))] = i + 1
        SEL = ("(//node())[%d]", "(document('o.xml')//node())[%d]")
        body = ''.join('<xsl:for-each select="%s"><v><xsl:call-template name="num"/></v></xsl:for-each>' % (SEL[t_] % idx[(t_, id(n))]) for t_, n in seq)
        xsl = ('<xsl:stylesheet version="1.0" xmlns:xsl="%s" xmlns:p="u1"><xsl:template name="num"><xsl:number%s format="1."/></xsl:template>'
               '<xsl:template match="/"><out>%s</out></xsl:template></xsl:stylesheet>' % (XSL, attrs, body))
        try:
            r = w.request('tr', xsl, d.to_xml(), 'r:o.xml=' + o.to_xml())
        except vlib.WorkerDied as wd:
            viols.append(('history|fatal|%s' % attrs, {'stderr': wd.stderr_tail[-1500:]}))
            continue
        counts['history_transformations'] += 1
        counts['histories'] += 1
        if r[0] != '0':
            viols.append(('history|transform-error|%s' % r[1][:100], {'xsl': xsl, 'error': r[1]}))
            continue
        out = R.parse_xml(r[2])
        got = [v.string_value() for v in out.docel.children]
        # differential oracle: the same instruction on the same node in a transformation that numbers nothing else
        exp = []
        for t_, n in seq:
            k = (di, ii, t_, idx[(t_, id(n))])
            if k not in alone:
                xa = ('<xsl:stylesheet version="1.0" xmlns:xsl="%s" xmlns:p="u1"><xsl:template name="num"><xsl:number%s format="1."/></xsl:template>'
                      '<xsl:template match="/"><out><xsl:for-each select="%s"><v><xsl:call-template name="num"/></v></xsl:for-each></out>'
                      '</xsl:template></xsl:stylesheet>' % (XSL, attrs, SEL[t_] % idx[(t_, id(n))]))
                ra = w.request('tr', xa, d.to_xml(), 'r:o.xml=' + o.to_xml())
                counts['history_transformations'] += 1
                alone[k] = R.parse_xml(ra[2]).docel.string_value() if ra[0] == '0' else 'ERROR ' + ra[1][:60]
            exp.append(alone[k])
        counts['history_evaluations'] += len(seq)
        if got != exp:
            k = next(i for i in range(len(exp)) if i >= len(got) or got[i] != exp[i])
            viols.append(('history|%s|%s' % (attrs.strip(), d.name),
                          {'doc': d.name, 'xml': d.to_xml(), 'other': o.to_xml(), 'order': [('o:' if t_ else '') + (o if t_ else d).path(n) for t_, n in seq],
                           'first_wrong_visit': k + 1, 'expected_each_node_alone': exp, 'got': got}))
        if len(samples) < 2 and ji % 997 == shard:
            samples.append('history on %s:%s order %s' % (d.name, attrs, [('o:' if t_ else '') + (o if t_ else d).path(n) for t_, n in seq]))
    w.close()
    return {'counts': counts, 'viols': viols, 'samples': samples}


FORMATS = ['1', '01', '001', 'a', 'A', 'i', 'I', '(1)', '1.', '[a]']
GROUPS = [('', 0), (',', 3), ('.', 2)]
LIST_FORMATS = ['1.1', '(1)', 'A-1', '1.a.i', 'I', '1', '-1+A*', 'a.01']


def format_shard(shard, nshards, tier):
    w = vlib.Worker('xdrv', stderr_path=os.path.join(vlib.BUILD, 'tmp', 'c17f.%d.err' % shard))
    counts = {'format_evaluations': 0, 'format_transformations': 0}
    viols = []
    samples = []
    N = 5000
    src = '<r>' + '<e/>' * 100 + '</r>'
    jobs = [('value', f, g) for f in FORMATS for g in GROUPS] + [('list', f, ('', 0)) for f in LIST_FORMATS] + [('round', '1', ('', 0))]
    for ji, (kind, f, (gsep, gsize)) in enumerate(jobs):
        if ji % nshards != shard:
            continue
        gattr = (' grouping-separator="%s" grouping-size="%d"' % (gsep, gsize)) if gsep else ''
        if kind == 'value':
            xsl = ('<xsl:stylesheet version="1.0" xmlns:xsl="%s"><xsl:template match="/"><out><xsl:for-each select="/r/e[position() &lt;= 50]">'
                   '<xsl:variable name="i" select="position()"/><xsl:for-each select="/r/e"><v><xsl:number value="($i - 1) * 100 + position()" '
                   'format="%s"%s/></v></xsl:for-each></xsl:for-each></out></xsl:template></xsl:stylesheet>' % (XSL, f, gattr))
            expect = [format_numbers([n], f, gsep, gsize) for n in range(1, N + 1)]
        elif kind == 'list':
            # lists of length 1..3 produced by level=multiple on a generated nest
            src2 = '<r>' + ''.join('<a>' + ''.join('<a>' + '<a/>' * 3 + '</a>' for _ in range(3)) + '</a>' for _ in range(12)) + '</r>'
            xsl = ('<xsl:stylesheet version="1.0" xmlns:xsl="%s"><xsl:template match="/"><out><xsl:for-each select="//a">'
                   '<v><xsl:number level="multiple" count="a" format="%s"/></v></xsl:for-each></out></xsl:template></xsl:stylesheet>' % (XSL, f))
            expect = []
            for i in range(1, 13):
                expect.append(format_numbers([i], f))
                for j in range(1, 4):
                    expect.append(format_numbers([i, j], f))
                    for k in range(1, 4):
                        expect.append(format_numbers([i, j, k], f))
        else:
            vals = [('0.5', 1), ('1.5', 2), ('2.49', 2), ('1000', 1000), ('3.5', 4), ("'7'", 7), ('1 + 1', 2), ('10 div 4', 3), ('99.5', 100)]
            xsl = ('<xsl:stylesheet version="1.0" xmlns:xsl="%s"><xsl:template match="/"><out>%s</out></xsl:template></xsl:stylesheet>'
                   % (XSL, ''.join('<v><xsl:number value="%s"/></v>' % v for v, _ in vals)))
            expect = [str(e) for _, e in vals]
        try:
            r = w.request('tr', xsl, src2 if kind == 'list' else src)
        except vlib.WorkerDied as wd:
            viols.append(('format|fatal|%s' % f, {'stderr': wd.stderr_tail[-1500:]}))
            continue
        counts['format_transformations'] += 1
        if r[0] != '0':
            viols.append(('format|transform-error|%s|%s' % (f, r[1][:100]), {'xsl': xsl, 'error': r[1]}))
            continue
        out = R.parse_xml(r[2])
        got = [v.string_value() for v in out.docel.children]
        counts['format_evaluations'] += len(expect)
        if gsep and len(got) == len(expect):
            # how zero padding interacts with grouping is not specified ('0.01' or '001'): compare modulo separators there
            got = [e if (g != e and len(str(i + 1)) < len(f) and g.replace(gsep, '') == e.replace(gsep, '')) else g
                   for i, (g, e) in enumerate(zip(got, expect))]
        if got != expect:
            k = next(i for i in range(len(expect)) if i >= len(got) or got[i] != expect[i])
            viols.append(('format|%s|format=%s%s' % (kind, f, gattr), {'first_wrong_index': k, 'expected': expect[k], 'got': got[k] if k < len(got) else None,
                                                                        'n_wrong': sum(1 for a_, b_ in zip(expect, got) if a_ != b_)}))
        if len(samples) < 2:
            samples.append('format %s %s%s: %d values' % (kind, f, gattr, len(expect)))
    w.close()
    return {'counts': counts, 'viols': viols, 'samples': samples}


def main():
    tier, rp = vlib.tier_from_argv()
    if rp:
        print(json.dumps(json.load(open(rp))['detail'], indent=1))
        return
    t0 = time.time()
    res = vlib.run_sharded(count_shard, (tier,)) + vlib.run_sharded(history_shard, (tier,)) + vlib.run_sharded(format_shard, (tier,))
    counts = vlib.merge_counts([r['counts'] for r in res])
    viols = [vlib.Violation(sig, det) for r in res for sig, det in r['viols']]
    cov = {
        'evaluations': counts['evaluations'] + counts['history_evaluations'] + counts['format_evaluations'],
        'distinct_nontrivial': counts['nontrivial'],
        'rule': 'Counting: level {single,multiple,any} x count {default,a,a|b,*,text(),node(),a[@x],p:a,a[1],*[@x],b|text(),comment()|pi(),a/a,a[b],@*,r/*} '
                'x from {-,a,b,r,/,*,b|r,a[@x],a/a,text()} (quick: the first 8 x 5 and a quarter of the rest; thorough: all 480) x 4 (quick) / 8 '
                '(thorough) documents x EVERY node (elements, attributes, text, comments, PIs, root) against a reference implementation of XSLT '
                '7.7. Histories: one instruction inside a named template visited in every permutation of 4-node subsets of the main document and '
                'of 2+2-node subsets across the main document and a document() tree, in document order, reverse order, interleaved from both '
                'ends and alternating between the two trees, for 8 (quick) / all 336 level x count x from[:7] (thorough) parameter sets; oracle = '
                'the same instruction on the same node in a transformation that numbers nothing else. Formatting: every integer 1..5000 x 10 '
                'formats x 3 groupings, number lists of length 1..3 x 8 formats, rounding of value=. An evaluation is one (instruction, node) or '
                'one formatted number; non-trivial = the expected number list is not empty.',
        'samples': [x for r in res for x in r['samples']][:8] or ['none'],
        'transformations': counts['transformations'] + counts['history_transformations'] + counts['format_transformations'],
        'histories': counts['histories'],
        'exhaustive': True,
    }
    vlib.finish(PROP, tier, 'exploration', cov, viols, t0, assumptions=['lib/refxpath.py', 'pattern matching as decided by C09', 'ASCII format tokens only'])


if __name__ == '__main__':
    main()
