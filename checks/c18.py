#!/usr/bin/env python3
"""C18: number/string conversions and round/floor/ceiling over a structured exhaustive set (harness/c18.cpp)."""
import os, sys, time
sys.path.insert(0, os.path.join(os.path.dirname(os.path.abspath(__file__)), '..', 'lib'))
import vlib

def main():
    tier, replay = vlib.tier_from_argv()
    t0 = time.time()
    if replay:
        import json, re
        det = json.load(open(replay))['detail']
        print(det)
        # the expression of the case, evaluated alone by the real library (the violating domains are deterministic: the tier itself is the full replay)
        m = re.match(r"^(.*\)) (=|!=) ", str(det.get('case', '')))
        if m:
            w = vlib.Worker('xdrv')
            print(w.request('doc', 'd', 'st', '<r/>'))
            print(m.group(1), '->', w.request('xp', 'd', '/', m.group(1)))
            w.close()
        return
    counts, viols, samples = vlib.run_cpp_sharded('c18', [tier])
    cov = {
        'evaluations': counts.get('evaluations', 0),
        'distinct_nontrivial': counts.get('nontrivial', 0),
        'rule': 'A: every double in {sign} x {all 2047 finite exponent fields} x {60 mantissa patterns (quick) / +1428 two-bit and run '
                'patterns (thorough)} + integers within 64 of 2^k (k<=64) + m*10^e (m<=999, |e|<=25) + 10^e and neighbours (-330..310) + '
                'x.5 ties and neighbours: string(x) grammar, strtod(string(x))==x, library number(string(x))==x, round(x) vs exact '
                'reference. B: every string of length <= 6 (quick) / 7 (thorough) over {0,1,9,.,-,+,e,space,tab,x} plus long digit strings: '
                'number(s) vs XPath grammar + glibc strtod. C: round/floor/ceiling/string/number through XPathEvaluator on exact decimal '
                'literals. Each case is a distinct value; non-trivial = non-integral or beyond the int64 fast path (A), valid numeral (B), '
                'fractional argument (C).',
        'samples': samples[:6] or ['none'],
        'domain_doubles': counts.get('domainA', 0), 'domain_strings': counts.get('domainB', 0), 'domain_xpath': counts.get('domainC', 0),
        'fatal_outcomes': counts.get('fatal_outcomes', 0),
        'exhaustive': counts.get('restart_cap_hit', 0) == 0,
    }
    vlib.finish('C18', tier, 'exploration', cov, viols, t0,
                assumptions=['glibc strtod/printf are correctly rounded', 'the structured set stands for all 2^64 doubles (small-scope)'])

main()
