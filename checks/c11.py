#!/usr/bin/env python3
"""C11: an expression has one value whichever way the caller asks for it. Every expression of the C02 families as the
top-level node x every context node x the six XPath::execute entry points (metamorphic, inside the library), and in situ:
xsl:if / xsl:when / xsl:value-of / attribute value template / xsl:number value observe the same value."""
import os, sys, time, json, re
sys.path.insert(0, os.path.join(os.path.dirname(os.path.abspath(__file__)), '..', 'lib'))
sys.path.insert(0, os.path.dirname(os.path.abspath(__file__)))
import vlib, refdoc as R, refxpath as X, xpgen as G
import c02

PROP = 'C11'
XSL = 'http://www.w3.org/1999/XSL/Transform'


def cases(tier):
    seen = set()
    for fam, text, ast in c02.gen_cases('quick' if tier == 'quick' else 'thorough'):
        if ast is None:
            continue
        if fam in ('step1-unabbrev', 'binop-tight'):
            continue
        if tier == 'quick' and fam in ('step2', 'tokens'):
            continue
        if text in seen:
            continue
        seen.add(text)
        yield fam, text, ast
    # computed numbers at the boundaries of the number formatter: around 2^31, 2^32, 2^53, 2^63, 2^64, 10^21, and small fractions.
    # (Literals and variables take other routes through the formatter than computed values do.)
    import xpparse
    for a in BIGNUMS:
        for bb in BIGNUMS:
            for op in ('*', 'div', '+', '-'):
                for wrap in ('%s', '-(%s)') + (('round(%s)', '(%s) mod 7') if tier != 'quick' else ()):
                    text = wrap % ('%s %s %s' % (a, op, bb))
                    if text not in seen:
                        seen.add(text)
                        yield 'bignum', text, xpparse.parse_text(text)


BIGNUMS = ['4294967296', '2147483648', '9007199254740992', '9223372036854775807', '9223372036854775808', '18446744073709551616',
           '1000000000000000000000', '123456789012345678', '3', '0.5', '0.1', '0.000001']


def top_op(ast):
    k = ast[0]
    if k == 'bin':
        return 'op:' + ast[1]
    if k == 'fn':
        return 'fn:' + ast[1]
    return k


def api_shard(shard, nshards, tier):
    docs = G.docs()
    w = vlib.Worker('xdrv', stderr_path=os.path.join(vlib.BUILD, 'tmp', 'c11.%d.err' % shard))
    nsargs = ['%s=%s' % kv for kv in sorted(G.NSMAP.items())]
    for i, d in enumerate(docs):
        assert w.request('doc', 'd%d' % i, 'st', d.to_xml())[0] == 'ok'
    counts = {'evaluations': 0, 'cases': 0, 'nontrivial': 0, 'generic_errors': 0}
    tops = set()
    viols = []
    samples = []
    for idx, (fam, text, ast) in enumerate(cases(tier)):
        if idx % nshards != shard:
            continue
        counts['cases'] += 1
        tops.add(top_op(ast))
        dep = c02.ctx_dependent(ast)
        bad = False
        some_ok = False
        for di in ([0, 1, 4] if dep else [0]):
            try:
                r = w.request('xp6all', 'd%d' % di, text, *nsargs)
            except vlib.WorkerDied as wd:
                viols.append(('%s|fatal|%s' % (fam, text), {'expr': text, 'doc': docs[di].name, 'stderr': wd.stderr_tail[-1500:]}))
                for j, dd in enumerate(docs):
                    w.request('doc', 'd%d' % j, 'st', dd.to_xml())
                bad = True
                break
            if r[0] != 'ok':
                continue       # does not compile: not this property's business
            res = r[1:] if dep else r[1:2]
            for ni, v in enumerate(res):
                counts['evaluations'] += 6
                if v == 'ok':
                    some_ok = True
                elif v == 'e':
                    counts['generic_errors'] += 1
                elif not bad:
                    bad = True
                    kinds = sorted(set(x.split(':')[0] + (':error-mismatch' if 'error-mismatch' in x else '') for x in v.split('|')))
                    viols.append(('%s|%s|%s' % (fam, '+'.join(kinds), text),
                                  {'expr': text, 'doc': docs[di].name, 'xml': docs[di].to_xml(), 'node_index': ni, 'disagreements': v}))
            if bad:
                break
        if some_ok:
            counts['nontrivial'] += 1
        if len(samples) < 3 and idx % 7919 == shard:
            samples.append('%s: %s' % (fam, text))
    w.close()
    return {'counts': counts, 'viols': viols, 'samples': samples, 'tops': sorted(tops)}


# ---------------------------------------------------------------------------------------------
# in situ

def esc_attr(t):
    return t.replace('&', '&amp;').replace('<', '&lt;').replace('"', '&quot;').replace('{', '{{').replace('}', '}}')


def esc_sel(t):
    return t.replace('&', '&amp;').replace('<', '&lt;').replace('"', '&quot;')


def insitu_stylesheet(exprs, strip=False):
    parts = ['<xsl:stylesheet version="1.0" xmlns:xsl="%s" xmlns:p="u1" xmlns:q="u2">%s<xsl:template match="/"><out>'
             % (XSL, '<xsl:strip-space elements="*"/>' if strip else ''),
             '<xsl:for-each select="//node()|//@*|/">']
    for i, e in enumerate(exprs):
        t = esc_sel(e)
        parts.append('<c i="%d" g="{generate-id()}">' % i)
        # numeric observers: an operand of arithmetic, a numeric function argument, xsl:number value= (sort keys below)
        parts.append('<n><xsl:value-of select="number(%s)"/></n><n1><xsl:value-of select="(%s) + 0"/></n1>' % (t, t))
        parts.append('<u><xsl:value-of select="substring(\'0123456789\', %s)"/></u><u2><xsl:value-of select="substring(\'0123456789\', number(%s))"/></u2>' % (t, t))
        parts.append('<k><xsl:number value="%s"/></k><k2><xsl:number value="number(%s)"/></k2>' % (t, t))
        parts.append('<i><xsl:if test="%s">T</xsl:if></i>' % t)
        parts.append('<w><xsl:choose><xsl:when test="%s">T</xsl:when><xsl:otherwise/></xsl:choose></w>' % t)
        parts.append('<b><xsl:if test="boolean(%s)">T</xsl:if></b>' % t)
        parts.append('<v><xsl:value-of select="%s"/></v>' % t)
        parts.append('<a x="{%s}"/>' % t.replace('{', '{{').replace('}', '}}'))
        parts.append('<a2 x="[{%s}]"/>' % t.replace('{', '{{').replace('}', '}}'))
        parts.append('<s><xsl:value-of select="string(%s)"/></s>' % t)
        parts.append('<s2><xsl:value-of select="concat(\'[\', string(%s), \']\')"/></s2>' % t)
        parts.append('<t><xsl:variable name="v" select="%s"/><xsl:value-of select="string($v)"/></t>' % t)
        parts.append('</c>')
    parts.append('</xsl:for-each>')
    for i, e in enumerate(exprs):
        # the expression as a numeric sort key: the order must be the one number(E) of each node gives (NaN first, stable)
        parts.append('<so i="%d"><xsl:for-each select="//node()|//@*|/"><xsl:sort select="%s" data-type="number"/><g><xsl:value-of select="generate-id()"/></g></xsl:for-each></so>'
                     % (i, esc_sel(e)))
    parts.append('</out></xsl:template></xsl:stylesheet>')
    return ''.join(parts)


WSDOC = R.make_doc([R.E('r', [('x', '1')], [' ', R.E('a', [('x', '2')], ['\n ', R.E('b', None, [' ', R.E('a', None, ['t', ' ']), '\n']), ' ', R.E('b', None, ['u']), ' ']),
                               '\n', R.E('b', None, [' ', R.E('a', None, [' '])]), ' '])], name='WS')


def insitu_shard(shard, nshards, tier):
    docs = G.docs()
    w = vlib.Worker('xdrv', stderr_path=os.path.join(vlib.BUILD, 'tmp', 'c11i.%d.err' % shard))
    allc = [(fam, text, ast) for fam, text, ast in cases(tier) if fam in ('atom', 'step1', 'binop', 'func', 'unary', 'union', 'filter', 'abbrev')
            and "'" + '"' not in text]
    # expressions that tell the CURRENT node from the context node (current() exists only inside a stylesheet): every entry point has
    # to set both up
    allc += [('current', t, None) for t in (
        'current()', 'current()/@x', 'string(current())', 'number(current()/@x)', 'count(//*[name() = name(current())])', '//a[@x = current()/@x]',
        'sum(//*[. = current()])', '//*[count(. | current()) = 1]/@x', 'count(//node()[generate-id() = generate-id(current())])',
        '(//*[@x])[count(current()/preceding::*) + 1]/@x', 'string-length(current()) + count(current()/@*)', 'boolean(current()/self::a)',
        'count(current()/ancestor-or-self::node())', '//b[. = current()/@x] | current()/@x', 'concat(name(current()), name())')]
    B = 40
    batches = [allc[i:i + B] for i in range(0, len(allc), B)]
    counts = {'insitu_observations': 0, 'insitu_transformations': 0, 'insitu_cases': 0}
    viols = []

    def run(batch, d, strip=False):
        xsl = insitu_stylesheet([t for _, t, _ in batch], strip)
        r = w.request('tr', xsl, d.to_xml())
        counts['insitu_transformations'] += 1
        if r[0] != '0':
            if len(batch) == 1:
                return     # the expression does not compile / raises: the generic path decides that, not this property
            mid = len(batch) // 2
            run(batch[:mid], d, strip)
            run(batch[mid:], d, strip)
            return
        out = R.parse_xml(r[2])
        flagged = set()
        numkeys = {}       # expression index -> [(generate-id, number(E) as text)] in document order
        for c in out.docel.children:
            if c.kind != R.ELEM or c.local != 'c':
                continue
            i = int(c.attrs[0].value)
            f = {}
            for k in c.children:
                if k.kind == R.ELEM:
                    f[k.local] = k.attrs[0].value if k.local in ('a', 'a2') else k.string_value()
            numkeys.setdefault(i, []).append((c.attrs[1].value, f.get('n')))
            counts['insitu_observations'] += 10
            fam, text, ast = batch[i]
            probs = []
            if f.get('i') != f.get('b'):
                probs.append('xsl:if')
            if f.get('w') != f.get('b'):
                probs.append('xsl:when')
            if f.get('v') != f.get('s'):
                probs.append('value-of')
            if f.get('a') != f.get('s'):
                probs.append('avt')
            if f.get('t') != f.get('s'):
                probs.append('variable')
            if f.get('a2') != f.get('s2'):
                probs.append('avt-with-text')
            if f.get('n1') != (f.get('n') if f.get('n') != '-0' else '0'):
                probs.append('arithmetic-operand')
            if f.get('u') != f.get('u2'):
                probs.append('function-argument')
            if f.get('k') != f.get('k2'):
                probs.append('xsl:number-value')
            if probs and i not in flagged:
                flagged.add(i)
                viols.append(('insitu-%s|%s|%s' % (fam, '+'.join(probs), text), {'expr': text, 'doc': d.name, 'observed': f}))
        for so in out.docel.children:
            if so.kind != R.ELEM or so.local != 'so':
                continue
            i = int(so.attrs[0].value)
            if i in flagged or i not in numkeys:
                continue
            got = [g.string_value() for g in so.children if g.kind == R.ELEM]

            def keyf(t):
                return (0, 0.0) if t == 'NaN' else (1, float(t.replace('Infinity', 'inf')))
            want = [gid for gid, _ in sorted(numkeys[i], key=lambda x: keyf(x[1]))]      # sorted() is stable
            counts['insitu_observations'] += 1
            if got != want:
                fam, text, ast = batch[i]
                flagged.add(i)
                viols.append(('insitu-%s|sort-key|%s' % (fam, text), {'expr': text, 'doc': d.name, 'keys_in_document_order': [k for _, k in numkeys[i]][:40],
                                                                       'first_difference': next((j for j in range(min(len(got), len(want))) if got[j] != want[j]), None)}))

    for bi, batch in enumerate(batches):
        if bi % nshards != shard:
            continue
        counts['insitu_cases'] += len(batch)
        try:
            run(batch, docs[0])
            run(batch, WSDOC, True)       # whitespace-only text at several depths, with xsl:strip-space
        except vlib.WorkerDied as wd:
            viols.append(('insitu|fatal|batch %d' % bi, {'exprs': [t for _, t, _ in batch][:5], 'stderr': wd.stderr_tail[-1500:]}))
    w.close()
    return {'counts': counts, 'viols': viols, 'samples': [], 'tops': []}


def replay(path_):
    rec = json.load(open(path_))
    det = rec['detail']
    w = vlib.Worker('xdrv')
    if 'xml' in det:
        print(w.request('doc', 'd', 'st', det['xml']))
        print(w.request('xp6all', 'd', det['expr'], *['%s=%s' % kv for kv in sorted(G.NSMAP.items())]))
    else:
        print(det)
    w.close()


def main():
    tier, rp = vlib.tier_from_argv()
    if rp:
        return replay(rp)
    t0 = time.time()
    res = vlib.run_sharded(api_shard, (tier,))
    res2 = vlib.run_sharded(insitu_shard, (tier,))
    counts = vlib.merge_counts([r['counts'] for r in res + res2])
    viols = [vlib.Violation(sig, det) for r in res + res2 for sig, det in r['viols']]
    tops = sorted(set(t for r in res for t in r['tops']))
    cov = {
        'evaluations': counts['evaluations'] + counts['insitu_observations'],
        'distinct_nontrivial': counts['nontrivial'],
        'rule': 'Every expression of the C02 families (each operator, each core function, literals, paths, unions, groups, filters as the '
                'TOP-LEVEL node) x documents x every context node: XPath::execute(bool&), (double&), (XalanDOMString&) into an empty and '
                'into a non-empty string, (FormatterListener&, fn), (MutableNodeRefList&) must equal boolean()/num()/str()/nodeset() of '
                'the generic execute() result of the same object; an error in one entry point must be an error in all. In situ: xsl:if, '
                'xsl:when, xsl:value-of, attribute value template, a variable, an arithmetic operand, a numeric function argument, xsl:number '
                'value= and a numeric xsl:sort key observe boolean()/string()/number() of the same expression for every node of a document '
                'as current node (the sorted order must be the stable order of the observed number() values, NaN first). A case is an expression text; non-trivial = the generic evaluation succeeds '
                'in some context.',
        'samples': [x for r in res for x in r['samples']][:6] or ['none'],
        'cases': counts['cases'], 'top_level_node_kinds': tops, 'generic_errors': counts['generic_errors'],
        'insitu_cases': counts['insitu_cases'], 'insitu_transformations': counts['insitu_transformations'],
        'exhaustive': True,
    }
    vlib.finish(PROP, tier, 'exploration', cov, viols, t0,
                assumptions=['XObject::boolean/num/str are the standard conversions (decided by C02 through boolean(), number(), string())'])


if __name__ == '__main__':
    main()
